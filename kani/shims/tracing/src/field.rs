//! `Span` and `Event` key-value data.
//!
//! Spans and events may be annotated with key-value data, referred to as _fields_.
//! These fields consist of a mapping from a key (corresponding to
//! a `&str` but represented internally as an array index) to a [`Value`].
//!
//! # `Value`s and `Subscriber`s
//!
//! `Subscriber`s consume `Value`s as fields attached to [span]s or [`Event`]s.
//! The set of field keys on a given span or event is defined on its [`Metadata`].
//! When a span is created, it provides [`Attributes`] to the `Subscriber`'s
//! [`new_span`] method, containing any fields whose values were provided when
//! the span was created; and may call the `Subscriber`'s [`record`] method
//! with additional [`Record`]s if values are added for more of its fields.
//! Similarly, the [`Event`] type passed to the subscriber's [`event`] method
//! will contain any fields attached to each event.
//!
//! `tracing` represents values as either one of a set of Rust primitives
//! (`i64`, `u64`, `f64`, `bool`, and `&str`) or using a `fmt::Display` or
//! `fmt::Debug` implementation. `Subscriber`s are provided these primitive
//! value types as `dyn Value` trait objects.
//!
//! These trait objects can be formatted using `fmt::Debug`, but may also be
//! recorded as typed data by calling the [`Value::record`] method on these
//! trait objects with a _visitor_ implementing the [`Visit`] trait. This trait
//! represents the behavior used to record values of various types. For example,
//! an implementation of `Visit` might record integers by incrementing counters
//! for their field names rather than printing them.
//!
//!
//! # Using `valuable`
//!
//! `tracing`'s [`Value`] trait is intentionally minimalist: it supports only a small
//! number of Rust primitives as typed values, and only permits recording
//! user-defined types with their [`fmt::Debug`] or [`fmt::Display`]
//! implementations. However, there are some cases where it may be useful to record
//! nested values (such as arrays, `Vec`s, or `HashMap`s containing values), or
//! user-defined `struct` and `enum` types without having to format them as
//! unstructured text.
//!
//! To address `Value`'s limitations, `tracing` offers experimental support for
//! the [`valuable`] crate, which provides object-safe inspection of structured
//! values. User-defined types can implement the [`valuable::Valuable`] trait,
//! and be recorded as a `tracing` field by calling their [`as_value`] method.
//! If the [`Subscriber`] also supports the `valuable` crate, it can
//! then visit those types fields as structured values using `valuable`.
//!
//! <pre class="ignore" style="white-space:normal;font:inherit;">
//!     <strong>Note</strong>: <code>valuable</code> support is an
//!     <a href = "../index.html#unstable-features">unstable feature</a>. See
//!     the documentation on unstable features for details on how to enable it.
//! </pre>
//!
//! For example:
//! ```ignore
//! // Derive `Valuable` for our types:
//! use valuable::Valuable;
//!
//! #[derive(Clone, Debug, Valuable)]
//! struct User {
//!     name: String,
//!     age: u32,
//!     address: Address,
//! }
//!
//! #[derive(Clone, Debug, Valuable)]
//! struct Address {
//!     country: String,
//!     city: String,
//!     street: String,
//! }
//!
//! let user = User {
//!     name: "Arwen Undomiel".to_string(),
//!     age: 3000,
//!     address: Address {
//!         country: "Middle Earth".to_string(),
//!         city: "Rivendell".to_string(),
//!         street: "leafy lane".to_string(),
//!     },
//! };
//!
//! // Recording `user` as a `valuable::Value` will allow the `tracing` subscriber
//! // to traverse its fields as a nested, typed structure:
//! tracing::info!(current_user = user.as_value());
//! ```
//!
//! Alternatively, the [`valuable()`] function may be used to convert a type
//! implementing [`Valuable`] into a `tracing` field value.
//!
//! When the `valuable` feature is enabled, the [`Visit`] trait will include an
//! optional [`record_value`] method. `Visit` implementations that wish to
//! record `valuable` values can implement this method with custom behavior.
//! If a visitor does not implement `record_value`, the [`valuable::Value`] will
//! be forwarded to the visitor's [`record_debug`] method.
//!
//! [`fmt::Debug`]: std::fmt::Debug
//! [`fmt::Display`]: std::fmt::Debug
//! [`valuable`]: https://crates.io/crates/valuable
//! [`valuable::Valuable`]: https://docs.rs/valuable/latest/valuable/trait.Valuable.html
//! [`as_value`]: https://docs.rs/valuable/latest/valuable/trait.Valuable.html#tymethod.as_value
//! [`valuable::Value`]: https://docs.rs/valuable/latest/valuable/enum.Value.html
//! [`Subscriber`]: crate::Subscriber
//! [`record_value`]: Visit::record_value
//! [`record_debug`]: Visit::record_debug
//! [span]: mod@crate::span
//! [`Event`]: crate::event::Event
//! [`Metadata`]: crate::Metadata
//! [`Attributes`]: crate::span::Attributes
//! [`Record`]: crate::span::Record
//! [`new_span`]: crate::Subscriber::new_span
//! [`record`]: crate::Subscriber::record
//! [`event`]: crate::Subscriber::event
pub use tracing_core::field::*;

use crate::Metadata;

/// Trait implemented to allow a type to be used as a field key.
///
/// <pre class="ignore" style="white-space:normal;font:inherit;">
/// <strong>Note</strong>: Although this is implemented for both the
/// <a href="./struct.Field.html"><code>Field</code></a> type <em>and</em> any
/// type that can be borrowed as an <code>&str</code>, only <code>Field</code>
/// allows <em>O</em>(1) access.
/// Indexing a field with a string results in an iterative search that performs
/// string comparisons. Thus, if possible, once the key for a field is known, it
/// should be used whenever possible.
/// </pre>
pub trait AsField: crate::sealed::Sealed {
    /// Attempts to convert `&self` into a `Field` with the specified `metadata`.
    ///
    /// If `metadata` defines this field, then the field is returned. Otherwise,
    /// this returns `None`.
    fn as_field(&self, metadata: &Metadata<'_>) -> Option<Field>;
}

// ===== impl AsField =====

impl AsField for Field {
    #[inline]
    fn as_field(&self, metadata: &Metadata<'_>) -> Option<Field> {
        if self.callsite() == metadata.callsite() {
            Some(self.clone())
        } else {
            None
        }
    }
}

impl<'a> AsField for &'a Field {
    #[inline]
    fn as_field(&self, metadata: &Metadata<'_>) -> Option<Field> {
        if self.callsite() == metadata.callsite() {
            Some((*self).clone())
        } else {
            None
        }
    }
}

impl AsField for str {
    #[inline]
    fn as_field(&self, metadata: &Metadata<'_>) -> Option<Field> {
        metadata.fields().field(&self)
    }
}

impl crate::sealed::Sealed for Field {}
impl<'a> crate::sealed::Sealed for &'a Field {}
impl crate::sealed::Sealed for str {}
