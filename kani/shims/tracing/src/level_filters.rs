//! Trace verbosity level filtering.
//!
//! # Compile time filters
//!
//! Trace verbosity levels can be statically disabled at compile time via Cargo
//! features, similar to the [`log` crate]. Trace instrumentation at disabled
//! levels will be skipped and will not even be present in the resulting binary
//! unless the verbosity level is specified dynamically. This level is
//! configured separately for release and debug builds. The features are:
//!
//! * `max_level_off`
//! * `max_level_error`
//! * `max_level_warn`
//! * `max_level_info`
//! * `max_level_debug`
//! * `max_level_trace`
//! * `release_max_level_off`
//! * `release_max_level_error`
//! * `release_max_level_warn`
//! * `release_max_level_info`
//! * `release_max_level_debug`
//! * `release_max_level_trace`
//!
//! These features control the value of the `STATIC_MAX_LEVEL` constant. The
//! instrumentation macros macros check this value before recording an event or
//! constructing a span. By default, no levels are disabled.
//!
//! For example, a crate can disable trace level instrumentation in debug builds
//! and trace, debug, and info level instrumentation in release builds with the
//! following configuration:
//!
//! ```toml
//! [dependencies]
//! tracing = { version = "0.1", features = ["max_level_debug", "release_max_level_warn"] }
//! ```
//! ## Notes
//!
//! Please note that `tracing`'s static max level features do *not* control the
//! [`log`] records that may be emitted when [`tracing`'s "log" feature flag][f] is
//! enabled. This is to allow `tracing` to be disabled entirely at compile time
//! while still emitting `log` records --- such as when a library using
//! `tracing` is used by an application using `log` that doesn't want to
//! generate any `tracing`-related code, but does want to collect `log` records.
//!
//! This means that if the "log" feature is in use, some code may be generated
//! for `log` records emitted by disabled `tracing` events. If this is not
//! desirable, `log` records may be disabled separately using [`log`'s static
//! max level features][`log` crate].
//!
//! [`log`]: https://docs.rs/log/
//! [`log` crate]: https://docs.rs/log/latest/log/#compile-time-filters
//! [f]: https://docs.rs/tracing/latest/tracing/#emitting-log-records
pub use tracing_core::{metadata::ParseLevelFilterError, LevelFilter};

/// The statically configured maximum trace level.
///
/// See the [module-level documentation] for information on how to configure
/// this.
///
/// This value is checked by the `event!` and `span!` macros. Code that
/// manually constructs events or spans via the `Event::record` function or
/// `Span` constructors should compare the level against this value to
/// determine if those spans or events are enabled.
///
/// [module-level documentation]: self#compile-time-filters
pub const STATIC_MAX_LEVEL: LevelFilter = get_max_level_inner();

const fn get_max_level_inner() -> LevelFilter {
    if cfg!(not(debug_assertions)) {
        if cfg!(feature = "release_max_level_off") {
            LevelFilter::OFF
        } else if cfg!(feature = "release_max_level_error") {
            LevelFilter::ERROR
        } else if cfg!(feature = "release_max_level_warn") {
            LevelFilter::WARN
        } else if cfg!(feature = "release_max_level_info") {
            LevelFilter::INFO
        } else if cfg!(feature = "release_max_level_debug") {
            LevelFilter::DEBUG
        } else {
            // Same as branch cfg!(feature = "release_max_level_trace")
            LevelFilter::TRACE
        }
    } else if cfg!(feature = "max_level_off") {
        LevelFilter::OFF
    } else if cfg!(feature = "max_level_error") {
        LevelFilter::ERROR
    } else if cfg!(feature = "max_level_warn") {
        LevelFilter::WARN
    } else if cfg!(feature = "max_level_info") {
        LevelFilter::INFO
    } else if cfg!(feature = "max_level_debug") {
        LevelFilter::DEBUG
    } else {
        // Same as branch cfg!(feature = "max_level_trace")
        LevelFilter::TRACE
    }
}
