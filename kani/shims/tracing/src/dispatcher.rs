//! Dispatches trace events to [`Subscriber`]s.
//!
//! The _dispatcher_ is the component of the tracing system which is responsible
//! for forwarding trace data from the instrumentation points that generate it
//! to the subscriber that collects it.
//!
//! # Using the Trace Dispatcher
//!
//! Every thread in a program using `tracing` has a _default subscriber_. When
//! events occur, or spans are created, they are dispatched to the thread's
//! current subscriber.
//!
//! ## Setting the Default Subscriber
//!
//! By default, the current subscriber is an empty implementation that does
//! nothing. To use a subscriber implementation, it must be set as the default.
//! There are two methods for doing so: [`with_default`] and
//! [`set_global_default`]. `with_default` sets the default subscriber for the
//! duration of a scope, while `set_global_default` sets a default subscriber
//! for the entire process.
//!
//! To use either of these functions, we must first wrap our subscriber in a
//! [`Dispatch`], a cloneable, type-erased reference to a subscriber. For
//! example:
//! ```rust
//! # pub struct FooSubscriber;
//! # use tracing_core::{
//! #   dispatcher, Event, Metadata,
//! #   span::{Attributes, Id, Record}
//! # };
//! # impl tracing_core::Subscriber for FooSubscriber {
//! #   fn new_span(&self, _: &Attributes) -> Id { Id::from_u64(0) }
//! #   fn record(&self, _: &Id, _: &Record) {}
//! #   fn event(&self, _: &Event) {}
//! #   fn record_follows_from(&self, _: &Id, _: &Id) {}
//! #   fn enabled(&self, _: &Metadata) -> bool { false }
//! #   fn enter(&self, _: &Id) {}
//! #   fn exit(&self, _: &Id) {}
//! # }
//! # impl FooSubscriber { fn new() -> Self { FooSubscriber } }
//! use dispatcher::Dispatch;
//!
//! let my_subscriber = FooSubscriber::new();
//! let my_dispatch = Dispatch::new(my_subscriber);
//! ```
//! Then, we can use [`with_default`] to set our `Dispatch` as the default for
//! the duration of a block:
//! ```rust
//! # pub struct FooSubscriber;
//! # use tracing_core::{
//! #   dispatcher, Event, Metadata,
//! #   span::{Attributes, Id, Record}
//! # };
//! # impl tracing_core::Subscriber for FooSubscriber {
//! #   fn new_span(&self, _: &Attributes) -> Id { Id::from_u64(0) }
//! #   fn record(&self, _: &Id, _: &Record) {}
//! #   fn event(&self, _: &Event) {}
//! #   fn record_follows_from(&self, _: &Id, _: &Id) {}
//! #   fn enabled(&self, _: &Metadata) -> bool { false }
//! #   fn enter(&self, _: &Id) {}
//! #   fn exit(&self, _: &Id) {}
//! # }
//! # impl FooSubscriber { fn new() -> Self { FooSubscriber } }
//! # let my_subscriber = FooSubscriber::new();
//! # let my_dispatch = dispatcher::Dispatch::new(my_subscriber);
//! // no default subscriber
//!
//! # #[cfg(feature = "std")]
//! dispatcher::with_default(&my_dispatch, || {
//!     // my_subscriber is the default
//! });
//!
//! // no default subscriber again
//! ```
//! It's important to note that `with_default` will not propagate the current
//! thread's default subscriber to any threads spawned within the `with_default`
//! block. To propagate the default subscriber to new threads, either use
//! `with_default` from the new thread, or use `set_global_default`.
//!
//! As an alternative to `with_default`, we can use [`set_global_default`] to
//! set a `Dispatch` as the default for all threads, for the lifetime of the
//! program. For example:
//! ```rust
//! # pub struct FooSubscriber;
//! # use tracing_core::{
//! #   dispatcher, Event, Metadata,
//! #   span::{Attributes, Id, Record}
//! # };
//! # impl tracing_core::Subscriber for FooSubscriber {
//! #   fn new_span(&self, _: &Attributes) -> Id { Id::from_u64(0) }
//! #   fn record(&self, _: &Id, _: &Record) {}
//! #   fn event(&self, _: &Event) {}
//! #   fn record_follows_from(&self, _: &Id, _: &Id) {}
//! #   fn enabled(&self, _: &Metadata) -> bool { false }
//! #   fn enter(&self, _: &Id) {}
//! #   fn exit(&self, _: &Id) {}
//! # }
//! # impl FooSubscriber { fn new() -> Self { FooSubscriber } }
//! # let my_subscriber = FooSubscriber::new();
//! # let my_dispatch = dispatcher::Dispatch::new(my_subscriber);
//! // no default subscriber
//!
//! dispatcher::set_global_default(my_dispatch)
//!     // `set_global_default` will return an error if the global default
//!     // subscriber has already been set.
//!     .expect("global default was already set!");
//!
//! // `my_subscriber` is now the default
//! ```
//!
//! <pre class="ignore" style="white-space:normal;font:inherit;">
//! <strong>Note</strong>: The thread-local scoped dispatcher (<code>with_default</code>)
//! requires the Rust standard library. <code>no_std</code> users should
//! use <a href="fn.set_global_default.html"><code>set_global_default</code></a>
//! instead.
//! </pre>
//!
//! ## Accessing the Default Subscriber
//!
//! A thread's current default subscriber can be accessed using the
//! [`get_default`] function, which executes a closure with a reference to the
//! currently default `Dispatch`. This is used primarily by `tracing`
//! instrumentation.
//!
//! [`Subscriber`]: crate::Subscriber
#[cfg(feature = "std")]
#[cfg_attr(docsrs, doc(cfg(feature = "std")))]
pub use tracing_core::dispatcher::set_default;
#[cfg(feature = "std")]
#[cfg_attr(docsrs, doc(cfg(feature = "std")))]
pub use tracing_core::dispatcher::with_default;
#[cfg(feature = "std")]
#[cfg_attr(docsrs, doc(cfg(feature = "std")))]
pub use tracing_core::dispatcher::DefaultGuard;
pub use tracing_core::dispatcher::{
    get_default, set_global_default, Dispatch, SetGlobalDefaultError, WeakDispatch,
};

/// Private API for internal use by tracing's macros.
///
/// This function is *not* considered part of `tracing`'s public API, and has no
/// stability guarantees. If you use it, and it breaks or disappears entirely,
/// don't say we didn;'t warn you.
#[doc(hidden)]
pub use tracing_core::dispatcher::has_been_set;
