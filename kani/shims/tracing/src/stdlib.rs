//! Re-exports either the Rust `std` library or `core` and `alloc` when `std` is
//! disabled.
//!
//! `crate::stdlib::...` should be used rather than `std::` when adding code that
//! will be available with the standard library disabled.
//!
//! Note that this module is called `stdlib` rather than `std`, as Rust 1.34.0
//! does not permit redefining the name `stdlib` (although this works on the
//! latest stable Rust).
#[cfg(feature = "std")]
pub(crate) use std::*;

#[cfg(not(feature = "std"))]
pub(crate) use self::no_std::*;

#[cfg(not(feature = "std"))]
mod no_std {
    // We pre-emptively export everything from libcore/liballoc, (even modules
    // we aren't using currently) to make adding new code easier. Therefore,
    // some of these imports will be unused.
    #![allow(unused_imports)]

    pub(crate) use core::{
        any, array, ascii, cell, char, clone, cmp, convert, default, f32, f64, ffi, future, hash,
        hint, i128, i16, i8, isize, iter, marker, mem, num, ops, option, pin, ptr, result, task,
        time, u128, u16, u32, u8, usize,
    };

    pub(crate) use alloc::{boxed, collections, rc, string, vec};

    pub(crate) mod borrow {
        pub(crate) use alloc::borrow::*;
        pub(crate) use core::borrow::*;
    }

    pub(crate) mod fmt {
        pub(crate) use alloc::fmt::*;
        pub(crate) use core::fmt::*;
    }

    pub(crate) mod slice {
        pub(crate) use alloc::slice::*;
        pub(crate) use core::slice::*;
    }

    pub(crate) mod str {
        pub(crate) use alloc::str::*;
        pub(crate) use core::str::*;
    }

    pub(crate) mod sync {
        pub(crate) use alloc::sync::*;
        pub(crate) use core::sync::*;
    }
}
