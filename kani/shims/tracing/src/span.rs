//! Spans represent periods of time in which a program was executing in a
//! particular context.
//!
//! A span consists of [fields], user-defined key-value pairs of arbitrary data
//! that describe the context the span represents, and a set of fixed attributes
//! that describe all `tracing` spans and events. Attributes describing spans
//! include:
//!
//! - An [`Id`] assigned by the subscriber that uniquely identifies it in relation
//!   to other spans.
//! - The span's [parent] in the trace tree.
//! - [Metadata] that describes static characteristics of all spans
//!   originating from that callsite, such as its name, source code location,
//!   [verbosity level], and the names of its fields.
//!
//! # Creating Spans
//!
//! Spans are created using the [`span!`] macro. This macro is invoked with the
//! following arguments, in order:
//!
//! - The [`target`] and/or [`parent`][parent] attributes, if the user wishes to
//!   override their default values.
//! - The span's [verbosity level]
//! - A string literal providing the span's name.
//! - Finally, zero or more arbitrary key/value fields.
//!
//! [`target`]: super::Metadata::target
//!
//! For example:
//! ```rust
//! use tracing::{span, Level};
//!
//! /// Construct a new span at the `INFO` level named "my_span", with a single
//! /// field named answer , with the value `42`.
//! let my_span = span!(Level::INFO, "my_span", answer = 42);
//! ```
//!
//! The documentation for the [`span!`] macro provides additional examples of
//! the various options that exist when creating spans.
//!
//! The [`trace_span!`], [`debug_span!`], [`info_span!`], [`warn_span!`], and
//! [`error_span!`] exist as shorthand for constructing spans at various
//! verbosity levels.
//!
//! ## Recording Span Creation
//!
//! The [`Attributes`] type contains data associated with a span, and is
//! provided to the [`Subscriber`] when a new span is created. It contains
//! the span's metadata, the ID of [the span's parent][parent] if one was
//! explicitly set, and any fields whose values were recorded when the span was
//! constructed. The subscriber, which is responsible for recording `tracing`
//! data, can then store or record these values.
//!
//! # The Span Lifecycle
//!
//! ## Entering a Span
//!
//! A thread of execution is said to _enter_ a span when it begins executing,
//! and _exit_ the span when it switches to another context. Spans may be
//! entered through the [`enter`], [`entered`], and [`in_scope`] methods.
//!
//! The [`enter`] method enters a span, returning a [guard] that exits the span
//! when dropped
//! ```
//! # use tracing::{span, Level};
//! let my_var: u64 = 5;
//! let my_span = span!(Level::TRACE, "my_span", my_var);
//!
//! // `my_span` exists but has not been entered.
//!
//! // Enter `my_span`...
//! let _enter = my_span.enter();
//!
//! // Perform some work inside of the context of `my_span`...
//! // Dropping the `_enter` guard will exit the span.
//!```
//!
//! <div class="example-wrap" style="display:inline-block"><pre class="compile_fail" style="white-space:normal;font:inherit;">
//!     <strong>Warning</strong>: In asynchronous code that uses async/await syntax,
//!     <code>Span::enter</code> may produce incorrect traces if the returned drop
//!     guard is held across an await point. See
//!     <a href="struct.Span.html#in-asynchronous-code">the method documentation</a>
//!     for details.
//! </pre></div>
//!
//! The [`entered`] method is analogous to [`enter`], but moves the span into
//! the returned guard, rather than borrowing it. This allows creating and
//! entering a span in a single expression:
//!
//! ```
//! # use tracing::{span, Level};
//! // Create a span and enter it, returning a guard:
//! let span = span!(Level::INFO, "my_span").entered();
//!
//! // We are now inside the span! Like `enter()`, the guard returned by
//! // `entered()` will exit the span when it is dropped...
//!
//! // ...but, it can also be exited explicitly, returning the `Span`
//! // struct:
//! let span = span.exit();
//! ```
//!
//! Finally, [`in_scope`] takes a closure or function pointer and executes it
//! inside the span:
//!
//! ```
//! # use tracing::{span, Level};
//! let my_var: u64 = 5;
//! let my_span = span!(Level::TRACE, "my_span", my_var = &my_var);
//!
//! my_span.in_scope(|| {
//!     // perform some work in the context of `my_span`...
//! });
//!
//! // Perform some work outside of the context of `my_span`...
//!
//! my_span.in_scope(|| {
//!     // Perform some more work in the context of `my_span`.
//! });
//! ```
//!
//! <pre class="ignore" style="white-space:normal;font:inherit;">
//!     <strong>Note</strong>: Since entering a span takes <code>&self</code>, and
//!     <code>Span</code>s are <code>Clone</code>, <code>Send</code>, and
//!     <code>Sync</code>, it is entirely valid for multiple threads to enter the
//!     same span concurrently.
//! </pre>
//!
//! ## Span Relationships
//!
//! Spans form a tree structure — unless it is a root span, all spans have a
//! _parent_, and may have one or more _children_. When a new span is created,
//! the current span becomes the new span's parent. The total execution time of
//! a span consists of the time spent in that span and in the entire subtree
//! represented by its children. Thus, a parent span always lasts for at least
//! as long as the longest-executing span in its subtree.
//!
//! ```
//! # use tracing::{Level, span};
//! // this span is considered the "root" of a new trace tree:
//! span!(Level::INFO, "root").in_scope(|| {
//!     // since we are now inside "root", this span is considered a child
//!     // of "root":
//!     span!(Level::DEBUG, "outer_child").in_scope(|| {
//!         // this span is a child of "outer_child", which is in turn a
//!         // child of "root":
//!         span!(Level::TRACE, "inner_child").in_scope(|| {
//!             // and so on...
//!         });
//!     });
//!     // another span created here would also be a child of "root".
//! });
//!```
//!
//! In addition, the parent of a span may be explicitly specified in
//! the `span!` macro. For example:
//!
//! ```rust
//! # use tracing::{Level, span};
//! // Create, but do not enter, a span called "foo".
//! let foo = span!(Level::INFO, "foo");
//!
//! // Create and enter a span called "bar".
//! let bar = span!(Level::INFO, "bar");
//! let _enter = bar.enter();
//!
//! // Although we have currently entered "bar", "baz"'s parent span
//! // will be "foo".
//! let baz = span!(parent: &foo, Level::INFO, "baz");
//! ```
//!
//! A child span should typically be considered _part_ of its parent. For
//! example, if a subscriber is recording the length of time spent in various
//! spans, it should generally include the time spent in a span's children as
//! part of that span's duration.
//!
//! In addition to having zero or one parent, a span may also _follow from_ any
//! number of other spans. This indicates a causal relationship between the span
//! and the spans that it follows from, but a follower is *not* typically
//! considered part of the duration of the span it follows. Unlike the parent, a
//! span may record that it follows from another span after it is created, using
//! the [`follows_from`] method.
//!
//! As an example, consider a listener task in a server. As the listener accepts
//! incoming connections, it spawns new tasks that handle those connections. We
//! might want to have a span representing the listener, and instrument each
//! spawned handler task with its own span. We would want our instrumentation to
//! record that the handler tasks were spawned as a result of the listener task.
//! However, we might not consider the handler tasks to be _part_ of the time
//! spent in the listener task, so we would not consider those spans children of
//! the listener span. Instead, we would record that the handler tasks follow
//! from the listener, recording the causal relationship but treating the spans
//! as separate durations.
//!
//! ## Closing Spans
//!
//! Execution may enter and exit a span multiple times before that span is
//! _closed_. Consider, for example, a future which has an associated
//! span and enters that span every time it is polled:
//! ```rust
//! # use std::future::Future;
//! # use std::task::{Context, Poll};
//! # use std::pin::Pin;
//! struct MyFuture {
//!    // data
//!    span: tracing::Span,
//! }
//!
//! impl Future for MyFuture {
//!     type Output = ();
//!
//!     fn poll(self: Pin<&mut Self>, _cx: &mut Context<'_>) -> Poll<Self::Output> {
//!         let _enter = self.span.enter();
//!         // Do actual future work...
//! # Poll::Ready(())
//!     }
//! }
//! ```
//!
//! If this future was spawned on an executor, it might yield one or more times
//! before `poll` returns [`Poll::Ready`]. If the future were to yield, then
//! the executor would move on to poll the next future, which may _also_ enter
//! an associated span or series of spans. Therefore, it is valid for a span to
//! be entered repeatedly before it completes. Only the time when that span or
//! one of its children was the current span is considered to be time spent in
//! that span. A span which is not executing and has not yet been closed is said
//! to be _idle_.
//!
//! Because spans may be entered and exited multiple times before they close,
//! [`Subscriber`]s have separate trait methods which are called to notify them
//! of span exits and when span handles are dropped. When execution exits a
//! span, [`exit`] will always be called with that span's ID to notify the
//! subscriber that the span has been exited. When span handles are dropped, the
//! [`drop_span`] method is called with that span's ID. The subscriber may use
//! this to determine whether or not the span will be entered again.
//!
//! If there is only a single handle with the capacity to exit a span, dropping
//! that handle "closes" the span, since the capacity to enter it no longer
//! exists. For example:
//! ```
//! # use tracing::{Level, span};
//! {
//!     span!(Level::TRACE, "my_span").in_scope(|| {
//!         // perform some work in the context of `my_span`...
//!     }); // --> Subscriber::exit(my_span)
//!
//!     // The handle to `my_span` only lives inside of this block; when it is
//!     // dropped, the subscriber will be informed via `drop_span`.
//!
//! } // --> Subscriber::drop_span(my_span)
//! ```
//!
//! However, if multiple handles exist, the span can still be re-entered even if
//! one or more is dropped. For determining when _all_ handles to a span have
//! been dropped, `Subscriber`s have a [`clone_span`] method, which is called
//! every time a span handle is cloned. Combined with `drop_span`, this may be
//! used to track the number of handles to a given span — if `drop_span` has
//! been called one more time than the number of calls to `clone_span` for a
//! given ID, then no more handles to the span with that ID exist. The
//! subscriber may then treat it as closed.
//!
//! # When to use spans
//!
//! As a rule of thumb, spans should be used to represent discrete units of work
//! (e.g., a given request's lifetime in a server) or periods of time spent in a
//! given context (e.g., time spent interacting with an instance of an external
//! system, such as a database).
//!
//! Which scopes in a program correspond to new spans depend somewhat on user
//! intent. For example, consider the case of a loop in a program. Should we
//! construct one span and perform the entire loop inside of that span, like:
//!
//! ```rust
//! # use tracing::{Level, span};
//! # let n = 1;
//! let span = span!(Level::TRACE, "my_loop");
//! let _enter = span.enter();
//! for i in 0..n {
//!     # let _ = i;
//!     // ...
//! }
//! ```
//! Or, should we create a new span for each iteration of the loop, as in:
//! ```rust
//! # use tracing::{Level, span};
//! # let n = 1u64;
//! for i in 0..n {
//!     let span = span!(Level::TRACE, "my_loop", iteration = i);
//!     let _enter = span.enter();
//!     // ...
//! }
//! ```
//!
//! Depending on the circumstances, we might want to do either, or both. For
//! example, if we want to know how long was spent in the loop overall, we would
//! create a single span around the entire loop; whereas if we wanted to know how
//! much time was spent in each individual iteration, we would enter a new span
//! on every iteration.
//!
//! [fields]: super::field
//! [Metadata]: super::Metadata
//! [verbosity level]: super::Level
//! [`Poll::Ready`]: std::task::Poll::Ready
//! [`span!`]: super::span!
//! [`trace_span!`]: super::trace_span!
//! [`debug_span!`]: super::debug_span!
//! [`info_span!`]: super::info_span!
//! [`warn_span!`]: super::warn_span!
//! [`error_span!`]: super::error_span!
//! [`clone_span`]: super::subscriber::Subscriber::clone_span()
//! [`drop_span`]: super::subscriber::Subscriber::drop_span()
//! [`exit`]: super::subscriber::Subscriber::exit
//! [`Subscriber`]: super::subscriber::Subscriber
//! [`enter`]: Span::enter()
//! [`entered`]: Span::entered()
//! [`in_scope`]: Span::in_scope()
//! [`follows_from`]: Span::follows_from()
//! [guard]: Entered
//! [parent]: #span-relationships
pub use tracing_core::span::{Attributes, Id, Record};

use crate::stdlib::{
    cmp, fmt,
    hash::{Hash, Hasher},
    marker::PhantomData,
    mem,
    ops::Deref,
};
use crate::{
    dispatcher::{self, Dispatch},
    field, Metadata,
};

/// Trait implemented by types which have a span `Id`.
pub trait AsId: crate::sealed::Sealed {
    /// Returns the `Id` of the span that `self` corresponds to, or `None` if
    /// this corresponds to a disabled span.
    fn as_id(&self) -> Option<&Id>;
}

/// A handle representing a span, with the capability to enter the span if it
/// exists.
///
/// If the span was rejected by the current `Subscriber`'s filter, entering the
/// span will silently do nothing. Thus, the handle can be used in the same
/// manner regardless of whether or not the trace is currently being collected.
#[derive(Clone)]
pub struct Span {
    /// A handle used to enter the span when it is not executing.
    ///
    /// If this is `None`, then the span has either closed or was never enabled.
    inner: Option<Inner>,
    /// Metadata describing the span.
    ///
    /// This might be `Some` even if `inner` is `None`, in the case that the
    /// span is disabled but the metadata is needed for `log` support.
    meta: Option<&'static Metadata<'static>>,
}

/// A handle representing the capacity to enter a span which is known to exist.
///
/// Unlike `Span`, this type is only constructed for spans which _have_ been
/// enabled by the current filter. This type is primarily used for implementing
/// span handles; users should typically not need to interact with it directly.
#[derive(Debug)]
pub(crate) struct Inner {
    /// The span's ID, as provided by `subscriber`.
    id: Id,

    /// The subscriber that will receive events relating to this span.
    ///
    /// This should be the same subscriber that provided this span with its
    /// `id`.
    subscriber: Dispatch,
}

/// A guard representing a span which has been entered and is currently
/// executing.
///
/// When the guard is dropped, the span will be exited.
///
/// This is returned by the [`Span::enter`] function.
///
/// [`Span::enter`]: super::Span::enter
#[derive(Debug)]
#[must_use = "once a span has been entered, it should be exited"]
pub struct Entered<'a> {
    span: &'a Span,
}

/// An owned version of [`Entered`], a guard representing a span which has been
/// entered and is currently executing.
///
/// When the guard is dropped, the span will be exited.
///
/// This is returned by the [`Span::entered`] function.
///
/// [`Span::entered`]: super::Span::entered()
#[derive(Debug)]
#[must_use = "once a span has been entered, it should be exited"]
pub struct EnteredSpan {
    span: Span,

    /// ```compile_fail
    /// use tracing::span::*;
    /// trait AssertSend: Send {}
    ///
    /// impl AssertSend for EnteredSpan {}
    /// ```
    _not_send: PhantomNotSend,
}

/// `log` target for all span lifecycle (creation/enter/exit/close) records.
#[cfg(feature = "log")]
const LIFECYCLE_LOG_TARGET: &str = "tracing::span";
/// `log` target for span activity (enter/exit) records.
#[cfg(feature = "log")]
const ACTIVITY_LOG_TARGET: &str = "tracing::span::active";

// ===== impl Span =====

impl Span {
    /// Constructs a new `Span` with the given [metadata] and set of
    /// [field values].
    ///
    /// The new span will be constructed by the currently-active [`Subscriber`],
    /// with the current span as its parent (if one exists).
    ///
    /// After the span is constructed, [field values] and/or [`follows_from`]
    /// annotations may be added to it.
    ///
    /// [metadata]: super::Metadata
    /// [`Subscriber`]: super::subscriber::Subscriber
    /// [field values]: super::field::ValueSet
    /// [`follows_from`]: super::Span::follows_from
    pub fn new(meta: &'static Metadata<'static>, values: &field::ValueSet<'_>) -> Span {
        dispatcher::get_default(|dispatch| Self::new_with(meta, values, dispatch))
    }

    #[inline]
    #[doc(hidden)]
    pub fn new_with(
        meta: &'static Metadata<'static>,
        values: &field::ValueSet<'_>,
        dispatch: &Dispatch,
    ) -> Span {
        let new_span = Attributes::new(meta, values);
        Self::make_with(meta, new_span, dispatch)
    }

    /// Constructs a new `Span` as the root of its own trace tree, with the
    /// given [metadata] and set of [field values].
    ///
    /// After the span is constructed, [field values] and/or [`follows_from`]
    /// annotations may be added to it.
    ///
    /// [metadata]: super::Metadata
    /// [field values]: super::field::ValueSet
    /// [`follows_from`]: super::Span::follows_from
    pub fn new_root(meta: &'static Metadata<'static>, values: &field::ValueSet<'_>) -> Span {
        dispatcher::get_default(|dispatch| Self::new_root_with(meta, values, dispatch))
    }

    #[inline]
    #[doc(hidden)]
    pub fn new_root_with(
        meta: &'static Metadata<'static>,
        values: &field::ValueSet<'_>,
        dispatch: &Dispatch,
    ) -> Span {
        let new_span = Attributes::new_root(meta, values);
        Self::make_with(meta, new_span, dispatch)
    }

    /// Constructs a new `Span` as child of the given parent span, with the
    /// given [metadata] and set of [field values].
    ///
    /// After the span is constructed, [field values] and/or [`follows_from`]
    /// annotations may be added to it.
    ///
    /// [metadata]: super::Metadata
    /// [field values]: super::field::ValueSet
    /// [`follows_from`]: super::Span::follows_from
    pub fn child_of(
        parent: impl Into<Option<Id>>,
        meta: &'static Metadata<'static>,
        values: &field::ValueSet<'_>,
    ) -> Span {
        let mut parent = parent.into();
        dispatcher::get_default(move |dispatch| {
            Self::child_of_with(Option::take(&mut parent), meta, values, dispatch)
        })
    }

    #[inline]
    #[doc(hidden)]
    pub fn child_of_with(
        parent: impl Into<Option<Id>>,
        meta: &'static Metadata<'static>,
        values: &field::ValueSet<'_>,
        dispatch: &Dispatch,
    ) -> Span {
        let new_span = match parent.into() {
            Some(parent) => Attributes::child_of(parent, meta, values),
            None => Attributes::new_root(meta, values),
        };
        Self::make_with(meta, new_span, dispatch)
    }

    /// Constructs a new disabled span with the given `Metadata`.
    ///
    /// This should be used when a span is constructed from a known callsite,
    /// but the subscriber indicates that it is disabled.
    ///
    /// Entering, exiting, and recording values on this span will not notify the
    /// `Subscriber` but _may_ record log messages if the `log` feature flag is
    /// enabled.
    #[inline(always)]
    pub fn new_disabled(meta: &'static Metadata<'static>) -> Span {
        Self {
            inner: None,
            meta: Some(meta),
        }
    }

    /// Constructs a new span that is *completely disabled*.
    ///
    /// This can be used rather than `Option<Span>` to represent cases where a
    /// span is not present.
    ///
    /// Entering, exiting, and recording values on this span will do nothing.
    #[inline(always)]
    pub const fn none() -> Span {
        Self {
            inner: None,
            meta: None,
        }
    }

    /// Returns a handle to the span [considered by the `Subscriber`] to be the
    /// current span.
    ///
    /// If the subscriber indicates that it does not track the current span, or
    /// that the thread from which this function is called is not currently
    /// inside a span, the returned span will be disabled.
    ///
    /// [considered by the `Subscriber`]:
    ///     super::subscriber::Subscriber::current_span
    pub fn current() -> Span {
        dispatcher::get_default(|dispatch| {
            if let Some((id, meta)) = dispatch.current_span().into_inner() {
                let id = dispatch.clone_span(&id);
                Self {
                    inner: Some(Inner::new(id, dispatch)),
                    meta: Some(meta),
                }
            } else {
                Self::none()
            }
        })
    }

    fn make_with(
        meta: &'static Metadata<'static>,
        new_span: Attributes<'_>,
        dispatch: &Dispatch,
    ) -> Span {
        let attrs = &new_span;
        let id = dispatch.new_span(attrs);
        let inner = Some(Inner::new(id, dispatch));

        let span = Self {
            inner,
            meta: Some(meta),
        };

        if_log_enabled! { *meta.level(), {
            let target = if attrs.is_empty() {
                LIFECYCLE_LOG_TARGET
            } else {
                meta.target()
            };
            let values = attrs.values();
            span.log(
                target,
                level_to_log!(*meta.level()),
                format_args!("++ {};{}", meta.name(), crate::log::LogValueSet { values, is_first: false }),
            );
        }}

        span
    }

    /// Enters this span, returning a guard that will exit the span when dropped.
    ///
    /// If this span is enabled by the current subscriber, then this function will
    /// call [`Subscriber::enter`] with the span's [`Id`], and dropping the guard
    /// will call [`Subscriber::exit`]. If the span is disabled, this does
    /// nothing.
    ///
    /// # In Asynchronous Code
    ///
    /// **Warning**: in asynchronous code that uses [async/await syntax][syntax],
    /// `Span::enter` should be used very carefully or avoided entirely. Holding
    /// the drop guard returned by `Span::enter` across `.await` points will
    /// result in incorrect traces. For example,
    ///
    /// ```
    /// # use tracing::info_span;
    /// # async fn some_other_async_function() {}
    /// async fn my_async_function() {
    ///     let span = info_span!("my_async_function");
    ///
    ///     // WARNING: This span will remain entered until this
    ///     // guard is dropped...
    ///     let _enter = span.enter();
    ///     // ...but the `await` keyword may yield, causing the
    ///     // runtime to switch to another task, while remaining in
    ///     // this span!
    ///     some_other_async_function().await
    ///
    ///     // ...
    /// }
    /// ```
    ///
    /// The drop guard returned by `Span::enter` exits the span when it is
    /// dropped. When an async function or async block yields at an `.await`
    /// point, the current scope is _exited_, but values in that scope are
    /// **not** dropped (because the async block will eventually resume
    /// execution from that await point). This means that _another_ task will
    /// begin executing while _remaining_ in the entered span. This results in
    /// an incorrect trace.
    ///
    /// Instead of using `Span::enter` in asynchronous code, prefer the
    /// following:
    ///
    /// * To enter a span for a synchronous section of code within an async
    ///   block or function, prefer [`Span::in_scope`]. Since `in_scope` takes a
    ///   synchronous closure and exits the span when the closure returns, the
    ///   span will always be exited before the next await point. For example:
    ///   ```
    ///   # use tracing::info_span;
    ///   # async fn some_other_async_function(_: ()) {}
    ///   async fn my_async_function() {
    ///       let span = info_span!("my_async_function");
    ///
    ///       let some_value = span.in_scope(|| {
    ///           // run some synchronous code inside the span...
    ///       });
    ///
    ///       // This is okay! The span has already been exited before we reach
    ///       // the await point.
    ///       some_other_async_function(some_value).await;
    ///
    ///       // ...
    ///   }
    ///   ```
    /// * For instrumenting asynchronous code, `tracing` provides the
    ///   [`Future::instrument` combinator][instrument] for
    ///   attaching a span to a future (async function or block). This will
    ///   enter the span _every_ time the future is polled, and exit it whenever
    ///   the future yields.
    ///
    ///   `Instrument` can be used with an async block inside an async function:
    ///   ```ignore
    ///   # use tracing::info_span;
    ///   use tracing::Instrument;
    ///
    ///   # async fn some_other_async_function() {}
    ///   async fn my_async_function() {
    ///       let span = info_span!("my_async_function");
    ///       async move {
    ///          // This is correct! If we yield here, the span will be exited,
    ///          // and re-entered when we resume.
    ///          some_other_async_function().await;
    ///
    ///          //more asynchronous code inside the span...
    ///
    ///       }
    ///         // instrument the async block with the span...
    ///         .instrument(span)
    ///         // ...and await it.
    ///         .await
    ///   }
    ///   ```
    ///
    ///   It can also be used to instrument calls to async functions at the
    ///   callsite:
    ///   ```ignore
    ///   # use tracing::debug_span;
    ///   use tracing::Instrument;
    ///
    ///   # async fn some_other_async_function() {}
    ///   async fn my_async_function() {
    ///       let some_value = some_other_async_function()
    ///          .instrument(debug_span!("some_other_async_function"))
    ///          .await;
    ///
    ///       // ...
    ///   }
    ///   ```
    ///
    /// * The [`#[instrument]` attribute macro][attr] can automatically generate
    ///   correct code when used on an async function:
    ///
    ///   ```ignore
    ///   # async fn some_other_async_function() {}
    ///   #[tracing::instrument(level = "info")]
    ///   async fn my_async_function() {
    ///
    ///       // This is correct! If we yield here, the span will be exited,
    ///       // and re-entered when we resume.
    ///       some_other_async_function().await;
    ///
    ///       // ...
    ///
    ///   }
    ///   ```
    ///
    /// [syntax]: https://rust-lang.github.io/async-book/01_getting_started/04_async_await_primer.html
    /// [`Span::in_scope`]: Span::in_scope()
    /// [instrument]: crate::Instrument
    /// [attr]: macro@crate::instrument
    ///
    /// # Examples
    ///
    /// ```
    /// # use tracing::{span, Level};
    /// let span = span!(Level::INFO, "my_span");
    /// let guard = span.enter();
    ///
    /// // code here is within the span
    ///
    /// drop(guard);
    ///
    /// // code here is no longer within the span
    ///
    /// ```
    ///
    /// Guards need not be explicitly dropped:
    ///
    /// ```
    /// # use tracing::trace_span;
    /// fn my_function() -> String {
    ///     // enter a span for the duration of this function.
    ///     let span = trace_span!("my_function");
    ///     let _enter = span.enter();
    ///
    ///     // anything happening in functions we call is still inside the span...
    ///     my_other_function();
    ///
    ///     // returning from the function drops the guard, exiting the span.
    ///     return "Hello world".to_owned();
    /// }
    ///
    /// fn my_other_function() {
    ///     // ...
    /// }
    /// ```
    ///
    /// Sub-scopes may be created to limit the duration for which the span is
    /// entered:
    ///
    /// ```
    /// # use tracing::{info, info_span};
    /// let span = info_span!("my_great_span");
    ///
    /// {
    ///     let _enter = span.enter();
    ///
    ///     // this event occurs inside the span.
    ///     info!("i'm in the span!");
    ///
    ///     // exiting the scope drops the guard, exiting the span.
    /// }
    ///
    /// // this event is not inside the span.
    /// info!("i'm outside the span!")
    /// ```
    ///
    /// [`Subscriber::enter`]: super::subscriber::Subscriber::enter()
    /// [`Subscriber::exit`]: super::subscriber::Subscriber::exit()
    /// [`Id`]: super::Id
    #[inline(always)]
    pub fn enter(&self) -> Entered<'_> {
        self.do_enter();
        Entered { span: self }
    }

    /// Enters this span, consuming it and returning a [guard][`EnteredSpan`]
    /// that will exit the span when dropped.
    ///
    /// <pre class="compile_fail" style="white-space:normal;font:inherit;">
    ///     <strong>Warning</strong>: In asynchronous code that uses async/await syntax,
    ///     <code>Span::entered</code> may produce incorrect traces if the returned drop
    ///     guard is held across an await point. See <a href="#in-asynchronous-code">the
    ///     <code>Span::enter</code> documentation</a> for details.
    /// </pre>
    ///
    ///
    /// If this span is enabled by the current subscriber, then this function will
    /// call [`Subscriber::enter`] with the span's [`Id`], and dropping the guard
    /// will call [`Subscriber::exit`]. If the span is disabled, this does
    /// nothing.
    ///
    /// This is similar to the [`Span::enter`] method, except that it moves the
    /// span by value into the returned guard, rather than borrowing it.
    /// Therefore, this method can be used to create and enter a span in a
    /// single expression, without requiring a `let`-binding. For example:
    ///
    /// ```
    /// # use tracing::info_span;
    /// let _span = info_span!("something_interesting").entered();
    /// ```
    /// rather than:
    /// ```
    /// # use tracing::info_span;
    /// let span = info_span!("something_interesting");
    /// let _e = span.enter();
    /// ```
    ///
    /// Furthermore, `entered` may be used when the span must be stored in some
    /// other struct or be passed to a function while remaining entered.
    ///
    /// <pre class="ignore" style="white-space:normal;font:inherit;">
    ///     <strong>Note</strong>: The returned <a href="../struct.EnteredSpan.html">
    ///     <code>EnteredSpan</code></a> guard does not implement <code>Send</code>.
    ///     Dropping the guard will exit <em>this</em> span, and if the guard is sent
    ///     to another thread and dropped there, that thread may never have entered
    ///     this span. Thus, <code>EnteredSpan</code>s should not be sent between threads.
    /// </pre>
    ///
    /// [syntax]: https://rust-lang.github.io/async-book/01_getting_started/04_async_await_primer.html
    ///
    /// # Examples
    ///
    /// The returned guard can be [explicitly exited][EnteredSpan::exit],
    /// returning the un-entered span:
    ///
    /// ```
    /// # use tracing::{Level, span};
    /// let span = span!(Level::INFO, "doing_something").entered();
    ///
    /// // code here is within the span
    ///
    /// // explicitly exit the span, returning it
    /// let span = span.exit();
    ///
    /// // code here is no longer within the span
    ///
    /// // enter the span again
    /// let span = span.entered();
    ///
    /// // now we are inside the span once again
    /// ```
    ///
    /// Guards need not be explicitly dropped:
    ///
    /// ```
    /// # use tracing::trace_span;
    /// fn my_function() -> String {
    ///     // enter a span for the duration of this function.
    ///     let span = trace_span!("my_function").entered();
    ///
    ///     // anything happening in functions we call is still inside the span...
    ///     my_other_function();
    ///
    ///     // returning from the function drops the guard, exiting the span.
    ///     return "Hello world".to_owned();
    /// }
    ///
    /// fn my_other_function() {
    ///     // ...
    /// }
    /// ```
    ///
    /// Since the [`EnteredSpan`] guard can dereference to the [`Span`] itself,
    /// the span may still be accessed while entered. For example:
    ///
    /// ```rust
    /// # use tracing::info_span;
    /// use tracing::field;
    ///
    /// // create the span with an empty field, and enter it.
    /// let span = info_span!("my_span", some_field = field::Empty).entered();
    ///
    /// // we can still record a value for the field while the span is entered.
    /// span.record("some_field", &"hello world!");
    /// ```
    ///

    /// [`Subscriber::enter`]: super::subscriber::Subscriber::enter()
    /// [`Subscriber::exit`]: super::subscriber::Subscriber::exit()
    /// [`Id`]: super::Id
    #[inline(always)]
    pub fn entered(self) -> EnteredSpan {
        self.do_enter();
        EnteredSpan {
            span: self,
            _not_send: PhantomNotSend,
        }
    }

    /// Returns this span, if it was [enabled] by the current [`Subscriber`], or
    /// the [current span] (whose lexical distance may be further than expected),
    ///  if this span [is disabled].
    ///
    /// This method can be useful when propagating spans to spawned threads or
    /// [async tasks]. Consider the following:
    ///
    /// ```
    /// let _parent_span = tracing::info_span!("parent").entered();
    ///
    /// // ...
    ///
    /// let child_span = tracing::debug_span!("child");
    ///
    /// std::thread::spawn(move || {
    ///     let _entered = child_span.entered();
    ///
    ///     tracing::info!("spawned a thread!");
    ///
    ///     // ...
    /// });
    /// ```
    ///
    /// If the current [`Subscriber`] enables the [`DEBUG`] level, then both
    /// the "parent" and "child" spans will be enabled. Thus, when the "spawaned
    /// a thread!" event occurs, it will be inside of the "child" span. Because
    /// "parent" is the parent of "child", the event will _also_ be inside of
    /// "parent".
    ///
    /// However, if the [`Subscriber`] only enables the [`INFO`] level, the "child"
    /// span will be disabled. When the thread is spawned, the
    /// `child_span.entered()` call will do nothing, since "child" is not
    /// enabled. In this case, the "spawned a thread!" event occurs outside of
    /// *any* span, since the "child" span was responsible for propagating its
    /// parent to the spawned thread.
    ///
    /// If this is not the desired behavior, `Span::or_current` can be used to
    /// ensure that the "parent" span is propagated in both cases, either as a
    /// parent of "child" _or_ directly. For example:
    ///
    /// ```
    /// let _parent_span = tracing::info_span!("parent").entered();
    ///
    /// // ...
    ///
    /// // If DEBUG is enabled, then "child" will be enabled, and `or_current`
    /// // returns "child". Otherwise, if DEBUG is not enabled, "child" will be
    /// // disabled, and `or_current` returns "parent".
    /// let child_span = tracing::debug_span!("child").or_current();
    ///
    /// std::thread::spawn(move || {
    ///     let _entered = child_span.entered();
    ///
    ///     tracing::info!("spawned a thread!");
    ///
    ///     // ...
    /// });
    /// ```
    ///
    /// When spawning [asynchronous tasks][async tasks], `Span::or_current` can
    /// be used similarly, in combination with [`instrument`]:
    ///
    /// ```
    /// use tracing::Instrument;
    /// # // lol
    /// # mod tokio {
    /// #     pub(super) fn spawn(_: impl std::future::Future) {}
    /// # }
    ///
    /// let _parent_span = tracing::info_span!("parent").entered();
    ///
    /// // ...
    ///
    /// let child_span = tracing::debug_span!("child");
    ///
    /// tokio::spawn(
    ///     async {
    ///         tracing::info!("spawned a task!");
    ///
    ///         // ...
    ///
    ///     }.instrument(child_span.or_current())
    /// );
    /// ```
    ///
    /// In general, `or_current` should be preferred over nesting an
    /// [`instrument`]  call inside of an [`in_current_span`] call, as using
    /// `or_current` will be more efficient.
    ///
    /// ```
    /// use tracing::Instrument;
    /// # // lol
    /// # mod tokio {
    /// #     pub(super) fn spawn(_: impl std::future::Future) {}
    /// # }
    /// async fn my_async_fn() {
    ///     // ...
    /// }
    ///
    /// let _parent_span = tracing::info_span!("parent").entered();
    ///
    /// // Do this:
    /// tokio::spawn(
    ///     my_async_fn().instrument(tracing::debug_span!("child").or_current())
    /// );
    ///
    /// // ...rather than this:
    /// tokio::spawn(
    ///     my_async_fn()
    ///         .instrument(tracing::debug_span!("child"))
    ///         .in_current_span()
    /// );
    /// ```
    ///
    /// [enabled]: crate::Subscriber::enabled
    /// [`Subscriber`]: crate::Subscriber
    /// [current span]: Span::current
    /// [is disabled]: Span::is_disabled
    /// [`INFO`]: crate::Level::INFO
    /// [`DEBUG`]: crate::Level::DEBUG
    /// [async tasks]: std::task
    /// [`instrument`]: crate::instrument::Instrument::instrument
    /// [`in_current_span`]: crate::instrument::Instrument::in_current_span
    pub fn or_current(self) -> Self {
        if self.is_disabled() {
            return Self::current();
        }
        self
    }

    #[inline(always)]
    fn do_enter(&self) {
        if let Some(inner) = self.inner.as_ref() {
            inner.subscriber.enter(&inner.id);
        }

        if_log_enabled! { crate::Level::TRACE, {
            if let Some(_meta) = self.meta {
                self.log(ACTIVITY_LOG_TARGET, log::Level::Trace, format_args!("-> {};", _meta.name()));
            }
        }}
    }

    // Called from [`Entered`] and [`EnteredSpan`] drops.
    //
    // Running this behaviour on drop rather than with an explicit function
    // call means that spans may still be exited when unwinding.
    #[inline(always)]
    fn do_exit(&self) {
        if let Some(inner) = self.inner.as_ref() {
            inner.subscriber.exit(&inner.id);
        }

        if_log_enabled! { crate::Level::TRACE, {
            if let Some(_meta) = self.meta {
                self.log(ACTIVITY_LOG_TARGET, log::Level::Trace, format_args!("<- {};", _meta.name()));
            }
        }}
    }

    /// Executes the given function in the context of this span.
    ///
    /// If this span is enabled, then this function enters the span, invokes `f`
    /// and then exits the span. If the span is disabled, `f` will still be
    /// invoked, but in the context of the currently-executing span (if there is
    /// one).
    ///
    /// Returns the result of evaluating `f`.
    ///
    /// # Examples
    ///
    /// ```
    /// # use tracing::{trace, span, Level};
    /// let my_span = span!(Level::TRACE, "my_span");
    ///
    /// my_span.in_scope(|| {
    ///     // this event occurs within the span.
    ///     trace!("i'm in the span!");
    /// });
    ///
    /// // this event occurs outside the span.
    /// trace!("i'm not in the span!");
    /// ```
    ///
    /// Calling a function and returning the result:
    /// ```
    /// # use tracing::{info_span, Level};
    /// fn hello_world() -> String {
    ///     "Hello world!".to_owned()
    /// }
    ///
    /// let span = info_span!("hello_world");
    /// // the span will be entered for the duration of the call to
    /// // `hello_world`.
    /// let a_string = span.in_scope(hello_world);
    ///
    pub fn in_scope<F: FnOnce() -> T, T>(&self, f: F) -> T {
        let _enter = self.enter();
        f()
    }

    /// Returns a [`Field`][super::field::Field] for the field with the
    /// given `name`, if one exists,
    pub fn field<Q: field::AsField + ?Sized>(&self, field: &Q) -> Option<field::Field> {
        self.metadata().and_then(|meta| field.as_field(meta))
    }

    /// Returns true if this `Span` has a field for the given
    /// [`Field`][super::field::Field] or field name.
    #[inline]
    pub fn has_field<Q: field::AsField + ?Sized>(&self, field: &Q) -> bool {
        self.field(field).is_some()
    }

    /// Records that the field described by `field` has the value `value`.
    ///
    /// This may be used with [`field::Empty`] to declare fields whose values
    /// are not known when the span is created, and record them later:
    /// ```
    /// use tracing::{trace_span, field};
    ///
    /// // Create a span with two fields: `greeting`, with the value "hello world", and
    /// // `parting`, without a value.
    /// let span = trace_span!("my_span", greeting = "hello world", parting = field::Empty);
    ///
    /// // ...
    ///
    /// // Now, record a value for parting as well.
    /// // (note that the field name is passed as a string slice)
    /// span.record("parting", "goodbye world!");
    /// ```
    /// However, it may also be used to record a _new_ value for a field whose
    /// value was already recorded:
    /// ```
    /// use tracing::info_span;
    /// # fn do_something() -> Result<(), ()> { Err(()) }
    ///
    /// // Initially, let's assume that our attempt to do something is going okay...
    /// let span = info_span!("doing_something", is_okay = true);
    /// let _e = span.enter();
    ///
    /// match do_something() {
    ///     Ok(something) => {
    ///         // ...
    ///     }
    ///     Err(_) => {
    ///         // Things are no longer okay!
    ///         span.record("is_okay", false);
    ///     }
    /// }
    /// ```
    ///
    /// <pre class="ignore" style="white-space:normal;font:inherit;">
    ///     <strong>Note</strong>: The fields associated with a span are part
    ///     of its <a href="../struct.Metadata.html"><code>Metadata</code></a>.
    ///     The <a href="../struct.Metadata.html"><code>Metadata</code></a>
    ///     describing a particular span is constructed statically when the span
    ///     is created and cannot be extended later to add new fields. Therefore,
    ///     you cannot record a value for a field that was not specified when the
    ///     span was created:
    /// </pre>
    ///
    /// ```
    /// use tracing::{trace_span, field};
    ///
    /// // Create a span with two fields: `greeting`, with the value "hello world", and
    /// // `parting`, without a value.
    /// let span = trace_span!("my_span", greeting = "hello world", parting = field::Empty);
    ///
    /// // ...
    ///
    /// // Now, you try to record a value for a new field, `new_field`, which was not
    /// // declared as `Empty` or populated when you created `span`.
    /// // You won't get any error, but the assignment will have no effect!
    /// span.record("new_field", "interesting_value_you_really_need");
    ///
    /// // Instead, all fields that may be recorded after span creation should be declared up front,
    /// // using field::Empty when a value is not known, as we did for `parting`.
    /// // This `record` call will indeed replace field::Empty with "you will be remembered".
    /// span.record("parting", "you will be remembered");
    /// ```
    ///
    /// [`field::Empty`]: super::field::Empty
    /// [`Metadata`]: super::Metadata
    pub fn record<Q: field::AsField + ?Sized, V: field::Value>(
        &self,
        field: &Q,
        value: V,
    ) -> &Self {
        if let Some(meta) = self.meta {
            if let Some(field) = field.as_field(meta) {
                self.record_all(
                    &meta
                        .fields()
                        .value_set(&[(&field, Some(&value as &dyn field::Value))]),
                );
            }
        }

        self
    }

    /// Records all the fields in the provided `ValueSet`.
    pub fn record_all(&self, values: &field::ValueSet<'_>) -> &Self {
        let record = Record::new(values);
        if let Some(ref inner) = self.inner {
            inner.record(&record);
        }

        if let Some(_meta) = self.meta {
            if_log_enabled! { *_meta.level(), {
                let target = if record.is_empty() {
                    LIFECYCLE_LOG_TARGET
                } else {
                    _meta.target()
                };
                self.log(
                    target,
                    level_to_log!(*_meta.level()),
                    format_args!("{};{}", _meta.name(), crate::log::LogValueSet { values, is_first: false }),
                );
            }}
        }

        self
    }

    /// Returns `true` if this span was disabled by the subscriber and does not
    /// exist.
    ///
    /// See also [`is_none`].
    ///
    /// [`is_none`]: Span::is_none()
    #[inline]
    pub fn is_disabled(&self) -> bool {
        self.inner.is_none()
    }

    /// Returns `true` if this span was constructed by [`Span::none`] and is
    /// empty.
    ///
    /// If `is_none` returns `true` for a given span, then [`is_disabled`] will
    /// also return `true`. However, when a span is disabled by the subscriber
    /// rather than constructed by `Span::none`, this method will return
    /// `false`, while `is_disabled` will return `true`.
    ///
    /// [`Span::none`]: Span::none()
    /// [`is_disabled`]: Span::is_disabled()
    #[inline]
    pub fn is_none(&self) -> bool {
        self.is_disabled() && self.meta.is_none()
    }

    /// Indicates that the span with the given ID has an indirect causal
    /// relationship with this span.
    ///
    /// This relationship differs somewhat from the parent-child relationship: a
    /// span may have any number of prior spans, rather than a single one; and
    /// spans are not considered to be executing _inside_ of the spans they
    /// follow from. This means that a span may close even if subsequent spans
    /// that follow from it are still open, and time spent inside of a
    /// subsequent span should not be included in the time its precedents were
    /// executing. This is used to model causal relationships such as when a
    /// single future spawns several related background tasks, et cetera.
    ///
    /// If this span is disabled, or the resulting follows-from relationship
    /// would be invalid, this function will do nothing.
    ///
    /// # Examples
    ///
    /// Setting a `follows_from` relationship with a `Span`:
    /// ```
    /// # use tracing::{span, Id, Level, Span};
    /// let span1 = span!(Level::INFO, "span_1");
    /// let span2 = span!(Level::DEBUG, "span_2");
    /// span2.follows_from(span1);
    /// ```
    ///
    /// Setting a `follows_from` relationship with the current span:
    /// ```
    /// # use tracing::{span, Id, Level, Span};
    /// let span = span!(Level::INFO, "hello!");
    /// span.follows_from(Span::current());
    /// ```
    ///
    /// Setting a `follows_from` relationship with a `Span` reference:
    /// ```
    /// # use tracing::{span, Id, Level, Span};
    /// let span = span!(Level::INFO, "hello!");
    /// let curr = Span::current();
    /// span.follows_from(&curr);
    /// ```
    ///
    /// Setting a `follows_from` relationship with an `Id`:
    /// ```
    /// # use tracing::{span, Id, Level, Span};
    /// let span = span!(Level::INFO, "hello!");
    /// let id = span.id();
    /// span.follows_from(id);
    /// ```
    pub fn follows_from(&self, from: impl Into<Option<Id>>) -> &Self {
        if let Some(ref inner) = self.inner {
            if let Some(from) = from.into() {
                inner.follows_from(&from);
            }
        }
        self
    }

    /// Returns this span's `Id`, if it is enabled.
    pub fn id(&self) -> Option<Id> {
        self.inner.as_ref().map(Inner::id)
    }

    /// Returns this span's `Metadata`, if it is enabled.
    pub fn metadata(&self) -> Option<&'static Metadata<'static>> {
        self.meta
    }

    #[cfg(feature = "log")]
    #[inline]
    fn log(&self, target: &str, level: log::Level, message: fmt::Arguments<'_>) {
        if let Some(meta) = self.meta {
            if level_to_log!(*meta.level()) <= log::max_level() {
                let logger = log::logger();
                let log_meta = log::Metadata::builder().level(level).target(target).build();
                if logger.enabled(&log_meta) {
                    if let Some(ref inner) = self.inner {
                        logger.log(
                            &log::Record::builder()
                                .metadata(log_meta)
                                .module_path(meta.module_path())
                                .file(meta.file())
                                .line(meta.line())
                                .args(format_args!("{} span={}", message, inner.id.into_u64()))
                                .build(),
                        );
                    } else {
                        logger.log(
                            &log::Record::builder()
                                .metadata(log_meta)
                                .module_path(meta.module_path())
                                .file(meta.file())
                                .line(meta.line())
                                .args(message)
                                .build(),
                        );
                    }
                }
            }
        }
    }

    /// Invokes a function with a reference to this span's ID and subscriber.
    ///
    /// if this span is enabled, the provided function is called, and the result is returned.
    /// If the span is disabled, the function is not called, and this method returns `None`
    /// instead.
    pub fn with_subscriber<T>(&self, f: impl FnOnce((&Id, &Dispatch)) -> T) -> Option<T> {
        self.inner
            .as_ref()
            .map(|inner| f((&inner.id, &inner.subscriber)))
    }
}

impl cmp::PartialEq for Span {
    fn eq(&self, other: &Self) -> bool {
        match (&self.meta, &other.meta) {
            (Some(this), Some(that)) => {
                this.callsite() == that.callsite() && self.inner == other.inner
            }
            _ => false,
        }
    }
}

impl Hash for Span {
    fn hash<H: Hasher>(&self, hasher: &mut H) {
        self.inner.hash(hasher);
    }
}

impl fmt::Debug for Span {
    fn fmt(&self, f: &mut fmt::Formatter<'_>) -> fmt::Result {
        let mut span = f.debug_struct("Span");
        if let Some(meta) = self.meta {
            span.field("name", &meta.name())
                .field("level", &meta.level())
                .field("target", &meta.target());

            if let Some(ref inner) = self.inner {
                span.field("id", &inner.id());
            } else {
                span.field("disabled", &true);
            }

            if let Some(ref path) = meta.module_path() {
                span.field("module_path", &path);
            }

            if let Some(ref line) = meta.line() {
                span.field("line", &line);
            }

            if let Some(ref file) = meta.file() {
                span.field("file", &file);
            }
        } else {
            span.field("none", &true);
        }

        span.finish()
    }
}

impl<'a> From<&'a Span> for Option<&'a Id> {
    fn from(span: &'a Span) -> Self {
        span.inner.as_ref().map(|inner| &inner.id)
    }
}

impl<'a> From<&'a Span> for Option<Id> {
    fn from(span: &'a Span) -> Self {
        span.inner.as_ref().map(Inner::id)
    }
}

impl From<Span> for Option<Id> {
    fn from(span: Span) -> Self {
        span.inner.as_ref().map(Inner::id)
    }
}

impl<'a> From<&'a EnteredSpan> for Option<&'a Id> {
    fn from(span: &'a EnteredSpan) -> Self {
        span.inner.as_ref().map(|inner| &inner.id)
    }
}

impl<'a> From<&'a EnteredSpan> for Option<Id> {
    fn from(span: &'a EnteredSpan) -> Self {
        span.inner.as_ref().map(Inner::id)
    }
}

impl Drop for Span {
    #[inline(always)]
    fn drop(&mut self) {
        if let Some(Inner {
            ref id,
            ref subscriber,
        }) = self.inner
        {
            subscriber.try_close(id.clone());
        }

        if_log_enabled! { crate::Level::TRACE, {
            if let Some(meta) = self.meta {
                self.log(
                    LIFECYCLE_LOG_TARGET,
                    log::Level::Trace,
                    format_args!("-- {};", meta.name()),
                );
            }
        }}
    }
}

// ===== impl Inner =====

impl Inner {
    /// Indicates that the span with the given ID has an indirect causal
    /// relationship with this span.
    ///
    /// This relationship differs somewhat from the parent-child relationship: a
    /// span may have any number of prior spans, rather than a single one; and
    /// spans are not considered to be executing _inside_ of the spans they
    /// follow from. This means that a span may close even if subsequent spans
    /// that follow from it are still open, and time spent inside of a
    /// subsequent span should not be included in the time its precedents were
    /// executing. This is used to model causal relationships such as when a
    /// single future spawns several related background tasks, et cetera.
    ///
    /// If this span is disabled, this function will do nothing. Otherwise, it
    /// returns `Ok(())` if the other span was added as a precedent of this
    /// span, or an error if this was not possible.
    fn follows_from(&self, from: &Id) {
        self.subscriber.record_follows_from(&self.id, from)
    }

    /// Returns the span's ID.
    fn id(&self) -> Id {
        self.id.clone()
    }

    fn record(&self, values: &Record<'_>) {
        self.subscriber.record(&self.id, values)
    }

    fn new(id: Id, subscriber: &Dispatch) -> Self {
        Inner {
            id,
            subscriber: subscriber.clone(),
        }
    }
}

impl cmp::PartialEq for Inner {
    fn eq(&self, other: &Self) -> bool {
        self.id == other.id
    }
}

impl Hash for Inner {
    fn hash<H: Hasher>(&self, state: &mut H) {
        self.id.hash(state);
    }
}

impl Clone for Inner {
    fn clone(&self) -> Self {
        Inner {
            id: self.subscriber.clone_span(&self.id),
            subscriber: self.subscriber.clone(),
        }
    }
}

// ===== impl Entered =====

impl EnteredSpan {
    /// Returns this span's `Id`, if it is enabled.
    pub fn id(&self) -> Option<Id> {
        self.inner.as_ref().map(Inner::id)
    }

    /// Exits this span, returning the underlying [`Span`].
    #[inline]
    pub fn exit(mut self) -> Span {
        // One does not simply move out of a struct with `Drop`.
        let span = mem::replace(&mut self.span, Span::none());
        span.do_exit();
        span
    }
}

impl Deref for EnteredSpan {
    type Target = Span;

    #[inline]
    fn deref(&self) -> &Span {
        &self.span
    }
}

impl<'a> Drop for Entered<'a> {
    #[inline(always)]
    fn drop(&mut self) {
        self.span.do_exit()
    }
}

impl Drop for EnteredSpan {
    #[inline(always)]
    fn drop(&mut self) {
        self.span.do_exit()
    }
}

/// Technically, `EnteredSpan` _can_ implement both `Send` *and*
/// `Sync` safely. It doesn't, because it has a `PhantomNotSend` field,
/// specifically added in order to make it `!Send`.
///
/// Sending an `EnteredSpan` guard between threads cannot cause memory unsafety.
/// However, it *would* result in incorrect behavior, so we add a
/// `PhantomNotSend` to prevent it from being sent between threads. This is
/// because it must be *dropped* on the same thread that it was created;
/// otherwise, the span will never be exited on the thread where it was entered,
/// and it will attempt to exit the span on a thread that may never have entered
/// it. However, we still want them to be `Sync` so that a struct holding an
/// `Entered` guard can be `Sync`.
///
/// Thus, this is totally safe.
#[derive(Debug)]
struct PhantomNotSend {
    ghost: PhantomData<*mut ()>,
}

#[allow(non_upper_case_globals)]
const PhantomNotSend: PhantomNotSend = PhantomNotSend { ghost: PhantomData };

/// # Safety
///
/// Trivially safe, as `PhantomNotSend` doesn't have any API.
unsafe impl Sync for PhantomNotSend {}

#[cfg(test)]
mod test {
    use super::*;

    #[test]
    fn test_record_backwards_compat() {
        Span::current().record("some-key", "some text");
        Span::current().record("some-key", false);
    }
}
