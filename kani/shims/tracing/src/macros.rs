/// Constructs a new span.
///
/// See [the top-level documentation][lib] for details on the syntax accepted by
/// this macro.
///
/// [lib]: crate#using-the-macros
///
/// # Examples
///
/// Creating a new span:
/// ```
/// # use tracing::{span, Level};
/// # fn main() {
/// let span = span!(Level::TRACE, "my span");
/// let _enter = span.enter();
/// // do work inside the span...
/// # }
/// ```
#[cfg(kani)]
#[macro_export]
macro_rules! span {
    ($($t:tt)*) => { $crate::Span::none() };
}

#[cfg(not(kani))]
#[macro_export]
macro_rules! span {
    (target: $target:expr, parent: $parent:expr, $lvl:expr, $name:expr) => {
        $crate::span!(target: $target, parent: $parent, $lvl, $name,)
    };
    (target: $target:expr, parent: $parent:expr, $lvl:expr, $name:expr, $($fields:tt)*) => {
        {
            use $crate::__macro_support::Callsite as _;
            static __CALLSITE: $crate::__macro_support::MacroCallsite = $crate::callsite2! {
                name: $name,
                kind: $crate::metadata::Kind::SPAN,
                target: $target,
                level: $lvl,
                fields: $($fields)*
            };
            let mut interest = $crate::subscriber::Interest::never();
            if $crate::level_enabled!($lvl)
                && { interest = __CALLSITE.interest(); !interest.is_never() }
                && $crate::__macro_support::__is_enabled(__CALLSITE.metadata(), interest)
            {
                let meta = __CALLSITE.metadata();
                // span with explicit parent
                $crate::Span::child_of(
                    $parent,
                    meta,
                    &$crate::valueset!(meta.fields(), $($fields)*),
                )
            } else {
                let span = $crate::__macro_support::__disabled_span(__CALLSITE.metadata());
                $crate::if_log_enabled! { $lvl, {
                    span.record_all(&$crate::valueset!(__CALLSITE.metadata().fields(), $($fields)*));
                }};
                span
            }
        }
    };
    (target: $target:expr, $lvl:expr, $name:expr, $($fields:tt)*) => {
        {
            use $crate::__macro_support::Callsite as _;
            static __CALLSITE: $crate::callsite::DefaultCallsite = $crate::callsite2! {
                name: $name,
                kind: $crate::metadata::Kind::SPAN,
                target: $target,
                level: $lvl,
                fields: $($fields)*
            };
            let mut interest = $crate::subscriber::Interest::never();
            if $crate::level_enabled!($lvl)
                && { interest = __CALLSITE.interest(); !interest.is_never() }
                && $crate::__macro_support::__is_enabled(__CALLSITE.metadata(), interest)
            {
                let meta = __CALLSITE.metadata();
                // span with contextual parent
                $crate::Span::new(
                    meta,
                    &$crate::valueset!(meta.fields(), $($fields)*),
                )
            } else {
                let span = $crate::__macro_support::__disabled_span(__CALLSITE.metadata());
                $crate::if_log_enabled! { $lvl, {
                    span.record_all(&$crate::valueset!(__CALLSITE.metadata().fields(), $($fields)*));
                }};
                span
            }
        }
    };
    (target: $target:expr, parent: $parent:expr, $lvl:expr, $name:expr) => {
        $crate::span!(target: $target, parent: $parent, $lvl, $name,)
    };
    (parent: $parent:expr, $lvl:expr, $name:expr, $($fields:tt)*) => {
        $crate::span!(
            target: module_path!(),
            parent: $parent,
            $lvl,
            $name,
            $($fields)*
        )
    };
    (parent: $parent:expr, $lvl:expr, $name:expr) => {
        $crate::span!(
            target: module_path!(),
            parent: $parent,
            $lvl,
            $name,
        )
    };
    (target: $target:expr, $lvl:expr, $name:expr, $($fields:tt)*) => {
        $crate::span!(
            target: $target,
            $lvl,
            $name,
            $($fields)*
        )
    };
    (target: $target:expr, $lvl:expr, $name:expr) => {
        $crate::span!(target: $target, $lvl, $name,)
    };
    ($lvl:expr, $name:expr, $($fields:tt)*) => {
        $crate::span!(
            target: module_path!(),
            $lvl,
            $name,
            $($fields)*
        )
    };
    ($lvl:expr, $name:expr) => {
        $crate::span!(
            target: module_path!(),
            $lvl,
            $name,
        )
    };
}

/// Constructs a span at the trace level.
///
/// [Fields] and [attributes] are set using the same syntax as the [`span!`]
/// macro.
///
/// See [the top-level documentation][lib] for details on the syntax accepted by
/// this macro.
///
/// [lib]: crate#using-the-macros
/// [attributes]: crate#configuring-attributes
/// [Fields]: crate#recording-fields
/// [`span!`]: crate::span!
///
/// # Examples
///
/// ```rust
/// # use tracing::{trace_span, span, Level};
/// # fn main() {
/// trace_span!("my_span");
/// // is equivalent to:
/// span!(Level::TRACE, "my_span");
/// # }
/// ```
///
/// ```rust
/// # use tracing::{trace_span, span, Level};
/// # fn main() {
/// let span = trace_span!("my span");
/// span.in_scope(|| {
///     // do work inside the span...
/// });
/// # }
/// ```
#[macro_export]
macro_rules! trace_span {
    (target: $target:expr, parent: $parent:expr, $name:expr, $($field:tt)*) => {
        $crate::span!(
            target: $target,
            parent: $parent,
            $crate::Level::TRACE,
            $name,
            $($field)*
        )
    };
    (target: $target:expr, parent: $parent:expr, $name:expr) => {
        $crate::trace_span!(target: $target, parent: $parent, $name,)
    };
    (parent: $parent:expr, $name:expr, $($field:tt)*) => {
        $crate::span!(
            target: module_path!(),
            parent: $parent,
            $crate::Level::TRACE,
            $name,
            $($field)*
        )
    };
    (parent: $parent:expr, $name:expr) => {
        $crate::trace_span!(parent: $parent, $name,)
    };
    (target: $target:expr, $name:expr, $($field:tt)*) => {
        $crate::span!(
            target: $target,
            $crate::Level::TRACE,
            $name,
            $($field)*
        )
    };
    (target: $target:expr, $name:expr) => {
        $crate::trace_span!(target: $target, $name,)
    };
    ($name:expr, $($field:tt)*) => {
        $crate::span!(
            target: module_path!(),
            $crate::Level::TRACE,
            $name,
            $($field)*
        )
    };
    ($name:expr) => { $crate::trace_span!($name,) };
}

/// Constructs a span at the debug level.
///
/// [Fields] and [attributes] are set using the same syntax as the [`span!`]
/// macro.
///
/// See [the top-level documentation][lib] for details on the syntax accepted by
/// this macro.
///
/// [lib]: crate#using-the-macros
/// [attributes]: crate#configuring-attributes
/// [Fields]: crate#recording-fields
/// [`span!`]: crate::span!
///
/// # Examples
///
/// ```rust
/// # use tracing::{debug_span, span, Level};
/// # fn main() {
/// debug_span!("my_span");
/// // is equivalent to:
/// span!(Level::DEBUG, "my_span");
/// # }
/// ```
///
/// ```rust
/// # use tracing::debug_span;
/// # fn main() {
/// let span = debug_span!("my span");
/// span.in_scope(|| {
///     // do work inside the span...
/// });
/// # }
/// ```
#[macro_export]
macro_rules! debug_span {
    (target: $target:expr, parent: $parent:expr, $name:expr, $($field:tt)*) => {
        $crate::span!(
            target: $target,
            parent: $parent,
            $crate::Level::DEBUG,
            $name,
            $($field)*
        )
    };
    (target: $target:expr, parent: $parent:expr, $name:expr) => {
        $crate::debug_span!(target: $target, parent: $parent, $name,)
    };
    (parent: $parent:expr, $name:expr, $($field:tt)*) => {
        $crate::span!(
            target: module_path!(),
            parent: $parent,
            $crate::Level::DEBUG,
            $name,
            $($field)*
        )
    };
    (parent: $parent:expr, $name:expr) => {
        $crate::debug_span!(parent: $parent, $name,)
    };
    (target: $target:expr, $name:expr, $($field:tt)*) => {
        $crate::span!(
            target: $target,
            $crate::Level::DEBUG,
            $name,
            $($field)*
        )
    };
    (target: $target:expr, $name:expr) => {
        $crate::debug_span!(target: $target, $name,)
    };
    ($name:expr, $($field:tt)*) => {
        $crate::span!(
            target: module_path!(),
            $crate::Level::DEBUG,
            $name,
            $($field)*
        )
    };
    ($name:expr) => {$crate::debug_span!($name,)};
}

/// Constructs a span at the info level.
///
/// [Fields] and [attributes] are set using the same syntax as the [`span!`]
/// macro.
///
/// See [the top-level documentation][lib] for details on the syntax accepted by
/// this macro.
///
/// [lib]: crate#using-the-macros
/// [attributes]: crate#configuring-attributes
/// [Fields]: crate#recording-fields
/// [`span!`]: crate::span!
///
/// # Examples
///
/// ```rust
/// # use tracing::{span, info_span, Level};
/// # fn main() {
/// info_span!("my_span");
/// // is equivalent to:
/// span!(Level::INFO, "my_span");
/// # }
/// ```
///
/// ```rust
/// # use tracing::info_span;
/// # fn main() {
/// let span = info_span!("my span");
/// span.in_scope(|| {
///     // do work inside the span...
/// });
/// # }
/// ```
#[macro_export]
macro_rules! info_span {
    (target: $target:expr, parent: $parent:expr, $name:expr, $($field:tt)*) => {
        $crate::span!(
            target: $target,
            parent: $parent,
            $crate::Level::INFO,
            $name,
            $($field)*
        )
    };
    (target: $target:expr, parent: $parent:expr, $name:expr) => {
        $crate::info_span!(target: $target, parent: $parent, $name,)
    };
    (parent: $parent:expr, $name:expr, $($field:tt)*) => {
        $crate::span!(
            target: module_path!(),
            parent: $parent,
            $crate::Level::INFO,
            $name,
            $($field)*
        )
    };
    (parent: $parent:expr, $name:expr) => {
        $crate::info_span!(parent: $parent, $name,)
    };
    (target: $target:expr, $name:expr, $($field:tt)*) => {
        $crate::span!(
            target: $target,
            $crate::Level::INFO,
            $name,
            $($field)*
        )
    };
    (target: $target:expr, $name:expr) => {
        $crate::info_span!(target: $target, $name,)
    };
    ($name:expr, $($field:tt)*) => {
        $crate::span!(
            target: module_path!(),
            $crate::Level::INFO,
            $name,
            $($field)*
        )
    };
    ($name:expr) => {$crate::info_span!($name,)};
}

/// Constructs a span at the warn level.
///
/// [Fields] and [attributes] are set using the same syntax as the [`span!`]
/// macro.
///
/// See [the top-level documentation][lib] for details on the syntax accepted by
/// this macro.
///
/// [lib]: crate#using-the-macros
/// [attributes]: crate#configuring-attributes
/// [Fields]: crate#recording-fields
/// [`span!`]: crate::span!
///
/// # Examples
///
/// ```rust
/// # use tracing::{warn_span, span, Level};
/// # fn main() {
/// warn_span!("my_span");
/// // is equivalent to:
/// span!(Level::WARN, "my_span");
/// # }
/// ```
///
/// ```rust
/// use tracing::warn_span;
/// # fn main() {
/// let span = warn_span!("my span");
/// span.in_scope(|| {
///     // do work inside the span...
/// });
/// # }
/// ```
#[macro_export]
macro_rules! warn_span {
    (target: $target:expr, parent: $parent:expr, $name:expr, $($field:tt)*) => {
        $crate::span!(
            target: $target,
            parent: $parent,
            $crate::Level::WARN,
            $name,
            $($field)*
        )
    };
    (target: $target:expr, parent: $parent:expr, $name:expr) => {
        $crate::warn_span!(target: $target, parent: $parent, $name,)
    };
    (parent: $parent:expr, $name:expr, $($field:tt)*) => {
        $crate::span!(
            target: module_path!(),
            parent: $parent,
            $crate::Level::WARN,
            $name,
            $($field)*
        )
    };
    (parent: $parent:expr, $name:expr) => {
        $crate::warn_span!(parent: $parent, $name,)
    };
    (target: $target:expr, $name:expr, $($field:tt)*) => {
        $crate::span!(
            target: $target,
            $crate::Level::WARN,
            $name,
            $($field)*
        )
    };
    (target: $target:expr, $name:expr) => {
        $crate::warn_span!(target: $target, $name,)
    };
    ($name:expr, $($field:tt)*) => {
        $crate::span!(
            target: module_path!(),
            $crate::Level::WARN,
            $name,
            $($field)*
        )
    };
    ($name:expr) => {$crate::warn_span!($name,)};
}
/// Constructs a span at the error level.
///
/// [Fields] and [attributes] are set using the same syntax as the [`span!`]
/// macro.
///
/// See [the top-level documentation][lib] for details on the syntax accepted by
/// this macro.
///
/// [lib]: crate#using-the-macros
/// [attributes]: crate#configuring-attributes
/// [Fields]: crate#recording-fields
/// [`span!`]: crate::span!
///
/// # Examples
///
/// ```rust
/// # use tracing::{span, error_span, Level};
/// # fn main() {
/// error_span!("my_span");
/// // is equivalent to:
/// span!(Level::ERROR, "my_span");
/// # }
/// ```
///
/// ```rust
/// # use tracing::error_span;
/// # fn main() {
/// let span = error_span!("my span");
/// span.in_scope(|| {
///     // do work inside the span...
/// });
/// # }
/// ```
#[macro_export]
macro_rules! error_span {
    (target: $target:expr, parent: $parent:expr, $name:expr, $($field:tt)*) => {
        $crate::span!(
            target: $target,
            parent: $parent,
            $crate::Level::ERROR,
            $name,
            $($field)*
        )
    };
    (target: $target:expr, parent: $parent:expr, $name:expr) => {
        $crate::error_span!(target: $target, parent: $parent, $name,)
    };
    (parent: $parent:expr, $name:expr, $($field:tt)*) => {
        $crate::span!(
            target: module_path!(),
            parent: $parent,
            $crate::Level::ERROR,
            $name,
            $($field)*
        )
    };
    (parent: $parent:expr, $name:expr) => {
        $crate::error_span!(parent: $parent, $name,)
    };
    (target: $target:expr, $name:expr, $($field:tt)*) => {
        $crate::span!(
            target: $target,
            $crate::Level::ERROR,
            $name,
            $($field)*
        )
    };
    (target: $target:expr, $name:expr) => {
        $crate::error_span!(target: $target, $name,)
    };
    ($name:expr, $($field:tt)*) => {
        $crate::span!(
            target: module_path!(),
            $crate::Level::ERROR,
            $name,
            $($field)*
        )
    };
    ($name:expr) => {$crate::error_span!($name,)};
}

/// Constructs a new `Event`.
///
/// The event macro is invoked with a `Level` and up to 32 key-value fields.
/// Optionally, a format string and arguments may follow the fields; this will
/// be used to construct an implicit field named "message".
///
/// See [the top-level documentation][lib] for details on the syntax accepted by
/// this macro.
///
/// [lib]: crate#using-the-macros
///
/// # Examples
///
/// ```rust
/// use tracing::{event, Level};
///
/// # fn main() {
/// let data = (42, "forty-two");
/// let private_data = "private";
/// let error = "a bad error";
///
/// event!(Level::ERROR, %error, "Received error");
/// event!(
///     target: "app_events",
///     Level::WARN,
///     private_data,
///     ?data,
///     "App warning: {}",
///     error
/// );
/// event!(name: "answer", Level::INFO, the_answer = data.0);
/// event!(Level::INFO, the_answer = data.0);
/// # }
/// ```
///
// /// Note that *unlike `span!`*, `event!` requires a value for all fields. As
// /// events are recorded immediately when the macro is invoked, there is no
// /// opportunity for fields to be recorded later. A trailing comma on the final
// /// field is valid.
// ///
// /// For example, the following does not compile:
// /// ```rust,compile_fail
// /// # use tracing::{Level, event};
// /// # fn main() {
// /// event!(Level::INFO, foo = 5, bad_field, bar = "hello")
// /// #}
// /// ```
#[cfg(kani)]
#[macro_export]
macro_rules! event {
    ($($t:tt)*) => { {} };
}

#[cfg(not(kani))]
#[macro_export]
macro_rules! event {
    // Name / target / parent.
    (name: $name:expr, target: $target:expr, parent: $parent:expr, $lvl:expr, { $($fields:tt)* } )=> ({
        use $crate::__macro_support::Callsite as _;
        static __CALLSITE: $crate::__macro_support::MacroCallsite = $crate::callsite2! {
            name: $name,
            kind: $crate::metadata::Kind::EVENT,
            target: $target,
            level: $lvl,
            fields: $($fields)*
        };

        let enabled = $crate::level_enabled!($lvl) && {
            let interest = __CALLSITE.interest();
            !interest.is_never() && $crate::__macro_support::__is_enabled(__CALLSITE.metadata(), interest)
        };
        if enabled {
            (|value_set: $crate::field::ValueSet| {
                $crate::__tracing_log!(
                    $lvl,
                    __CALLSITE,
                    &value_set
                );
                let meta = __CALLSITE.metadata();
                // event with explicit parent
                $crate::Event::child_of(
                    $parent,
                    meta,
                    &value_set
                );
            })($crate::valueset!(__CALLSITE.metadata().fields(), $($fields)*));
        } else {
            $crate::__tracing_log!(
                $lvl,
                __CALLSITE,
                &$crate::valueset!(__CALLSITE.metadata().fields(), $($fields)*)
            );
        }
    });
    (name: $name:expr, target: $target:expr, parent: $parent:expr, $lvl:expr, { $($fields:tt)* }, $($arg:tt)+ ) => (
        $crate::event!(
            name: $name,
            target: $target,
            parent: $parent,
            $lvl,
            { message = $crate::__macro_support::format_args!($($arg)+), $($fields)* }
        )
    );
    (name: $name:expr, target: $target:expr, parent: $parent:expr, $lvl:expr, $($k:ident).+ = $($fields:tt)* ) => (
        $crate::event!(name: $name, target: $target, parent: $parent, $lvl, { $($k).+ = $($fields)* })
    );
    (name: $name:expr, target: $target:expr, parent: $parent:expr, $lvl:expr, $($arg:tt)+) => (
        $crate::event!(name: $name, target: $target, parent: $parent, $lvl, { $($arg)+ })
    );

    // Name / target.
    (name: $name:expr, target: $target:expr, $lvl:expr, { $($fields:tt)* } )=> ({
        use $crate::__macro_support::Callsite as _;
        static __CALLSITE: $crate::__macro_support::MacroCallsite = $crate::callsite2! {
            name: $name,
            kind: $crate::metadata::Kind::EVENT,
            target: $target,
            level: $lvl,
            fields: $($fields)*
        };
        let enabled = $crate::level_enabled!($lvl) && {
            let interest = __CALLSITE.interest();
            !interest.is_never() && $crate::__macro_support::__is_enabled(__CALLSITE.metadata(), interest)
        };
        if enabled {
            (|value_set: $crate::field::ValueSet| {
                let meta = __CALLSITE.metadata();
                // event with contextual parent
                $crate::Event::dispatch(
                    meta,
                    &value_set
                );
                $crate::__tracing_log!(
                    $lvl,
                    __CALLSITE,
                    &value_set
                );
            })($crate::valueset!(__CALLSITE.metadata().fields(), $($fields)*));
        } else {
            $crate::__tracing_log!(
                $lvl,
                __CALLSITE,
                &$crate::valueset!(__CALLSITE.metadata().fields(), $($fields)*)
            );
        }
    });
    (name: $name:expr, target: $target:expr, $lvl:expr, { $($fields:tt)* }, $($arg:tt)+ ) => (
        $crate::event!(
            name: $name,
            target: $target,
            $lvl,
            { message = $crate::__macro_support::format_args!($($arg)+), $($fields)* }
        )
    );
    (name: $name:expr, target: $target:expr, $lvl:expr, $($k:ident).+ = $($fields:tt)* ) => (
        $crate::event!(name: $name, target: $target, $lvl, { $($k).+ = $($fields)* })
    );
    (name: $name:expr, target: $target:expr, $lvl:expr, $($arg:tt)+) => (
        $crate::event!(name: $name, target: $target, $lvl, { $($arg)+ })
    );

    // Target / parent.
    (target: $target:expr, parent: $parent:expr, $lvl:expr, { $($fields:tt)* } )=> ({
        use $crate::__macro_support::Callsite as _;
        static __CALLSITE: $crate::callsite::DefaultCallsite = $crate::callsite2! {
            name: $crate::__macro_support::concat!(
                "event ",
                $crate::__macro_support::file!(),
                ":",
                $crate::__macro_support::line!()
            ),
            kind: $crate::metadata::Kind::EVENT,
            target: $target,
            level: $lvl,
            fields: $($fields)*
        };

        let enabled = $crate::level_enabled!($lvl) && {
            let interest = __CALLSITE.interest();
            !interest.is_never() && $crate::__macro_support::__is_enabled(__CALLSITE.metadata(), interest)
        };
        if enabled {
            (|value_set: $crate::field::ValueSet| {
                $crate::__tracing_log!(
                    $lvl,
                    __CALLSITE,
                    &value_set
                );
                let meta = __CALLSITE.metadata();
                // event with explicit parent
                $crate::Event::child_of(
                    $parent,
                    meta,
                    &value_set
                );
            })($crate::valueset!(__CALLSITE.metadata().fields(), $($fields)*));
        } else {
            $crate::__tracing_log!(
                $lvl,
                __CALLSITE,
                &$crate::valueset!(__CALLSITE.metadata().fields(), $($fields)*)
            );
        }
    });
    (target: $target:expr, parent: $parent:expr, $lvl:expr, { $($fields:tt)* }, $($arg:tt)+ ) => (
        $crate::event!(
            target: $target,
            parent: $parent,
            $lvl,
            { message = $crate::__macro_support::format_args!($($arg)+), $($fields)* }
        )
    );
    (target: $target:expr, parent: $parent:expr, $lvl:expr, $($k:ident).+ = $($fields:tt)* ) => (
        $crate::event!(target: $target, parent: $parent, $lvl, { $($k).+ = $($fields)* })
    );
    (target: $target:expr, parent: $parent:expr, $lvl:expr, $($arg:tt)+) => (
        $crate::event!(target: $target, parent: $parent, $lvl, { $($arg)+ })
    );

    // Name / parent.
    (name: $name:expr, parent: $parent:expr, $lvl:expr, { $($fields:tt)* } )=> ({
        use $crate::__macro_support::Callsite as _;
        static __CALLSITE: $crate::__macro_support::MacroCallsite = $crate::callsite2! {
            name: $name,
            kind: $crate::metadata::Kind::EVENT,
            target: module_path!(),
            level: $lvl,
            fields: $($fields)*
        };

        let enabled = $crate::level_enabled!($lvl) && {
            let interest = __CALLSITE.interest();
            !interest.is_never() && __CALLSITE.is_enabled(interest)
        };
        if enabled {
            (|value_set: $crate::field::ValueSet| {
                $crate::__tracing_log!(
                    $lvl,
                    __CALLSITE,
                    &value_set
                );
                let meta = __CALLSITE.metadata();
                // event with explicit parent
                $crate::Event::child_of(
                    $parent,
                    meta,
                    &value_set
                );
            })($crate::valueset!(__CALLSITE.metadata().fields(), $($fields)*));
        } else {
            $crate::__tracing_log!(
                $lvl,
                __CALLSITE,
                &$crate::valueset!(__CALLSITE.metadata().fields(), $($fields)*)
            );
        }
    });
    (name: $name:expr, parent: $parent:expr, $lvl:expr, { $($fields:tt)* }, $($arg:tt)+ ) => (
        $crate::event!(
            name: $name,
            parent: $parent,
            $lvl,
            { message = $crate::__macro_support::format_args!($($arg)+), $($fields)* }
        )
    );
    (name: $name:expr, parent: $parent:expr, $lvl:expr, $($k:ident).+ = $($fields:tt)* ) => (
        $crate::event!(name: $name, parent: $parent, $lvl, { $($k).+ = $($fields)* })
    );
    (name: $name:expr, parent: $parent:expr, $lvl:expr, $($arg:tt)+) => (
        $crate::event!(name: $name, parent: $parent, $lvl, { $($arg)+ })
    );

    // Name.
    (name: $name:expr, $lvl:expr, { $($fields:tt)* } )=> ({
        use $crate::__macro_support::Callsite as _;
        static __CALLSITE: $crate::__macro_support::MacroCallsite = $crate::callsite2! {
            name: $name,
            kind: $crate::metadata::Kind::EVENT,
            target: module_path!(),
            level: $lvl,
            fields: $($fields)*
        };
        let enabled = $crate::level_enabled!($lvl) && {
            let interest = __CALLSITE.interest();
            !interest.is_never() && $crate::__macro_support::__is_enabled(__CALLSITE.metadata(), interest)
        };
        if enabled {
            (|value_set: $crate::field::ValueSet| {
                let meta = __CALLSITE.metadata();
                // event with contextual parent
                $crate::Event::dispatch(
                    meta,
                    &value_set
                );
                $crate::__tracing_log!(
                    $lvl,
                    __CALLSITE,
                    &value_set
                );
            })($crate::valueset!(__CALLSITE.metadata().fields(), $($fields)*));
        } else {
            $crate::__tracing_log!(
                $lvl,
                __CALLSITE,
                &$crate::valueset!(__CALLSITE.metadata().fields(), $($fields)*)
            );
        }
    });
    (name: $name:expr, $lvl:expr, { $($fields:tt)* }, $($arg:tt)+ ) => (
        $crate::event!(
            name: $name,
            $lvl,
            { message = $crate::__macro_support::format_args!($($arg)+), $($fields)* }
        )
    );
    (name: $name:expr, $lvl:expr, $($k:ident).+ = $($fields:tt)* ) => (
        $crate::event!(name: $name, $lvl, { $($k).+ = $($fields)* })
    );
    (name: $name:expr, $lvl:expr, $($arg:tt)+ ) => (
        $crate::event!(name: $name, $lvl, { $($arg)+ })
    );

    // Target.
    (target: $target:expr, $lvl:expr, { $($fields:tt)* } )=> ({
        use $crate::__macro_support::Callsite as _;
        static __CALLSITE: $crate::callsite::DefaultCallsite = $crate::callsite2! {
            name: $crate::__macro_support::concat!(
                "event ",
                $crate::__macro_support::file!(),
                ":",
                $crate::__macro_support::line!()
            ),
            kind: $crate::metadata::Kind::EVENT,
            target: $target,
            level: $lvl,
            fields: $($fields)*
        };
        let enabled = $crate::level_enabled!($lvl) && {
            let interest = __CALLSITE.interest();
            !interest.is_never() && $crate::__macro_support::__is_enabled(__CALLSITE.metadata(), interest)
        };
        if enabled {
            (|value_set: $crate::field::ValueSet| {
                let meta = __CALLSITE.metadata();
                // event with contextual parent
                $crate::Event::dispatch(
                    meta,
                    &value_set
                );
                $crate::__tracing_log!(
                    $lvl,
                    __CALLSITE,
                    &value_set
                );
            })($crate::valueset!(__CALLSITE.metadata().fields(), $($fields)*));
        } else {
            $crate::__tracing_log!(
                $lvl,
                __CALLSITE,
                &$crate::valueset!(__CALLSITE.metadata().fields(), $($fields)*)
            );
        }
    });
    (target: $target:expr, $lvl:expr, { $($fields:tt)* }, $($arg:tt)+ ) => (
        $crate::event!(
            target: $target,
            $lvl,
            { message = $crate::__macro_support::format_args!($($arg)+), $($fields)* }
        )
    );
    (target: $target:expr, $lvl:expr, $($k:ident).+ = $($fields:tt)* ) => (
        $crate::event!(target: $target, $lvl, { $($k).+ = $($fields)* })
    );
    (target: $target:expr, $lvl:expr, $($arg:tt)+ ) => (
        $crate::event!(target: $target, $lvl, { $($arg)+ })
    );

    // Parent.
    (parent: $parent:expr, $lvl:expr, { $($fields:tt)* }, $($arg:tt)+ ) => (
        $crate::event!(
            target: module_path!(),
            parent: $parent,
            $lvl,
            { message = $crate::__macro_support::format_args!($($arg)+), $($fields)* }
        )
    );
    (parent: $parent:expr, $lvl:expr, $($k:ident).+ = $($field:tt)*) => (
        $crate::event!(
            target: module_path!(),
            parent: $parent,
            $lvl,
            { $($k).+ = $($field)*}
        )
    );
    (parent: $parent:expr, $lvl:expr, ?$($k:ident).+ = $($field:tt)*) => (
        $crate::event!(
            target: module_path!(),
            parent: $parent,
            $lvl,
            { ?$($k).+ = $($field)*}
        )
    );
    (parent: $parent:expr, $lvl:expr, %$($k:ident).+ = $($field:tt)*) => (
        $crate::event!(
            target: module_path!(),
            parent: $parent,
            $lvl,
            { %$($k).+ = $($field)*}
        )
    );
    (parent: $parent:expr, $lvl:expr, $($k:ident).+, $($field:tt)*) => (
        $crate::event!(
            target: module_path!(),
            parent: $parent,
            $lvl,
            { $($k).+, $($field)*}
        )
    );
    (parent: $parent:expr, $lvl:expr, %$($k:ident).+, $($field:tt)*) => (
        $crate::event!(
            target: module_path!(),
            parent: $parent,
            $lvl,
            { %$($k).+, $($field)*}
        )
    );
    (parent: $parent:expr, $lvl:expr, ?$($k:ident).+, $($field:tt)*) => (
        $crate::event!(
            target: module_path!(),
            parent: $parent,
            $lvl,
            { ?$($k).+, $($field)*}
        )
    );
    (parent: $parent:expr, $lvl:expr, $($arg:tt)+ ) => (
        $crate::event!(target: module_path!(), parent: $parent, $lvl, { $($arg)+ })
    );

    // ...
    ( $lvl:expr, { $($fields:tt)* }, $($arg:tt)+ ) => (
        $crate::event!(
            target: module_path!(),
            $lvl,
            { message = $crate::__macro_support::format_args!($($arg)+), $($fields)* }
        )
    );
    ( $lvl:expr, { $($fields:tt)* }, $($arg:tt)+ ) => (
        $crate::event!(
            target: module_path!(),
            $lvl,
            { message = format_args!($($arg)+), $($fields)* }
        )
    );
    ($lvl:expr, $($k:ident).+ = $($field:tt)*) => (
        $crate::event!(
            target: module_path!(),
            $lvl,
            { $($k).+ = $($field)*}
        )
    );
    ($lvl:expr, $($k:ident).+, $($field:tt)*) => (
        $crate::event!(
            target: module_path!(),
            $lvl,
            { $($k).+, $($field)*}
        )
    );
    ($lvl:expr, ?$($k:ident).+, $($field:tt)*) => (
        $crate::event!(
            target: module_path!(),
            $lvl,
            { ?$($k).+, $($field)*}
        )
    );
    ($lvl:expr, %$($k:ident).+, $($field:tt)*) => (
        $crate::event!(
            target: module_path!(),
            $lvl,
            { %$($k).+, $($field)*}
        )
    );
    ($lvl:expr, ?$($k:ident).+) => (
        $crate::event!($lvl, ?$($k).+,)
    );
    ($lvl:expr, %$($k:ident).+) => (
        $crate::event!($lvl, %$($k).+,)
    );
    ($lvl:expr, $($k:ident).+) => (
        $crate::event!($lvl, $($k).+,)
    );
    ( $lvl:expr, $($arg:tt)+ ) => (
        $crate::event!(target: module_path!(), $lvl, { $($arg)+ })
    );
}

/// Tests whether an event with the specified level and target would be enabled.
///
/// This is similar to [`enabled!`], but queries the current subscriber specifically for
/// an event, whereas [`enabled!`] queries for an event _or_ span.
///
/// See the documentation for [`enabled!]` for more details on using this macro.
/// See also [`span_enabled!`].
///
/// # Examples
///
/// ```rust
/// # use tracing::{event_enabled, Level};
/// if event_enabled!(target: "my_crate", Level::DEBUG) {
///     // some expensive work...
/// }
/// // simpler
/// if event_enabled!(Level::DEBUG) {
///     // some expensive work...
/// }
/// // with fields
/// if event_enabled!(Level::DEBUG, foo_field) {
///     // some expensive work...
/// }
/// ```
///
/// [`enabled!`]: crate::enabled
/// [`span_enabled!`]: crate::span_enabled
#[macro_export]
macro_rules! event_enabled {
    ($($rest:tt)*)=> (
        $crate::enabled!(kind: $crate::metadata::Kind::EVENT, $($rest)*)
    )
}

/// Tests whether a span with the specified level and target would be enabled.
///
/// This is similar to [`enabled!`], but queries the current subscriber specifically for
/// an event, whereas [`enabled!`] queries for an event _or_ span.
///
/// See the documentation for [`enabled!]` for more details on using this macro.
/// See also [`span_enabled!`].
///
/// # Examples
///
/// ```rust
/// # use tracing::{span_enabled, Level};
/// if span_enabled!(target: "my_crate", Level::DEBUG) {
///     // some expensive work...
/// }
/// // simpler
/// if span_enabled!(Level::DEBUG) {
///     // some expensive work...
/// }
/// // with fields
/// if span_enabled!(Level::DEBUG, foo_field) {
///     // some expensive work...
/// }
/// ```
///
/// [`enabled!`]: crate::enabled
/// [`span_enabled!`]: crate::span_enabled
#[macro_export]
macro_rules! span_enabled {
    ($($rest:tt)*)=> (
        $crate::enabled!(kind: $crate::metadata::Kind::SPAN, $($rest)*)
    )
}

/// Checks whether a span or event is [enabled] based on the provided [metadata].
///
/// [enabled]: crate::Subscriber::enabled
/// [metadata]: crate::Metadata
///
/// This macro is a specialized tool: it is intended to be used prior
/// to an expensive computation required *just* for that event, but
/// *cannot* be done as part of an argument to that event, such as
/// when multiple events are emitted (e.g., iterating over a collection
/// and emitting an event for each item).
///
/// # Usage
///
/// [Subscribers] can make filtering decisions based all the data included in a
/// span or event's [`Metadata`]. This means that it is possible for `enabled!`
/// to return a _false positive_ (indicating that something would be enabled
/// when it actually would not be) or a _false negative_ (indicating that
/// something would be disabled when it would actually be enabled).
///
/// [Subscribers]: crate::subscriber::Subscriber
/// [`Metadata`]: crate::metadata::Metadata
///
/// This occurs when a subscriber is using a _more specific_ filter than the
/// metadata provided to the `enabled!` macro. Some situations that can result
/// in false positives or false negatives include:
///
/// - If a subscriber is using a filter which may enable a span or event based
///   on field names, but `enabled!` is invoked without listing field names,
///   `enabled!` may return a false negative if a specific field name would
///   cause the subscriber to enable something that would otherwise be disabled.
/// - If a subscriber is using a filter which enables or disables specific events by
///   file path and line number,  a particular event may be enabled/disabled
///   even if an `enabled!` invocation with the same level, target, and fields
///   indicated otherwise.
/// - The subscriber can choose to enable _only_ spans or _only_ events, which `enabled`
///   will not reflect.
///
/// `enabled!()` requires a [level](crate::Level) argument, an optional `target:`
/// argument, and an optional set of field names. If the fields are not provided,
/// they are considered to be unknown. `enabled!` attempts to match the
/// syntax of `event!()` as closely as possible, which can be seen in the
/// examples below.
///
/// # Examples
///
/// If the current subscriber is interested in recording `DEBUG`-level spans and
/// events in the current file and module path, this will evaluate to true:
/// ```rust
/// use tracing::{enabled, Level};
///
/// if enabled!(Level::DEBUG) {
///     // some expensive work...
/// }
/// ```
///
/// If the current subscriber is interested in recording spans and events
/// in the current file and module path, with the target "my_crate", and at the
/// level  `DEBUG`, this will evaluate to true:
/// ```rust
/// # use tracing::{enabled, Level};
/// if enabled!(target: "my_crate", Level::DEBUG) {
///     // some expensive work...
/// }
/// ```
///
/// If the current subscriber is interested in recording spans and events
/// in the current file and module path, with the target "my_crate", at
/// the level `DEBUG`, and with a field named "hello", this will evaluate
/// to true:
///
/// ```rust
/// # use tracing::{enabled, Level};
/// if enabled!(target: "my_crate", Level::DEBUG, hello) {
///     // some expensive work...
/// }
/// ```
///
/// # Alternatives
///
/// `enabled!` queries subscribers with [`Metadata`] where
/// [`is_event`] and [`is_span`] both return `false`. Alternatively,
/// use [`event_enabled!`] or [`span_enabled!`] to ensure one of these
/// returns true.
///
///
/// [`Metadata`]: crate::Metadata
/// [`is_event`]: crate::Metadata::is_event
/// [`is_span`]: crate::Metadata::is_span
/// [`enabled!`]: crate::enabled
/// [`span_enabled!`]: crate::span_enabled
#[cfg(kani)]
#[macro_export]
macro_rules! enabled {
    ($($t:tt)*) => { { false } };
}

#[cfg(not(kani))]
#[macro_export]
macro_rules! enabled {
    (kind: $kind:expr, target: $target:expr, $lvl:expr, { $($fields:tt)* } )=> ({
        if $crate::level_enabled!($lvl) {
            use $crate::__macro_support::Callsite as _;
            static __CALLSITE: $crate::callsite::DefaultCallsite = $crate::callsite2! {
                name: $crate::__macro_support::concat!(
                    "enabled ",
                    $crate::__macro_support::file!(),
                    ":",
                    $crate::__macro_support::line!()
                ),
                kind: $kind.hint(),
                target: $target,
                level: $lvl,
                fields: $($fields)*
            };
            let interest = __CALLSITE.interest();
            if !interest.is_never() && $crate::__macro_support::__is_enabled(__CALLSITE.metadata(), interest) {
                let meta = __CALLSITE.metadata();
                $crate::dispatcher::get_default(|current| current.enabled(meta))
            } else {
                false
            }
        } else {
            false
        }
    });
    // Just target and level
    (kind: $kind:expr, target: $target:expr, $lvl:expr ) => (
        $crate::enabled!(kind: $kind, target: $target, $lvl, { })
    );
    (target: $target:expr, $lvl:expr ) => (
        $crate::enabled!(kind: $crate::metadata::Kind::HINT, target: $target, $lvl, { })
    );

    // These four cases handle fields with no values
    (kind: $kind:expr, target: $target:expr, $lvl:expr, $($field:tt)*) => (
        $crate::enabled!(
            kind: $kind,
            target: $target,
            $lvl,
            { $($field)*}
        )
    );
    (target: $target:expr, $lvl:expr, $($field:tt)*) => (
        $crate::enabled!(
            kind: $crate::metadata::Kind::HINT,
            target: $target,
            $lvl,
            { $($field)*}
        )
    );

    // Level and field case
    (kind: $kind:expr, $lvl:expr, $($field:tt)*) => (
        $crate::enabled!(
            kind: $kind,
            target: module_path!(),
            $lvl,
            { $($field)*}
        )
    );

    // Simplest `enabled!` case
    (kind: $kind:expr, $lvl:expr) => (
        $crate::enabled!(kind: $kind, target: module_path!(), $lvl, { })
    );
    ($lvl:expr) => (
        $crate::enabled!(kind: $crate::metadata::Kind::HINT, target: module_path!(), $lvl, { })
    );

    // Fallthrough from above
    ($lvl:expr, $($field:tt)*) => (
        $crate::enabled!(
            kind: $crate::metadata::Kind::HINT,
            target: module_path!(),
            $lvl,
            { $($field)*}
        )
    );
}

/// Constructs an event at the trace level.
///
/// This functions similarly to the [`event!`] macro. See [the top-level
/// documentation][lib] for details on the syntax accepted by
/// this macro.
///
/// [`event!`]: crate::event!
/// [lib]: crate#using-the-macros
///
/// # Examples
///
/// ```rust
/// use tracing::trace;
/// # #[derive(Debug, Copy, Clone)] struct Position { x: f32, y: f32 }
/// # impl Position {
/// # const ORIGIN: Self = Self { x: 0.0, y: 0.0 };
/// # fn dist(&self, other: Position) -> f32 {
/// #    let x = (other.x - self.x).exp2(); let y = (self.y - other.y).exp2();
/// #    (x + y).sqrt()
/// # }
/// # }
/// # fn main() {
/// let pos = Position { x: 3.234, y: -1.223 };
/// let origin_dist = pos.dist(Position::ORIGIN);
///
/// trace!(position = ?pos, ?origin_dist);
/// trace!(
///     target: "app_events",
///     position = ?pos,
///     "x is {} and y is {}",
///     if pos.x >= 0.0 { "positive" } else { "negative" },
///     if pos.y >= 0.0 { "positive" } else { "negative" }
/// );
/// trace!(name: "completed", position = ?pos);
/// # }
/// ```
#[macro_export]
macro_rules! trace {
    // Name / target / parent.
    (name: $name:expr, target: $target:expr, parent: $parent:expr, { $($field:tt)* }, $($arg:tt)* ) => (
        $crate::event!(name: $name, target: $target, parent: $parent, $crate::Level::TRACE, { $($field)* }, $($arg)*)
    );
    (name: $name:expr, target: $target:expr, parent: $parent:expr, $($k:ident).+ $($field:tt)* ) => (
        $crate::event!(name: $name, target: $target, parent: $parent, $crate::Level::TRACE, { $($k).+ $($field)* })
    );
    (name: $name:expr, target: $target:expr, parent: $parent:expr, ?$($k:ident).+ $($field:tt)* ) => (
        $crate::event!(name: $name, target: $target, parent: $parent, $crate::Level::TRACE, { ?$($k).+ $($field)* })
    );
    (name: $name:expr, target: $target:expr, parent: $parent:expr, %$($k:ident).+ $($field:tt)* ) => (
        $crate::event!(name: $name, target: $target, parent: $parent, $crate::Level::TRACE, { %$($k).+ $($field)* })
    );
    (name: $name:expr, target: $target:expr, parent: $parent:expr, $($arg:tt)+ ) => (
        $crate::event!(name: $name, target: $target, parent: $parent, $crate::Level::TRACE, {}, $($arg)+)
    );

    // Name / target.
    (name: $name:expr, target: $target:expr, { $($field:tt)* }, $($arg:tt)* ) => (
        $crate::event!(name: $name, target: $target, $crate::Level::TRACE, { $($field)* }, $($arg)*)
    );
    (name: $name:expr, target: $target:expr, $($k:ident).+ $($field:tt)* ) => (
        $crate::event!(name: $name, target: $target, $crate::Level::TRACE, { $($k).+ $($field)* })
    );
    (name: $name:expr, target: $target:expr, ?$($k:ident).+ $($field:tt)* ) => (
        $crate::event!(name: $name, target: $target, $crate::Level::TRACE, { ?$($k).+ $($field)* })
    );
    (name: $name:expr, target: $target:expr, %$($k:ident).+ $($field:tt)* ) => (
        $crate::event!(name: $name, target: $target, $crate::Level::TRACE, { %$($k).+ $($field)* })
    );
    (name: $name:expr, target: $target:expr, $($arg:tt)+ ) => (
        $crate::event!(name: $name, target: $target, $crate::Level::TRACE, {}, $($arg)+)
    );

    // Target / parent.
    (target: $target:expr, parent: $parent:expr, { $($field:tt)* }, $($arg:tt)* ) => (
        $crate::event!(target: $target, parent: $parent, $crate::Level::TRACE, { $($field)* }, $($arg)*)
    );
    (target: $target:expr, parent: $parent:expr, $($k:ident).+ $($field:tt)* ) => (
        $crate::event!(target: $target, parent: $parent, $crate::Level::TRACE, { $($k).+ $($field)* })
    );
    (target: $target:expr, parent: $parent:expr, ?$($k:ident).+ $($field:tt)* ) => (
        $crate::event!(target: $target, parent: $parent, $crate::Level::TRACE, { ?$($k).+ $($field)* })
    );
    (target: $target:expr, parent: $parent:expr, %$($k:ident).+ $($field:tt)* ) => (
        $crate::event!(target: $target, parent: $parent, $crate::Level::TRACE, { %$($k).+ $($field)* })
    );
    (target: $target:expr, parent: $parent:expr, $($arg:tt)+ ) => (
        $crate::event!(target: $target, parent: $parent, $crate::Level::TRACE, {}, $($arg)+)
    );

    // Name / parent.
    (name: $name:expr, parent: $parent:expr, { $($field:tt)* }, $($arg:tt)* ) => (
        $crate::event!(name: $name, parent: $parent, $crate::Level::TRACE, { $($field)* }, $($arg)*)
    );
    (name: $name:expr, parent: $parent:expr, $($k:ident).+ $($field:tt)* ) => (
        $crate::event!(name: $name, parent: $parent, $crate::Level::TRACE, { $($k).+ $($field)* })
    );
    (name: $name:expr, parent: $parent:expr, ?$($k:ident).+ $($field:tt)* ) => (
        $crate::event!(name: $name, parent: $parent, $crate::Level::TRACE, { ?$($k).+ $($field)* })
    );
    (name: $name:expr, parent: $parent:expr, %$($k:ident).+ $($field:tt)* ) => (
        $crate::event!(name: $name, parent: $parent, $crate::Level::TRACE, { %$($k).+ $($field)* })
    );
    (name: $name:expr, parent: $parent:expr, $($arg:tt)+ ) => (
        $crate::event!(name: $name, parent: $parent, $crate::Level::TRACE, {}, $($arg)+)
    );

    // Name.
    (name: $name:expr, { $($field:tt)* }, $($arg:tt)* ) => (
        $crate::event!(name: $name, $crate::Level::TRACE, { $($field)* }, $($arg)*)
    );
    (name: $name:expr, $($k:ident).+ $($field:tt)* ) => (
        $crate::event!(name: $name, $crate::Level::TRACE, { $($k).+ $($field)* })
    );
    (name: $name:expr, ?$($k:ident).+ $($field:tt)* ) => (
        $crate::event!(name: $name, $crate::Level::TRACE, { ?$($k).+ $($field)* })
    );
    (name: $name:expr, %$($k:ident).+ $($field:tt)* ) => (
        $crate::event!(name: $name, $crate::Level::TRACE, { %$($k).+ $($field)* })
    );
    (name: $name:expr, $($arg:tt)+ ) => (
        $crate::event!(name: $name, $crate::Level::TRACE, {}, $($arg)+)
    );

    // Target.
    (target: $target:expr, { $($field:tt)* }, $($arg:tt)* ) => (
        $crate::event!(target: $target, $crate::Level::TRACE, { $($field)* }, $($arg)*)
    );
    (target: $target:expr, $($k:ident).+ $($field:tt)* ) => (
        $crate::event!(target: $target, $crate::Level::TRACE, { $($k).+ $($field)* })
    );
    (target: $target:expr, ?$($k:ident).+ $($field:tt)* ) => (
        $crate::event!(target: $target, $crate::Level::TRACE, { ?$($k).+ $($field)* })
    );
    (target: $target:expr, %$($k:ident).+ $($field:tt)* ) => (
        $crate::event!(target: $target, $crate::Level::TRACE, { %$($k).+ $($field)* })
    );
    (target: $target:expr, $($arg:tt)+ ) => (
        $crate::event!(target: $target, $crate::Level::TRACE, {}, $($arg)+)
    );

    // Parent.
    (parent: $parent:expr, { $($field:tt)+ }, $($arg:tt)+ ) => (
        $crate::event!(
            target: module_path!(),
            parent: $parent,
            $crate::Level::TRACE,
            { $($field)+ },
            $($arg)+
        )
    );
    (parent: $parent:expr, $($k:ident).+ = $($field:tt)*) => (
        $crate::event!(
            target: module_path!(),
            parent: $parent,
            $crate::Level::TRACE,
            { $($k).+ = $($field)*}
        )
    );
    (parent: $parent:expr, ?$($k:ident).+ = $($field:tt)*) => (
        $crate::event!(
            target: module_path!(),
            parent: $parent,
            $crate::Level::TRACE,
            { ?$($k).+ = $($field)*}
        )
    );
    (parent: $parent:expr, %$($k:ident).+ = $($field:tt)*) => (
        $crate::event!(
            target: module_path!(),
            parent: $parent,
            $crate::Level::TRACE,
            { %$($k).+ = $($field)*}
        )
    );
    (parent: $parent:expr, $($k:ident).+, $($field:tt)*) => (
        $crate::event!(
            target: module_path!(),
            parent: $parent,
            $crate::Level::TRACE,
            { $($k).+, $($field)*}
        )
    );
    (parent: $parent:expr, ?$($k:ident).+, $($field:tt)*) => (
        $crate::event!(
            target: module_path!(),
            parent: $parent,
            $crate::Level::TRACE,
            { ?$($k).+, $($field)*}
        )
    );
    (parent: $parent:expr, %$($k:ident).+, $($field:tt)*) => (
        $crate::event!(
            target: module_path!(),
            parent: $parent,
            $crate::Level::TRACE,
            { %$($k).+, $($field)*}
        )
    );
    (parent: $parent:expr, $($arg:tt)+) => (
        $crate::event!(
            target: module_path!(),
            parent: $parent,
            $crate::Level::TRACE,
            {},
            $($arg)+
        )
    );

    // ...
    ({ $($field:tt)+ }, $($arg:tt)+ ) => (
        $crate::event!(
            target: module_path!(),
            $crate::Level::TRACE,
            { $($field)+ },
            $($arg)+
        )
    );
    ($($k:ident).+ = $($field:tt)*) => (
        $crate::event!(
            target: module_path!(),
            $crate::Level::TRACE,
            { $($k).+ = $($field)*}
        )
    );
    (?$($k:ident).+ = $($field:tt)*) => (
        $crate::event!(
            target: module_path!(),
            $crate::Level::TRACE,
            { ?$($k).+ = $($field)*}
        )
    );
    (%$($k:ident).+ = $($field:tt)*) => (
        $crate::event!(
            target: module_path!(),
            $crate::Level::TRACE,
            { %$($k).+ = $($field)*}
        )
    );
    ($($k:ident).+, $($field:tt)*) => (
        $crate::event!(
            target: module_path!(),
            $crate::Level::TRACE,
            { $($k).+, $($field)*}
        )
    );
    (?$($k:ident).+, $($field:tt)*) => (
        $crate::event!(
            target: module_path!(),
            $crate::Level::TRACE,
            { ?$($k).+, $($field)*}
        )
    );
    (%$($k:ident).+, $($field:tt)*) => (
        $crate::event!(
            target: module_path!(),
            $crate::Level::TRACE,
            { %$($k).+, $($field)*}
        )
    );
    (?$($k:ident).+) => (
        $crate::event!(
            target: module_path!(),
            $crate::Level::TRACE,
            { ?$($k).+ }
        )
    );
    (%$($k:ident).+) => (
        $crate::event!(
            target: module_path!(),
            $crate::Level::TRACE,
            { %$($k).+ }
        )
    );
    ($($k:ident).+) => (
        $crate::event!(
            target: module_path!(),
            $crate::Level::TRACE,
            { $($k).+ }
        )
    );
    ($($arg:tt)+) => (
        $crate::event!(
            target: module_path!(),
            $crate::Level::TRACE,
            $($arg)+
        )
    );
}

/// Constructs an event at the debug level.
///
/// This functions similarly to the [`event!`] macro. See [the top-level
/// documentation][lib] for details on the syntax accepted by
/// this macro.
///
/// [`event!`]: crate::event!
/// [lib]: crate#using-the-macros
///
/// # Examples
///
/// ```rust
/// use tracing::debug;
/// # fn main() {
/// # #[derive(Debug)] struct Position { x: f32, y: f32 }
///
/// let pos = Position { x: 3.234, y: -1.223 };
///
/// debug!(?pos.x, ?pos.y);
/// debug!(target: "app_events", position = ?pos, "New position");
/// debug!(name: "completed", position = ?pos);
/// # }
/// ```
#[macro_export]
macro_rules! debug {
    // Name / target / parent.
    (name: $name:expr, target: $target:expr, parent: $parent:expr, { $($field:tt)* }, $($arg:tt)* ) => (
        $crate::event!(name: $name, target: $target, parent: $parent, $crate::Level::DEBUG, { $($field)* }, $($arg)*)
    );
    (name: $name:expr, target: $target:expr, parent: $parent:expr, $($k:ident).+ $($field:tt)* ) => (
        $crate::event!(name: $name, target: $target, parent: $parent, $crate::Level::DEBUG, { $($k).+ $($field)* })
    );
    (name: $name:expr, target: $target:expr, parent: $parent:expr, ?$($k:ident).+ $($field:tt)* ) => (
        $crate::event!(name: $name, target: $target, parent: $parent, $crate::Level::DEBUG, { ?$($k).+ $($field)* })
    );
    (name: $name:expr, target: $target:expr, parent: $parent:expr, %$($k:ident).+ $($field:tt)* ) => (
        $crate::event!(name: $name, target: $target, parent: $parent, $crate::Level::DEBUG, { %$($k).+ $($field)* })
    );
    (name: $name:expr, target: $target:expr, parent: $parent:expr, $($arg:tt)+ ) => (
        $crate::event!(name: $name, target: $target, parent: $parent, $crate::Level::DEBUG, {}, $($arg)+)
    );

    // Name / target.
    (name: $name:expr, target: $target:expr, { $($field:tt)* }, $($arg:tt)* ) => (
        $crate::event!(name: $name, target: $target, $crate::Level::DEBUG, { $($field)* }, $($arg)*)
    );
    (name: $name:expr, target: $target:expr, $($k:ident).+ $($field:tt)* ) => (
        $crate::event!(name: $name, target: $target, $crate::Level::DEBUG, { $($k).+ $($field)* })
    );
    (name: $name:expr, target: $target:expr, ?$($k:ident).+ $($field:tt)* ) => (
        $crate::event!(name: $name, target: $target, $crate::Level::DEBUG, { ?$($k).+ $($field)* })
    );
    (name: $name:expr, target: $target:expr, %$($k:ident).+ $($field:tt)* ) => (
        $crate::event!(name: $name, target: $target, $crate::Level::DEBUG, { %$($k).+ $($field)* })
    );
    (name: $name:expr, target: $target:expr, $($arg:tt)+ ) => (
        $crate::event!(name: $name, target: $target, $crate::Level::DEBUG, {}, $($arg)+)
    );

    // Target / parent.
    (target: $target:expr, parent: $parent:expr, { $($field:tt)* }, $($arg:tt)* ) => (
        $crate::event!(target: $target, parent: $parent, $crate::Level::DEBUG, { $($field)* }, $($arg)*)
    );
    (target: $target:expr, parent: $parent:expr, $($k:ident).+ $($field:tt)* ) => (
        $crate::event!(target: $target, parent: $parent, $crate::Level::DEBUG, { $($k).+ $($field)* })
    );
    (target: $target:expr, parent: $parent:expr, ?$($k:ident).+ $($field:tt)* ) => (
        $crate::event!(target: $target, parent: $parent, $crate::Level::DEBUG, { ?$($k).+ $($field)* })
    );
    (target: $target:expr, parent: $parent:expr, %$($k:ident).+ $($field:tt)* ) => (
        $crate::event!(target: $target, parent: $parent, $crate::Level::DEBUG, { %$($k).+ $($field)* })
    );
    (target: $target:expr, parent: $parent:expr, $($arg:tt)+ ) => (
        $crate::event!(target: $target, parent: $parent, $crate::Level::DEBUG, {}, $($arg)+)
    );

    // Name / parent.
    (name: $name:expr, parent: $parent:expr, { $($field:tt)* }, $($arg:tt)* ) => (
        $crate::event!(name: $name, parent: $parent, $crate::Level::DEBUG, { $($field)* }, $($arg)*)
    );
    (name: $name:expr, parent: $parent:expr, $($k:ident).+ $($field:tt)* ) => (
        $crate::event!(name: $name, parent: $parent, $crate::Level::DEBUG, { $($k).+ $($field)* })
    );
    (name: $name:expr, parent: $parent:expr, ?$($k:ident).+ $($field:tt)* ) => (
        $crate::event!(name: $name, parent: $parent, $crate::Level::DEBUG, { ?$($k).+ $($field)* })
    );
    (name: $name:expr, parent: $parent:expr, %$($k:ident).+ $($field:tt)* ) => (
        $crate::event!(name: $name, parent: $parent, $crate::Level::DEBUG, { %$($k).+ $($field)* })
    );
    (name: $name:expr, parent: $parent:expr, $($arg:tt)+ ) => (
        $crate::event!(name: $name, parent: $parent, $crate::Level::DEBUG, {}, $($arg)+)
    );

    // Name.
    (name: $name:expr, { $($field:tt)* }, $($arg:tt)* ) => (
        $crate::event!(name: $name, $crate::Level::DEBUG, { $($field)* }, $($arg)*)
    );
    (name: $name:expr, $($k:ident).+ $($field:tt)* ) => (
        $crate::event!(name: $name, $crate::Level::DEBUG, { $($k).+ $($field)* })
    );
    (name: $name:expr, ?$($k:ident).+ $($field:tt)* ) => (
        $crate::event!(name: $name, $crate::Level::DEBUG, { ?$($k).+ $($field)* })
    );
    (name: $name:expr, %$($k:ident).+ $($field:tt)* ) => (
        $crate::event!(name: $name, $crate::Level::DEBUG, { %$($k).+ $($field)* })
    );
    (name: $name:expr, $($arg:tt)+ ) => (
        $crate::event!(name: $name, $crate::Level::DEBUG, {}, $($arg)+)
    );

    // Target.
    (target: $target:expr, { $($field:tt)* }, $($arg:tt)* ) => (
        $crate::event!(target: $target, $crate::Level::DEBUG, { $($field)* }, $($arg)*)
    );
    (target: $target:expr, $($k:ident).+ $($field:tt)* ) => (
        $crate::event!(target: $target, $crate::Level::DEBUG, { $($k).+ $($field)* })
    );
    (target: $target:expr, ?$($k:ident).+ $($field:tt)* ) => (
        $crate::event!(target: $target, $crate::Level::DEBUG, { ?$($k).+ $($field)* })
    );
    (target: $target:expr, %$($k:ident).+ $($field:tt)* ) => (
        $crate::event!(target: $target, $crate::Level::DEBUG, { %$($k).+ $($field)* })
    );
    (target: $target:expr, $($arg:tt)+ ) => (
        $crate::event!(target: $target, $crate::Level::DEBUG, {}, $($arg)+)
    );

    // Parent.
    (parent: $parent:expr, { $($field:tt)+ }, $($arg:tt)+ ) => (
        $crate::event!(
            target: module_path!(),
            parent: $parent,
            $crate::Level::DEBUG,
            { $($field)+ },
            $($arg)+
        )
    );
    (parent: $parent:expr, $($k:ident).+ = $($field:tt)*) => (
        $crate::event!(
            target: module_path!(),
            parent: $parent,
            $crate::Level::DEBUG,
            { $($k).+ = $($field)*}
        )
    );
    (parent: $parent:expr, ?$($k:ident).+ = $($field:tt)*) => (
        $crate::event!(
            target: module_path!(),
            parent: $parent,
            $crate::Level::DEBUG,
            { ?$($k).+ = $($field)*}
        )
    );
    (parent: $parent:expr, %$($k:ident).+ = $($field:tt)*) => (
        $crate::event!(
            target: module_path!(),
            parent: $parent,
            $crate::Level::DEBUG,
            { %$($k).+ = $($field)*}
        )
    );
    (parent: $parent:expr, $($k:ident).+, $($field:tt)*) => (
        $crate::event!(
            target: module_path!(),
            parent: $parent,
            $crate::Level::DEBUG,
            { $($k).+, $($field)*}
        )
    );
    (parent: $parent:expr, ?$($k:ident).+, $($field:tt)*) => (
        $crate::event!(
            target: module_path!(),
            parent: $parent,
            $crate::Level::DEBUG,
            { ?$($k).+, $($field)*}
        )
    );
    (parent: $parent:expr, %$($k:ident).+, $($field:tt)*) => (
        $crate::event!(
            target: module_path!(),
            parent: $parent,
            $crate::Level::DEBUG,
            { %$($k).+, $($field)*}
        )
    );
    (parent: $parent:expr, $($arg:tt)+) => (
        $crate::event!(
            target: module_path!(),
            parent: $parent,
            $crate::Level::DEBUG,
            {},
            $($arg)+
        )
    );

    // ...
    ({ $($field:tt)+ }, $($arg:tt)+ ) => (
        $crate::event!(
            target: module_path!(),
            $crate::Level::DEBUG,
            { $($field)+ },
            $($arg)+
        )
    );
    ($($k:ident).+ = $($field:tt)*) => (
        $crate::event!(
            target: module_path!(),
            $crate::Level::DEBUG,
            { $($k).+ = $($field)*}
        )
    );
    (?$($k:ident).+ = $($field:tt)*) => (
        $crate::event!(
            target: module_path!(),
            $crate::Level::DEBUG,
            { ?$($k).+ = $($field)*}
        )
    );
    (%$($k:ident).+ = $($field:tt)*) => (
        $crate::event!(
            target: module_path!(),
            $crate::Level::DEBUG,
            { %$($k).+ = $($field)*}
        )
    );
    ($($k:ident).+, $($field:tt)*) => (
        $crate::event!(
            target: module_path!(),
            $crate::Level::DEBUG,
            { $($k).+, $($field)*}
        )
    );
    (?$($k:ident).+, $($field:tt)*) => (
        $crate::event!(
            target: module_path!(),
            $crate::Level::DEBUG,
            { ?$($k).+, $($field)*}
        )
    );
    (%$($k:ident).+, $($field:tt)*) => (
        $crate::event!(
            target: module_path!(),
            $crate::Level::DEBUG,
            { %$($k).+, $($field)*}
        )
    );
    (?$($k:ident).+) => (
        $crate::event!(
            target: module_path!(),
            $crate::Level::DEBUG,
            { ?$($k).+ }
        )
    );
    (%$($k:ident).+) => (
        $crate::event!(
            target: module_path!(),
            $crate::Level::DEBUG,
            { %$($k).+ }
        )
    );
    ($($k:ident).+) => (
        $crate::event!(
            target: module_path!(),
            $crate::Level::DEBUG,
            { $($k).+ }
        )
    );
    ($($arg:tt)+) => (
        $crate::event!(
            target: module_path!(),
            $crate::Level::DEBUG,
            $($arg)+
        )
    );
}

/// Constructs an event at the info level.
///
/// This functions similarly to the [`event!`] macro. See [the top-level
/// documentation][lib] for details on the syntax accepted by
/// this macro.
///
/// [`event!`]: crate::event!
/// [lib]: crate#using-the-macros
///
/// # Examples
///
/// ```rust
/// use tracing::info;
/// # // this is so the test will still work in no-std mode
/// # #[derive(Debug)]
/// # pub struct Ipv4Addr;
/// # impl Ipv4Addr { fn new(o1: u8, o2: u8, o3: u8, o4: u8) -> Self { Self } }
/// # fn main() {
/// # struct Connection { port: u32, speed: f32 }
/// use tracing::field;
///
/// let addr = Ipv4Addr::new(127, 0, 0, 1);
/// let conn = Connection { port: 40, speed: 3.20 };
///
/// info!(conn.port, "connected to {:?}", addr);
/// info!(
///     target: "connection_events",
///     ip = ?addr,
///     conn.port,
///     ?conn.speed,
/// );
/// info!(name: "completed", "completed connection to {:?}", addr);
/// # }
/// ```
#[macro_export]
macro_rules! info {
    // Name / target / parent.
    (name: $name:expr, target: $target:expr, parent: $parent:expr, { $($field:tt)* }, $($arg:tt)* ) => (
        $crate::event!(name: $name, target: $target, parent: $parent, $crate::Level::INFO, { $($field)* }, $($arg)*)
    );
    (name: $name:expr, target: $target:expr, parent: $parent:expr, $($k:ident).+ $($field:tt)* ) => (
        $crate::event!(name: $name, target: $target, parent: $parent, $crate::Level::INFO, { $($k).+ $($field)* })
    );
    (name: $name:expr, target: $target:expr, parent: $parent:expr, ?$($k:ident).+ $($field:tt)* ) => (
        $crate::event!(name: $name, target: $target, parent: $parent, $crate::Level::INFO, { ?$($k).+ $($field)* })
    );
    (name: $name:expr, target: $target:expr, parent: $parent:expr, %$($k:ident).+ $($field:tt)* ) => (
        $crate::event!(name: $name, target: $target, parent: $parent, $crate::Level::INFO, { %$($k).+ $($field)* })
    );
    (name: $name:expr, target: $target:expr, parent: $parent:expr, $($arg:tt)+ ) => (
        $crate::event!(name: $name, target: $target, parent: $parent, $crate::Level::INFO, {}, $($arg)+)
    );

    // Name / target.
    (name: $name:expr, target: $target:expr, { $($field:tt)* }, $($arg:tt)* ) => (
        $crate::event!(name: $name, target: $target, $crate::Level::INFO, { $($field)* }, $($arg)*)
    );
    (name: $name:expr, target: $target:expr, $($k:ident).+ $($field:tt)* ) => (
        $crate::event!(name: $name, target: $target, $crate::Level::INFO, { $($k).+ $($field)* })
    );
    (name: $name:expr, target: $target:expr, ?$($k:ident).+ $($field:tt)* ) => (
        $crate::event!(name: $name, target: $target, $crate::Level::INFO, { ?$($k).+ $($field)* })
    );
    (name: $name:expr, target: $target:expr, %$($k:ident).+ $($field:tt)* ) => (
        $crate::event!(name: $name, target: $target, $crate::Level::INFO, { %$($k).+ $($field)* })
    );
    (name: $name:expr, target: $target:expr, $($arg:tt)+ ) => (
        $crate::event!(name: $name, target: $target, $crate::Level::INFO, {}, $($arg)+)
    );

    // Target / parent.
    (target: $target:expr, parent: $parent:expr, { $($field:tt)* }, $($arg:tt)* ) => (
        $crate::event!(target: $target, parent: $parent, $crate::Level::INFO, { $($field)* }, $($arg)*)
    );
    (target: $target:expr, parent: $parent:expr, $($k:ident).+ $($field:tt)* ) => (
        $crate::event!(target: $target, parent: $parent, $crate::Level::INFO, { $($k).+ $($field)* })
    );
    (target: $target:expr, parent: $parent:expr, ?$($k:ident).+ $($field:tt)* ) => (
        $crate::event!(target: $target, parent: $parent, $crate::Level::INFO, { ?$($k).+ $($field)* })
    );
    (target: $target:expr, parent: $parent:expr, %$($k:ident).+ $($field:tt)* ) => (
        $crate::event!(target: $target, parent: $parent, $crate::Level::INFO, { %$($k).+ $($field)* })
    );
    (target: $target:expr, parent: $parent:expr, $($arg:tt)+ ) => (
        $crate::event!(target: $target, parent: $parent, $crate::Level::INFO, {}, $($arg)+)
    );

    // Name / parent.
    (name: $name:expr, parent: $parent:expr, { $($field:tt)* }, $($arg:tt)* ) => (
        $crate::event!(name: $name, parent: $parent, $crate::Level::INFO, { $($field)* }, $($arg)*)
    );
    (name: $name:expr, parent: $parent:expr, $($k:ident).+ $($field:tt)* ) => (
        $crate::event!(name: $name, parent: $parent, $crate::Level::INFO, { $($k).+ $($field)* })
    );
    (name: $name:expr, parent: $parent:expr, ?$($k:ident).+ $($field:tt)* ) => (
        $crate::event!(name: $name, parent: $parent, $crate::Level::INFO, { ?$($k).+ $($field)* })
    );
    (name: $name:expr, parent: $parent:expr, %$($k:ident).+ $($field:tt)* ) => (
        $crate::event!(name: $name, parent: $parent, $crate::Level::INFO, { %$($k).+ $($field)* })
    );
    (name: $name:expr, parent: $parent:expr, $($arg:tt)+ ) => (
        $crate::event!(name: $name, parent: $parent, $crate::Level::INFO, {}, $($arg)+)
    );

    // Name.
    (name: $name:expr, { $($field:tt)* }, $($arg:tt)* ) => (
        $crate::event!(name: $name, $crate::Level::INFO, { $($field)* }, $($arg)*)
    );
    (name: $name:expr, $($k:ident).+ $($field:tt)* ) => (
        $crate::event!(name: $name, $crate::Level::INFO, { $($k).+ $($field)* })
    );
    (name: $name:expr, ?$($k:ident).+ $($field:tt)* ) => (
        $crate::event!(name: $name, $crate::Level::INFO, { ?$($k).+ $($field)* })
    );
    (name: $name:expr, %$($k:ident).+ $($field:tt)* ) => (
        $crate::event!(name: $name, $crate::Level::INFO, { %$($k).+ $($field)* })
    );
    (name: $name:expr, $($arg:tt)+ ) => (
        $crate::event!(name: $name, $crate::Level::INFO, {}, $($arg)+)
    );

    // Target.
    (target: $target:expr, { $($field:tt)* }, $($arg:tt)* ) => (
        $crate::event!(target: $target, $crate::Level::INFO, { $($field)* }, $($arg)*)
    );
    (target: $target:expr, $($k:ident).+ $($field:tt)* ) => (
        $crate::event!(target: $target, $crate::Level::INFO, { $($k).+ $($field)* })
    );
    (target: $target:expr, ?$($k:ident).+ $($field:tt)* ) => (
        $crate::event!(target: $target, $crate::Level::INFO, { ?$($k).+ $($field)* })
    );
    (target: $target:expr, %$($k:ident).+ $($field:tt)* ) => (
        $crate::event!(target: $target, $crate::Level::INFO, { %$($k).+ $($field)* })
    );
    (target: $target:expr, $($arg:tt)+ ) => (
        $crate::event!(target: $target, $crate::Level::INFO, {}, $($arg)+)
    );

    // Parent.
    (parent: $parent:expr, { $($field:tt)+ }, $($arg:tt)+ ) => (
        $crate::event!(
            target: module_path!(),
            parent: $parent,
            $crate::Level::INFO,
            { $($field)+ },
            $($arg)+
        )
    );
    (parent: $parent:expr, $($k:ident).+ = $($field:tt)*) => (
        $crate::event!(
            target: module_path!(),
            parent: $parent,
            $crate::Level::INFO,
            { $($k).+ = $($field)*}
        )
    );
    (parent: $parent:expr, ?$($k:ident).+ = $($field:tt)*) => (
        $crate::event!(
            target: module_path!(),
            parent: $parent,
            $crate::Level::INFO,
            { ?$($k).+ = $($field)*}
        )
    );
    (parent: $parent:expr, %$($k:ident).+ = $($field:tt)*) => (
        $crate::event!(
            target: module_path!(),
            parent: $parent,
            $crate::Level::INFO,
            { %$($k).+ = $($field)*}
        )
    );
    (parent: $parent:expr, $($k:ident).+, $($field:tt)*) => (
        $crate::event!(
            target: module_path!(),
            parent: $parent,
            $crate::Level::INFO,
            { $($k).+, $($field)*}
        )
    );
    (parent: $parent:expr, ?$($k:ident).+, $($field:tt)*) => (
        $crate::event!(
            target: module_path!(),
            parent: $parent,
            $crate::Level::INFO,
            { ?$($k).+, $($field)*}
        )
    );
    (parent: $parent:expr, %$($k:ident).+, $($field:tt)*) => (
        $crate::event!(
            target: module_path!(),
            parent: $parent,
            $crate::Level::INFO,
            { %$($k).+, $($field)*}
        )
    );
    (parent: $parent:expr, $($arg:tt)+) => (
        $crate::event!(
            target: module_path!(),
            parent: $parent,
            $crate::Level::INFO,
            {},
            $($arg)+
        )
    );

    // ...
    ({ $($field:tt)+ }, $($arg:tt)+ ) => (
        $crate::event!(
            target: module_path!(),
            $crate::Level::INFO,
            { $($field)+ },
            $($arg)+
        )
    );
    ($($k:ident).+ = $($field:tt)*) => (
        $crate::event!(
            target: module_path!(),
            $crate::Level::INFO,
            { $($k).+ = $($field)*}
        )
    );
    (?$($k:ident).+ = $($field:tt)*) => (
        $crate::event!(
            target: module_path!(),
            $crate::Level::INFO,
            { ?$($k).+ = $($field)*}
        )
    );
    (%$($k:ident).+ = $($field:tt)*) => (
        $crate::event!(
            target: module_path!(),
            $crate::Level::INFO,
            { %$($k).+ = $($field)*}
        )
    );
    ($($k:ident).+, $($field:tt)*) => (
        $crate::event!(
            target: module_path!(),
            $crate::Level::INFO,
            { $($k).+, $($field)*}
        )
    );
    (?$($k:ident).+, $($field:tt)*) => (
        $crate::event!(
            target: module_path!(),
            $crate::Level::INFO,
            { ?$($k).+, $($field)*}
        )
    );
    (%$($k:ident).+, $($field:tt)*) => (
        $crate::event!(
            target: module_path!(),
            $crate::Level::INFO,
            { %$($k).+, $($field)*}
        )
    );
    (?$($k:ident).+) => (
        $crate::event!(
            target: module_path!(),
            $crate::Level::INFO,
            { ?$($k).+ }
        )
    );
    (%$($k:ident).+) => (
        $crate::event!(
            target: module_path!(),
            $crate::Level::INFO,
            { %$($k).+ }
        )
    );
    ($($k:ident).+) => (
        $crate::event!(
            target: module_path!(),
            $crate::Level::INFO,
            { $($k).+ }
        )
    );
    ($($arg:tt)+) => (
        $crate::event!(
            target: module_path!(),
            $crate::Level::INFO,
            $($arg)+
        )
    );
}

/// Constructs an event at the warn level.
///
/// This functions similarly to the [`event!`] macro. See [the top-level
/// documentation][lib] for details on the syntax accepted by
/// this macro.
///
/// [`event!`]: crate::event!
/// [lib]: crate#using-the-macros
///
/// # Examples
///
/// ```rust
/// use tracing::warn;
/// # fn main() {
///
/// let warn_description = "Invalid Input";
/// let input = &[0x27, 0x45];
///
/// warn!(?input, warning = warn_description);
/// warn!(
///     target: "input_events",
///     warning = warn_description,
///     "Received warning for input: {:?}", input,
/// );
/// warn!(name: "invalid", ?input);
/// # }
/// ```
#[macro_export]
macro_rules! warn {
    // Name / target / parent.
    (name: $name:expr, target: $target:expr, parent: $parent:expr, { $($field:tt)* }, $($arg:tt)* ) => (
        $crate::event!(name: $name, target: $target, parent: $parent, $crate::Level::WARN, { $($field)* }, $($arg)*)
    );
    (name: $name:expr, target: $target:expr, parent: $parent:expr, $($k:ident).+ $($field:tt)* ) => (
        $crate::event!(name: $name, target: $target, parent: $parent, $crate::Level::WARN, { $($k).+ $($field)* })
    );
    (name: $name:expr, target: $target:expr, parent: $parent:expr, ?$($k:ident).+ $($field:tt)* ) => (
        $crate::event!(name: $name, target: $target, parent: $parent, $crate::Level::WARN, { ?$($k).+ $($field)* })
    );
    (name: $name:expr, target: $target:expr, parent: $parent:expr, %$($k:ident).+ $($field:tt)* ) => (
        $crate::event!(name: $name, target: $target, parent: $parent, $crate::Level::WARN, { %$($k).+ $($field)* })
    );
    (name: $name:expr, target: $target:expr, parent: $parent:expr, $($arg:tt)+ ) => (
        $crate::event!(name: $name, target: $target, parent: $parent, $crate::Level::WARN, {}, $($arg)+)
    );

    // Name / target.
    (name: $name:expr, target: $target:expr, { $($field:tt)* }, $($arg:tt)* ) => (
        $crate::event!(name: $name, target: $target, $crate::Level::WARN, { $($field)* }, $($arg)*)
    );
    (name: $name:expr, target: $target:expr, $($k:ident).+ $($field:tt)* ) => (
        $crate::event!(name: $name, target: $target, $crate::Level::WARN, { $($k).+ $($field)* })
    );
    (name: $name:expr, target: $target:expr, ?$($k:ident).+ $($field:tt)* ) => (
        $crate::event!(name: $name, target: $target, $crate::Level::WARN, { ?$($k).+ $($field)* })
    );
    (name: $name:expr, target: $target:expr, %$($k:ident).+ $($field:tt)* ) => (
        $crate::event!(name: $name, target: $target, $crate::Level::WARN, { %$($k).+ $($field)* })
    );
    (name: $name:expr, target: $target:expr, $($arg:tt)+ ) => (
        $crate::event!(name: $name, target: $target, $crate::Level::WARN, {}, $($arg)+)
    );

    // Target / parent.
    (target: $target:expr, parent: $parent:expr, { $($field:tt)* }, $($arg:tt)* ) => (
        $crate::event!(target: $target, parent: $parent, $crate::Level::WARN, { $($field)* }, $($arg)*)
    );
    (target: $target:expr, parent: $parent:expr, $($k:ident).+ $($field:tt)* ) => (
        $crate::event!(target: $target, parent: $parent, $crate::Level::WARN, { $($k).+ $($field)* })
    );
    (target: $target:expr, parent: $parent:expr, ?$($k:ident).+ $($field:tt)* ) => (
        $crate::event!(target: $target, parent: $parent, $crate::Level::WARN, { ?$($k).+ $($field)* })
    );
    (target: $target:expr, parent: $parent:expr, %$($k:ident).+ $($field:tt)* ) => (
        $crate::event!(target: $target, parent: $parent, $crate::Level::WARN, { %$($k).+ $($field)* })
    );
    (target: $target:expr, parent: $parent:expr, $($arg:tt)+ ) => (
        $crate::event!(target: $target, parent: $parent, $crate::Level::WARN, {}, $($arg)+)
    );

    // Name / parent.
    (name: $name:expr, parent: $parent:expr, { $($field:tt)* }, $($arg:tt)* ) => (
        $crate::event!(name: $name, parent: $parent, $crate::Level::WARN, { $($field)* }, $($arg)*)
    );
    (name: $name:expr, parent: $parent:expr, $($k:ident).+ $($field:tt)* ) => (
        $crate::event!(name: $name, parent: $parent, $crate::Level::WARN, { $($k).+ $($field)* })
    );
    (name: $name:expr, parent: $parent:expr, ?$($k:ident).+ $($field:tt)* ) => (
        $crate::event!(name: $name, parent: $parent, $crate::Level::WARN, { ?$($k).+ $($field)* })
    );
    (name: $name:expr, parent: $parent:expr, %$($k:ident).+ $($field:tt)* ) => (
        $crate::event!(name: $name, parent: $parent, $crate::Level::WARN, { %$($k).+ $($field)* })
    );
    (name: $name:expr, parent: $parent:expr, $($arg:tt)+ ) => (
        $crate::event!(name: $name, parent: $parent, $crate::Level::WARN, {}, $($arg)+)
    );

    // Name.
    (name: $name:expr, { $($field:tt)* }, $($arg:tt)* ) => (
        $crate::event!(name: $name, $crate::Level::WARN, { $($field)* }, $($arg)*)
    );
    (name: $name:expr, $($k:ident).+ $($field:tt)* ) => (
        $crate::event!(name: $name, $crate::Level::WARN, { $($k).+ $($field)* })
    );
    (name: $name:expr, ?$($k:ident).+ $($field:tt)* ) => (
        $crate::event!(name: $name, $crate::Level::WARN, { ?$($k).+ $($field)* })
    );
    (name: $name:expr, %$($k:ident).+ $($field:tt)* ) => (
        $crate::event!(name: $name, $crate::Level::WARN, { %$($k).+ $($field)* })
    );
    (name: $name:expr, $($arg:tt)+ ) => (
        $crate::event!(name: $name, $crate::Level::WARN, {}, $($arg)+)
    );

    // Target.
    (target: $target:expr, { $($field:tt)* }, $($arg:tt)* ) => (
        $crate::event!(target: $target, $crate::Level::WARN, { $($field)* }, $($arg)*)
    );
    (target: $target:expr, $($k:ident).+ $($field:tt)* ) => (
        $crate::event!(target: $target, $crate::Level::WARN, { $($k).+ $($field)* })
    );
    (target: $target:expr, ?$($k:ident).+ $($field:tt)* ) => (
        $crate::event!(target: $target, $crate::Level::WARN, { ?$($k).+ $($field)* })
    );
    (target: $target:expr, %$($k:ident).+ $($field:tt)* ) => (
        $crate::event!(target: $target, $crate::Level::WARN, { %$($k).+ $($field)* })
    );
    (target: $target:expr, $($arg:tt)+ ) => (
        $crate::event!(target: $target, $crate::Level::WARN, {}, $($arg)+)
    );

    // Parent.
    (parent: $parent:expr, { $($field:tt)+ }, $($arg:tt)+ ) => (
        $crate::event!(
            target: module_path!(),
            parent: $parent,
            $crate::Level::WARN,
            { $($field)+ },
            $($arg)+
        )
    );
    (parent: $parent:expr, $($k:ident).+ = $($field:tt)*) => (
        $crate::event!(
            target: module_path!(),
            parent: $parent,
            $crate::Level::WARN,
            { $($k).+ = $($field)*}
        )
    );
    (parent: $parent:expr, ?$($k:ident).+ = $($field:tt)*) => (
        $crate::event!(
            target: module_path!(),
            parent: $parent,
            $crate::Level::WARN,
            { ?$($k).+ = $($field)*}
        )
    );
    (parent: $parent:expr, %$($k:ident).+ = $($field:tt)*) => (
        $crate::event!(
            target: module_path!(),
            parent: $parent,
            $crate::Level::WARN,
            { %$($k).+ = $($field)*}
        )
    );
    (parent: $parent:expr, $($k:ident).+, $($field:tt)*) => (
        $crate::event!(
            target: module_path!(),
            parent: $parent,
            $crate::Level::WARN,
            { $($k).+, $($field)*}
        )
    );
    (parent: $parent:expr, ?$($k:ident).+, $($field:tt)*) => (
        $crate::event!(
            target: module_path!(),
            parent: $parent,
            $crate::Level::WARN,
            { ?$($k).+, $($field)*}
        )
    );
    (parent: $parent:expr, %$($k:ident).+, $($field:tt)*) => (
        $crate::event!(
            target: module_path!(),
            parent: $parent,
            $crate::Level::WARN,
            { %$($k).+, $($field)*}
        )
    );
    (parent: $parent:expr, $($arg:tt)+) => (
        $crate::event!(
            target: module_path!(),
            parent: $parent,
            $crate::Level::WARN,
            {},
            $($arg)+
        )
    );

    // ...
    ({ $($field:tt)+ }, $($arg:tt)+ ) => (
        $crate::event!(
            target: module_path!(),
            $crate::Level::WARN,
            { $($field)+ },
            $($arg)+
        )
    );
    ($($k:ident).+ = $($field:tt)*) => (
        $crate::event!(
            target: module_path!(),
            $crate::Level::WARN,
            { $($k).+ = $($field)*}
        )
    );
    (?$($k:ident).+ = $($field:tt)*) => (
        $crate::event!(
            target: module_path!(),
            $crate::Level::WARN,
            { ?$($k).+ = $($field)*}
        )
    );
    (%$($k:ident).+ = $($field:tt)*) => (
        $crate::event!(
            target: module_path!(),
            $crate::Level::WARN,
            { %$($k).+ = $($field)*}
        )
    );
    ($($k:ident).+, $($field:tt)*) => (
        $crate::event!(
            target: module_path!(),
            $crate::Level::WARN,
            { $($k).+, $($field)*}
        )
    );
    (?$($k:ident).+, $($field:tt)*) => (
        $crate::event!(
            target: module_path!(),
            $crate::Level::WARN,
            { ?$($k).+, $($field)*}
        )
    );
    (%$($k:ident).+, $($field:tt)*) => (
        $crate::event!(
            target: module_path!(),
            $crate::Level::WARN,
            { %$($k).+, $($field)*}
        )
    );
    (?$($k:ident).+) => (
        $crate::event!(
            target: module_path!(),
            $crate::Level::WARN,
            { ?$($k).+ }
        )
    );
    (%$($k:ident).+) => (
        $crate::event!(
            target: module_path!(),
            $crate::Level::WARN,
            { %$($k).+ }
        )
    );
    ($($k:ident).+) => (
        $crate::event!(
            target: module_path!(),
            $crate::Level::WARN,
            { $($k).+ }
        )
    );
    ($($arg:tt)+) => (
        $crate::event!(
            target: module_path!(),
            $crate::Level::WARN,
            $($arg)+
        )
    );
}

/// Constructs an event at the error level.
///
/// This functions similarly to the [`event!`] macro. See [the top-level
/// documentation][lib] for details on the syntax accepted by
/// this macro.
///
/// [`event!`]: crate::event!
/// [lib]: crate#using-the-macros
///
/// # Examples
///
/// ```rust
/// use tracing::error;
/// # fn main() {
///
/// let (err_info, port) = ("No connection", 22);
///
/// error!(port, error = %err_info);
/// error!(target: "app_events", "App Error: {}", err_info);
/// error!({ info = err_info }, "error on port: {}", port);
/// error!(name: "invalid_input", "Invalid input: {}", err_info);
/// # }
/// ```
#[macro_export]
macro_rules! error {
    // Name / target / parent.
    (name: $name:expr, target: $target:expr, parent: $parent:expr, { $($field:tt)* }, $($arg:tt)* ) => (
        $crate::event!(name: $name, target: $target, parent: $parent, $crate::Level::ERROR, { $($field)* }, $($arg)*)
    );
    (name: $name:expr, target: $target:expr, parent: $parent:expr, $($k:ident).+ $($field:tt)* ) => (
        $crate::event!(name: $name, target: $target, parent: $parent, $crate::Level::ERROR, { $($k).+ $($field)* })
    );
    (name: $name:expr, target: $target:expr, parent: $parent:expr, ?$($k:ident).+ $($field:tt)* ) => (
        $crate::event!(name: $name, target: $target, parent: $parent, $crate::Level::ERROR, { ?$($k).+ $($field)* })
    );
    (name: $name:expr, target: $target:expr, parent: $parent:expr, %$($k:ident).+ $($field:tt)* ) => (
        $crate::event!(name: $name, target: $target, parent: $parent, $crate::Level::ERROR, { %$($k).+ $($field)* })
    );
    (name: $name:expr, target: $target:expr, parent: $parent:expr, $($arg:tt)+ ) => (
        $crate::event!(name: $name, target: $target, parent: $parent, $crate::Level::ERROR, {}, $($arg)+)
    );

    // Name / target.
    (name: $name:expr, target: $target:expr, { $($field:tt)* }, $($arg:tt)* ) => (
        $crate::event!(name: $name, target: $target, $crate::Level::ERROR, { $($field)* }, $($arg)*)
    );
    (name: $name:expr, target: $target:expr, $($k:ident).+ $($field:tt)* ) => (
        $crate::event!(name: $name, target: $target, $crate::Level::ERROR, { $($k).+ $($field)* })
    );
    (name: $name:expr, target: $target:expr, ?$($k:ident).+ $($field:tt)* ) => (
        $crate::event!(name: $name, target: $target, $crate::Level::ERROR, { ?$($k).+ $($field)* })
    );
    (name: $name:expr, target: $target:expr, %$($k:ident).+ $($field:tt)* ) => (
        $crate::event!(name: $name, target: $target, $crate::Level::ERROR, { %$($k).+ $($field)* })
    );
    (name: $name:expr, target: $target:expr, $($arg:tt)+ ) => (
        $crate::event!(name: $name, target: $target, $crate::Level::ERROR, {}, $($arg)+)
    );

    // Target / parent.
    (target: $target:expr, parent: $parent:expr, { $($field:tt)* }, $($arg:tt)* ) => (
        $crate::event!(target: $target, parent: $parent, $crate::Level::ERROR, { $($field)* }, $($arg)*)
    );
    (target: $target:expr, parent: $parent:expr, $($k:ident).+ $($field:tt)* ) => (
        $crate::event!(target: $target, parent: $parent, $crate::Level::ERROR, { $($k).+ $($field)* })
    );
    (target: $target:expr, parent: $parent:expr, ?$($k:ident).+ $($field:tt)* ) => (
        $crate::event!(target: $target, parent: $parent, $crate::Level::ERROR, { ?$($k).+ $($field)* })
    );
    (target: $target:expr, parent: $parent:expr, %$($k:ident).+ $($field:tt)* ) => (
        $crate::event!(target: $target, parent: $parent, $crate::Level::ERROR, { %$($k).+ $($field)* })
    );
    (target: $target:expr, parent: $parent:expr, $($arg:tt)+ ) => (
        $crate::event!(target: $target, parent: $parent, $crate::Level::ERROR, {}, $($arg)+)
    );

    // Name / parent.
    (name: $name:expr, parent: $parent:expr, { $($field:tt)* }, $($arg:tt)* ) => (
        $crate::event!(name: $name, parent: $parent, $crate::Level::ERROR, { $($field)* }, $($arg)*)
    );
    (name: $name:expr, parent: $parent:expr, $($k:ident).+ $($field:tt)* ) => (
        $crate::event!(name: $name, parent: $parent, $crate::Level::ERROR, { $($k).+ $($field)* })
    );
    (name: $name:expr, parent: $parent:expr, ?$($k:ident).+ $($field:tt)* ) => (
        $crate::event!(name: $name, parent: $parent, $crate::Level::ERROR, { ?$($k).+ $($field)* })
    );
    (name: $name:expr, parent: $parent:expr, %$($k:ident).+ $($field:tt)* ) => (
        $crate::event!(name: $name, parent: $parent, $crate::Level::ERROR, { %$($k).+ $($field)* })
    );
    (name: $name:expr, parent: $parent:expr, $($arg:tt)+ ) => (
        $crate::event!(name: $name, parent: $parent, $crate::Level::ERROR, {}, $($arg)+)
    );

    // Name.
    (name: $name:expr, { $($field:tt)* }, $($arg:tt)* ) => (
        $crate::event!(name: $name, $crate::Level::ERROR, { $($field)* }, $($arg)*)
    );
    (name: $name:expr, $($k:ident).+ $($field:tt)* ) => (
        $crate::event!(name: $name, $crate::Level::ERROR, { $($k).+ $($field)* })
    );
    (name: $name:expr, ?$($k:ident).+ $($field:tt)* ) => (
        $crate::event!(name: $name, $crate::Level::ERROR, { ?$($k).+ $($field)* })
    );
    (name: $name:expr, %$($k:ident).+ $($field:tt)* ) => (
        $crate::event!(name: $name, $crate::Level::ERROR, { %$($k).+ $($field)* })
    );
    (name: $name:expr, $($arg:tt)+ ) => (
        $crate::event!(name: $name, $crate::Level::ERROR, {}, $($arg)+)
    );

    // Target.
    (target: $target:expr, { $($field:tt)* }, $($arg:tt)* ) => (
        $crate::event!(target: $target, $crate::Level::ERROR, { $($field)* }, $($arg)*)
    );
    (target: $target:expr, $($k:ident).+ $($field:tt)* ) => (
        $crate::event!(target: $target, $crate::Level::ERROR, { $($k).+ $($field)* })
    );
    (target: $target:expr, ?$($k:ident).+ $($field:tt)* ) => (
        $crate::event!(target: $target, $crate::Level::ERROR, { ?$($k).+ $($field)* })
    );
    (target: $target:expr, %$($k:ident).+ $($field:tt)* ) => (
        $crate::event!(target: $target, $crate::Level::ERROR, { %$($k).+ $($field)* })
    );
    (target: $target:expr, $($arg:tt)+ ) => (
        $crate::event!(target: $target, $crate::Level::ERROR, {}, $($arg)+)
    );

    // Parent.
    (parent: $parent:expr, { $($field:tt)+ }, $($arg:tt)+ ) => (
        $crate::event!(
            target: module_path!(),
            parent: $parent,
            $crate::Level::ERROR,
            { $($field)+ },
            $($arg)+
        )
    );
    (parent: $parent:expr, $($k:ident).+ = $($field:tt)*) => (
        $crate::event!(
            target: module_path!(),
            parent: $parent,
            $crate::Level::ERROR,
            { $($k).+ = $($field)*}
        )
    );
    (parent: $parent:expr, ?$($k:ident).+ = $($field:tt)*) => (
        $crate::event!(
            target: module_path!(),
            parent: $parent,
            $crate::Level::ERROR,
            { ?$($k).+ = $($field)*}
        )
    );
    (parent: $parent:expr, %$($k:ident).+ = $($field:tt)*) => (
        $crate::event!(
            target: module_path!(),
            parent: $parent,
            $crate::Level::ERROR,
            { %$($k).+ = $($field)*}
        )
    );
    (parent: $parent:expr, $($k:ident).+, $($field:tt)*) => (
        $crate::event!(
            target: module_path!(),
            parent: $parent,
            $crate::Level::ERROR,
            { $($k).+, $($field)*}
        )
    );
    (parent: $parent:expr, ?$($k:ident).+, $($field:tt)*) => (
        $crate::event!(
            target: module_path!(),
            parent: $parent,
            $crate::Level::ERROR,
            { ?$($k).+, $($field)*}
        )
    );
    (parent: $parent:expr, %$($k:ident).+, $($field:tt)*) => (
        $crate::event!(
            target: module_path!(),
            parent: $parent,
            $crate::Level::ERROR,
            { %$($k).+, $($field)*}
        )
    );
    (parent: $parent:expr, $($arg:tt)+) => (
        $crate::event!(
            target: module_path!(),
            parent: $parent,
            $crate::Level::ERROR,
            {},
            $($arg)+
        )
    );

    // ...
    ({ $($field:tt)+ }, $($arg:tt)+ ) => (
        $crate::event!(
            target: module_path!(),
            $crate::Level::ERROR,
            { $($field)+ },
            $($arg)+
        )
    );
    ($($k:ident).+ = $($field:tt)*) => (
        $crate::event!(
            target: module_path!(),
            $crate::Level::ERROR,
            { $($k).+ = $($field)*}
        )
    );
    (?$($k:ident).+ = $($field:tt)*) => (
        $crate::event!(
            target: module_path!(),
            $crate::Level::ERROR,
            { ?$($k).+ = $($field)*}
        )
    );
    (%$($k:ident).+ = $($field:tt)*) => (
        $crate::event!(
            target: module_path!(),
            $crate::Level::ERROR,
            { %$($k).+ = $($field)*}
        )
    );
    ($($k:ident).+, $($field:tt)*) => (
        $crate::event!(
            target: module_path!(),
            $crate::Level::ERROR,
            { $($k).+, $($field)*}
        )
    );
    (?$($k:ident).+, $($field:tt)*) => (
        $crate::event!(
            target: module_path!(),
            $crate::Level::ERROR,
            { ?$($k).+, $($field)*}
        )
    );
    (%$($k:ident).+, $($field:tt)*) => (
        $crate::event!(
            target: module_path!(),
            $crate::Level::ERROR,
            { %$($k).+, $($field)*}
        )
    );
    (?$($k:ident).+) => (
        $crate::event!(
            target: module_path!(),
            $crate::Level::ERROR,
            { ?$($k).+ }
        )
    );
    (%$($k:ident).+) => (
        $crate::event!(
            target: module_path!(),
            $crate::Level::ERROR,
            { %$($k).+ }
        )
    );
    ($($k:ident).+) => (
        $crate::event!(
            target: module_path!(),
            $crate::Level::ERROR,
            { $($k).+ }
        )
    );
    ($($arg:tt)+) => (
        $crate::event!(
            target: module_path!(),
            $crate::Level::ERROR,
            $($arg)+
        )
    );
}

/// Constructs a new static callsite for a span or event.
#[doc(hidden)]
#[macro_export]
macro_rules! callsite {
    (name: $name:expr, kind: $kind:expr, fields: $($fields:tt)*) => {{
        $crate::callsite! {
            name: $name,
            kind: $kind,
            target: module_path!(),
            level: $crate::Level::TRACE,
            fields: $($fields)*
        }
    }};
    (
        name: $name:expr,
        kind: $kind:expr,
        level: $lvl:expr,
        fields: $($fields:tt)*
    ) => {{
        $crate::callsite! {
            name: $name,
            kind: $kind,
            target: module_path!(),
            level: $lvl,
            fields: $($fields)*
        }
    }};
    (
        name: $name:expr,
        kind: $kind:expr,
        target: $target:expr,
        level: $lvl:expr,
        fields: $($fields:tt)*
    ) => {{
        static META: $crate::Metadata<'static> = {
            $crate::metadata! {
                name: $name,
                target: $target,
                level: $lvl,
                fields: $crate::fieldset!( $($fields)* ),
                callsite: &__CALLSITE,
                kind: $kind,
            }
        };
        static __CALLSITE: $crate::callsite::DefaultCallsite = $crate::callsite::DefaultCallsite::new(&META);
        __CALLSITE.register();
        &__CALLSITE
    }};
}

/// Constructs a new static callsite for a span or event.
#[doc(hidden)]
#[macro_export]
macro_rules! callsite2 {
    (name: $name:expr, kind: $kind:expr, fields: $($fields:tt)*) => {{
        $crate::callsite2! {
            name: $name,
            kind: $kind,
            target: module_path!(),
            level: $crate::Level::TRACE,
            fields: $($fields)*
        }
    }};
    (
        name: $name:expr,
        kind: $kind:expr,
        level: $lvl:expr,
        fields: $($fields:tt)*
    ) => {{
        $crate::callsite2! {
            name: $name,
            kind: $kind,
            target: module_path!(),
            level: $lvl,
            fields: $($fields)*
        }
    }};
    (
        name: $name:expr,
        kind: $kind:expr,
        target: $target:expr,
        level: $lvl:expr,
        fields: $($fields:tt)*
    ) => {{
        static META: $crate::Metadata<'static> = {
            $crate::metadata! {
                name: $name,
                target: $target,
                level: $lvl,
                fields: $crate::fieldset!( $($fields)* ),
                callsite: &__CALLSITE,
                kind: $kind,
            }
        };
        $crate::callsite::DefaultCallsite::new(&META)
    }};
}

#[macro_export]
// TODO: determine if this ought to be public API?`
#[doc(hidden)]
macro_rules! level_enabled {
    ($lvl:expr) => {
        $lvl <= $crate::level_filters::STATIC_MAX_LEVEL
            && $lvl <= $crate::level_filters::LevelFilter::current()
    };
}

#[doc(hidden)]
#[macro_export]
macro_rules! valueset {

    // === base case ===
    (@ { $(,)* $($val:expr),* $(,)* }, $next:expr $(,)*) => {
        &[ $($val),* ]
    };

    // === recursive case (more tts) ===

    // TODO(#1138): determine a new syntax for uninitialized span fields, and
    // re-enable this.
    // (@{ $(,)* $($out:expr),* }, $next:expr, $($k:ident).+ = _, $($rest:tt)*) => {
    //     $crate::valueset!(@ { $($out),*, (&$next, None) }, $next, $($rest)*)
    // };
    (@ { $(,)* $($out:expr),* }, $next:expr, $($k:ident).+ = ?$val:expr, $($rest:tt)*) => {
        $crate::valueset!(
            @ { $($out),*, (&$next, $crate::__macro_support::Option::Some(&debug(&$val) as &dyn Value)) },
            $next,
            $($rest)*
        )
    };
    (@ { $(,)* $($out:expr),* }, $next:expr, $($k:ident).+ = %$val:expr, $($rest:tt)*) => {
        $crate::valueset!(
            @ { $($out),*, (&$next, $crate::__macro_support::Option::Some(&display(&$val) as &dyn Value)) },
            $next,
            $($rest)*
        )
    };
    (@ { $(,)* $($out:expr),* }, $next:expr, $($k:ident).+ = $val:expr, $($rest:tt)*) => {
        $crate::valueset!(
            @ { $($out),*, (&$next, $crate::__macro_support::Option::Some(&$val as &dyn Value)) },
            $next,
            $($rest)*
        )
    };
    (@ { $(,)* $($out:expr),* }, $next:expr, $($k:ident).+, $($rest:tt)*) => {
        $crate::valueset!(
            @ { $($out),*, (&$next, $crate::__macro_support::Option::Some(&$($k).+ as &dyn Value)) },
            $next,
            $($rest)*
        )
    };
    (@ { $(,)* $($out:expr),* }, $next:expr, ?$($k:ident).+, $($rest:tt)*) => {
        $crate::valueset!(
            @ { $($out),*, (&$next, $crate::__macro_support::Option::Some(&debug(&$($k).+) as &dyn Value)) },
            $next,
            $($rest)*
        )
    };
    (@ { $(,)* $($out:expr),* }, $next:expr, %$($k:ident).+, $($rest:tt)*) => {
        $crate::valueset!(
            @ { $($out),*, (&$next, $crate::__macro_support::Option::Some(&display(&$($k).+) as &dyn Value)) },
            $next,
            $($rest)*
        )
    };
    (@ { $(,)* $($out:expr),* }, $next:expr, $($k:ident).+ = ?$val:expr) => {
        $crate::valueset!(
            @ { $($out),*, (&$next, $crate::__macro_support::Option::Some(&debug(&$val) as &dyn Value)) },
            $next,
        )
    };
    (@ { $(,)* $($out:expr),* }, $next:expr, $($k:ident).+ = %$val:expr) => {
        $crate::valueset!(
            @ { $($out),*, (&$next, $crate::__macro_support::Option::Some(&display(&$val) as &dyn Value)) },
            $next,
        )
    };
    (@ { $(,)* $($out:expr),* }, $next:expr, $($k:ident).+ = $val:expr) => {
        $crate::valueset!(
            @ { $($out),*, (&$next, $crate::__macro_support::Option::Some(&$val as &dyn Value)) },
            $next,
        )
    };
    (@ { $(,)* $($out:expr),* }, $next:expr, $($k:ident).+) => {
        $crate::valueset!(
            @ { $($out),*, (&$next, $crate::__macro_support::Option::Some(&$($k).+ as &dyn Value)) },
            $next,
        )
    };
    (@ { $(,)* $($out:expr),* }, $next:expr, ?$($k:ident).+) => {
        $crate::valueset!(
            @ { $($out),*, (&$next, $crate::__macro_support::Option::Some(&debug(&$($k).+) as &dyn Value)) },
            $next,
        )
    };
    (@ { $(,)* $($out:expr),* }, $next:expr, %$($k:ident).+) => {
        $crate::valueset!(
            @ { $($out),*, (&$next, $crate::__macro_support::Option::Some(&display(&$($k).+) as &dyn Value)) },
            $next,
        )
    };

    // Handle literal names
    (@ { $(,)* $($out:expr),* }, $next:expr, $k:literal = ?$val:expr, $($rest:tt)*) => {
        $crate::valueset!(
            @ { $($out),*, (&$next, $crate::__macro_support::Option::Some(&debug(&$val) as &dyn Value)) },
            $next,
            $($rest)*
        )
    };
    (@ { $(,)* $($out:expr),* }, $next:expr, $k:literal = %$val:expr, $($rest:tt)*) => {
        $crate::valueset!(
            @ { $($out),*, (&$next, $crate::__macro_support::Option::Some(&display(&$val) as &dyn Value)) },
            $next,
            $($rest)*
        )
    };
    (@ { $(,)* $($out:expr),* }, $next:expr, $k:literal = $val:expr, $($rest:tt)*) => {
        $crate::valueset!(
            @ { $($out),*, (&$next, $crate::__macro_support::Option::Some(&$val as &dyn Value)) },
            $next,
            $($rest)*
        )
    };
    (@ { $(,)* $($out:expr),* }, $next:expr, $k:literal = ?$val:expr) => {
        $crate::valueset!(
            @ { $($out),*, (&$next, $crate::__macro_support::Option::Some(&debug(&$val) as &dyn Value)) },
            $next,
        )
    };
    (@ { $(,)* $($out:expr),* }, $next:expr, $k:literal = %$val:expr) => {
        $crate::valueset!(
            @ { $($out),*, (&$next, $crate::__macro_support::Option::Some(&display(&$val) as &dyn Value)) },
            $next,
        )
    };
    (@ { $(,)* $($out:expr),* }, $next:expr, $k:literal = $val:expr) => {
        $crate::valueset!(
            @ { $($out),*, (&$next, $crate::__macro_support::Option::Some(&$val as &dyn Value)) },
            $next,
        )
    };

    // Handle constant names
    (@ { $(,)* $($out:expr),* }, $next:expr, { $k:expr } = ?$val:expr, $($rest:tt)*) => {
        $crate::valueset!(
            @ { $($out),*, (&$next, Some(&debug(&$val) as &dyn Value)) },
            $next,
            $($rest)*
        )
    };
    (@ { $(,)* $($out:expr),* }, $next:expr, { $k:expr } = %$val:expr, $($rest:tt)*) => {
        $crate::valueset!(
            @ { $($out),*, (&$next, Some(&display(&$val) as &dyn Value)) },
            $next,
            $($rest)*
        )
    };
    (@ { $(,)* $($out:expr),* }, $next:expr, { $k:expr } = $val:expr, $($rest:tt)*) => {
        $crate::valueset!(
            @ { $($out),*, (&$next, Some(&$val as &dyn Value)) },
            $next,
            $($rest)*
        )
    };
    (@ { $(,)* $($out:expr),* }, $next:expr, { $k:expr } = ?$val:expr) => {
        $crate::valueset!(
            @ { $($out),*, (&$next, Some(&debug(&$val) as &dyn Value)) },
            $next,
        )
    };
    (@ { $(,)* $($out:expr),* }, $next:expr, { $k:expr } = %$val:expr) => {
        $crate::valueset!(
            @ { $($out),*, (&$next, Some(&display(&$val) as &dyn Value)) },
            $next,
        )
    };
    (@ { $(,)* $($out:expr),* }, $next:expr, { $k:expr } = $val:expr) => {
        $crate::valueset!(
            @ { $($out),*, (&$next, Some(&$val as &dyn Value)) },
            $next,
        )
    };

    // Remainder is unparsable, but exists --- must be format args!
    (@ { $(,)* $($out:expr),* }, $next:expr, $($rest:tt)+) => {
        $crate::valueset!(@ { (&$next, $crate::__macro_support::Option::Some(&$crate::__macro_support::format_args!($($rest)+) as &dyn Value)), $($out),* }, $next, )
    };

    // === entry ===
    ($fields:expr, $($kvs:tt)+) => {
        {
            #[allow(unused_imports)]
            use $crate::field::{debug, display, Value};
            let mut iter = $fields.iter();
            $fields.value_set($crate::valueset!(
                @ { },
                $crate::__macro_support::Iterator::next(&mut iter).expect("FieldSet corrupted (this is a bug)"),
                $($kvs)+
            ))
        }
    };
    ($fields:expr,) => {
        {
            $fields.value_set(&[])
        }
    };
}

#[doc(hidden)]
#[macro_export]
macro_rules! fieldset {
    // == base case ==
    (@ { $(,)* $($out:expr),* $(,)* } $(,)*) => {
        &[ $($out),* ]
    };

    // == recursive cases (more tts) ==
    (@ { $(,)* $($out:expr),* } $($k:ident).+ = ?$val:expr, $($rest:tt)*) => {
        $crate::fieldset!(@ { $($out),*, $crate::__tracing_stringify!($($k).+) } $($rest)*)
    };
    (@ { $(,)* $($out:expr),* } $($k:ident).+ = %$val:expr, $($rest:tt)*) => {
        $crate::fieldset!(@ { $($out),*, $crate::__tracing_stringify!($($k).+) } $($rest)*)
    };
    (@ { $(,)* $($out:expr),* } $($k:ident).+ = $val:expr, $($rest:tt)*) => {
        $crate::fieldset!(@ { $($out),*, $crate::__tracing_stringify!($($k).+) } $($rest)*)
    };
    // TODO(#1138): determine a new syntax for uninitialized span fields, and
    // re-enable this.
    // (@ { $($out:expr),* } $($k:ident).+ = _, $($rest:tt)*) => {
    //     $crate::fieldset!(@ { $($out),*, $crate::__tracing_stringify!($($k).+) } $($rest)*)
    // };
    (@ { $(,)* $($out:expr),* } ?$($k:ident).+, $($rest:tt)*) => {
        $crate::fieldset!(@ { $($out),*, $crate::__tracing_stringify!($($k).+) } $($rest)*)
    };
    (@ { $(,)* $($out:expr),* } %$($k:ident).+, $($rest:tt)*) => {
        $crate::fieldset!(@ { $($out),*, $crate::__tracing_stringify!($($k).+) } $($rest)*)
    };
    (@ { $(,)* $($out:expr),* } $($k:ident).+, $($rest:tt)*) => {
        $crate::fieldset!(@ { $($out),*, $crate::__tracing_stringify!($($k).+) } $($rest)*)
    };

    // Handle literal names
    (@ { $(,)* $($out:expr),* } $k:literal = ?$val:expr, $($rest:tt)*) => {
        $crate::fieldset!(@ { $($out),*, $k } $($rest)*)
    };
    (@ { $(,)* $($out:expr),* } $k:literal = %$val:expr, $($rest:tt)*) => {
        $crate::fieldset!(@ { $($out),*, $k } $($rest)*)
    };
    (@ { $(,)* $($out:expr),* } $k:literal = $val:expr, $($rest:tt)*) => {
        $crate::fieldset!(@ { $($out),*, $k } $($rest)*)
    };

    // Handle constant names
    (@ { $(,)* $($out:expr),* } { $k:expr } = ?$val:expr, $($rest:tt)*) => {
        $crate::fieldset!(@ { $($out),*, $k } $($rest)*)
    };
    (@ { $(,)* $($out:expr),* } { $k:expr } = %$val:expr, $($rest:tt)*) => {
        $crate::fieldset!(@ { $($out),*, $k } $($rest)*)
    };
    (@ { $(,)* $($out:expr),* } { $k:expr } = $val:expr, $($rest:tt)*) => {
        $crate::fieldset!(@ { $($out),*, $k } $($rest)*)
    };

    // Remainder is unparsable, but exists --- must be format args!
    (@ { $(,)* $($out:expr),* } $($rest:tt)+) => {
        $crate::fieldset!(@ { "message", $($out),*, })
    };

    // == entry ==
    ($($args:tt)*) => {
        $crate::fieldset!(@ { } $($args)*,)
    };

}

#[cfg(feature = "log")]
#[doc(hidden)]
#[macro_export]
macro_rules! level_to_log {
    ($level:expr) => {
        match $level {
            $crate::Level::ERROR => $crate::log::Level::Error,
            $crate::Level::WARN => $crate::log::Level::Warn,
            $crate::Level::INFO => $crate::log::Level::Info,
            $crate::Level::DEBUG => $crate::log::Level::Debug,
            _ => $crate::log::Level::Trace,
        }
    };
}

#[doc(hidden)]
#[macro_export]
macro_rules! __tracing_stringify {
    ($($t:tt)*) => {
        stringify!($($t)*)
    };
}

#[cfg(not(feature = "log"))]
#[doc(hidden)]
#[macro_export]
macro_rules! __tracing_log {
    ($level:expr, $callsite:expr, $value_set:expr) => {};
}

#[cfg(feature = "log")]
#[doc(hidden)]
#[macro_export]
macro_rules! __tracing_log {
    ($level:expr, $callsite:expr, $value_set:expr) => {
        $crate::if_log_enabled! { $level, {
            use $crate::log;
            let level = $crate::level_to_log!($level);
            if level <= log::max_level() {
                let meta = $callsite.metadata();
                let log_meta = log::Metadata::builder()
                    .level(level)
                    .target(meta.target())
                    .build();
                let logger = log::logger();
                if logger.enabled(&log_meta) {
                    $crate::__macro_support::__tracing_log(meta, logger, log_meta, $value_set)
                }
            }
        }}
    };
}

#[cfg(not(feature = "log"))]
#[doc(hidden)]
#[macro_export]
macro_rules! if_log_enabled {
    ($lvl:expr, $e:expr;) => {
        $crate::if_log_enabled! { $lvl, $e }
    };
    ($lvl:expr, $if_log:block) => {
        $crate::if_log_enabled! { $lvl, $if_log else {} }
    };
    ($lvl:expr, $if_log:block else $else_block:block) => {
        $else_block
    };
}

#[cfg(all(feature = "log", not(feature = "log-always")))]
#[doc(hidden)]
#[macro_export]
macro_rules! if_log_enabled {
    ($lvl:expr, $e:expr;) => {
        $crate::if_log_enabled! { $lvl, $e }
    };
    ($lvl:expr, $if_log:block) => {
        $crate::if_log_enabled! { $lvl, $if_log else {} }
    };
    ($lvl:expr, $if_log:block else $else_block:block) => {
        if $crate::level_to_log!($lvl) <= $crate::log::STATIC_MAX_LEVEL {
            if !$crate::dispatcher::has_been_set() {
                $if_log
            } else {
                $else_block
            }
        } else {
            $else_block
        }
    };
}

#[cfg(all(feature = "log", feature = "log-always"))]
#[doc(hidden)]
#[macro_export]
macro_rules! if_log_enabled {
    ($lvl:expr, $e:expr;) => {
        $crate::if_log_enabled! { $lvl, $e }
    };
    ($lvl:expr, $if_log:block) => {
        $crate::if_log_enabled! { $lvl, $if_log else {} }
    };
    ($lvl:expr, $if_log:block else $else_block:block) => {
        if $crate::level_to_log!($lvl) <= $crate::log::STATIC_MAX_LEVEL {
            #[allow(unused_braces)]
            $if_log
        } else {
            $else_block
        }
    };
}
