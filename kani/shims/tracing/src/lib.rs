//! A scoped, structured logging and diagnostics system.
//!
//! # Overview
//!
//! `tracing` is a framework for instrumenting Rust programs to collect
//! structured, event-based diagnostic information.
//!
//! In asynchronous systems like Tokio, interpreting traditional log messages can
//! often be quite challenging. Since individual tasks are multiplexed on the same
//! thread, associated events and log lines are intermixed making it difficult to
//! trace the logic flow. `tracing` expands upon logging-style diagnostics by
//! allowing libraries and applications to record structured events with additional
//! information about *temporality* and *causality* — unlike a log message, a span
//! in `tracing` has a beginning and end time, may be entered and exited by the
//! flow of execution, and may exist within a nested tree of similar spans. In
//! addition, `tracing` spans are *structured*, with the ability to record typed
//! data as well as textual messages.
//!
//! The `tracing` crate provides the APIs necessary for instrumenting libraries
//! and applications to emit trace data.
//!
//! *Compiler support: [requires `rustc` 1.63+][msrv]*
//!
//! [msrv]: #supported-rust-versions
//! # Core Concepts
//!
//! The core of `tracing`'s API is composed of _spans_, _events_ and
//! _subscribers_. We'll cover these in turn.
//!
//! ## Spans
//!
//! To record the flow of execution through a program, `tracing` introduces the
//! concept of [spans]. Unlike a log line that represents a _moment in
//! time_, a span represents a _period of time_ with a beginning and an end. When a
//! program begins executing in a context or performing a unit of work, it
//! _enters_ that context's span, and when it stops executing in that context,
//! it _exits_ the span. The span in which a thread is currently executing is
//! referred to as that thread's _current_ span.
//!
//! For example:
//! ```
//! use tracing::{span, Level};
//! # fn main() {
//! let span = span!(Level::TRACE, "my_span");
//! // `enter` returns a RAII guard which, when dropped, exits the span. this
//! // indicates that we are in the span for the current lexical scope.
//! let _enter = span.enter();
//! // perform some work in the context of `my_span`...
//! # }
//!```
//!
//! The [`span` module][span]'s documentation provides further details on how to
//! use spans.
//!
//! <div class="example-wrap" style="display:inline-block"><pre class="compile_fail" style="white-space:normal;font:inherit;">
//!
//!  **Warning**: In asynchronous code that uses async/await syntax,
//!  `Span::enter` may produce incorrect traces if the returned drop
//!  guard is held across an await point. See
//!  [the method documentation][Span#in-asynchronous-code] for details.
//!
//! </pre></div>
//!
//! ## Events
//!
//! An [`Event`] represents a _moment_ in time. It signifies something that
//! happened while a trace was being recorded. `Event`s are comparable to the log
//! records emitted by unstructured logging code, but unlike a typical log line,
//! an `Event` may occur within the context of a span.
//!
//! For example:
//! ```
//! use tracing::{event, span, Level};
//!
//! # fn main() {
//! // records an event outside of any span context:
//! event!(Level::INFO, "something happened");
//!
//! let span = span!(Level::INFO, "my_span");
//! let _guard = span.enter();
//!
//! // records an event within "my_span".
//! event!(Level::DEBUG, "something happened inside my_span");
//! # }
//!```
//!
//! In general, events should be used to represent points in time _within_ a
//! span — a request returned with a given status code, _n_ new items were
//! taken from a queue, and so on.
//!
//! The [`Event` struct][`Event`] documentation provides further details on using
//! events.
//!
//! ## Subscribers
//!
//! As `Span`s and `Event`s occur, they are recorded or aggregated by
//! implementations of the [`Subscriber`] trait. `Subscriber`s are notified
//! when an `Event` takes place and when a `Span` is entered or exited. These
//! notifications are represented by the following `Subscriber` trait methods:
//!
//! + [`event`][Subscriber::event], called when an `Event` takes place,
//! + [`enter`], called when execution enters a `Span`,
//! + [`exit`], called when execution exits a `Span`
//!
//! In addition, subscribers may implement the [`enabled`] function to _filter_
//! the notifications they receive based on [metadata] describing each `Span`
//! or `Event`. If a call to `Subscriber::enabled` returns `false` for a given
//! set of metadata, that `Subscriber` will *not* be notified about the
//! corresponding `Span` or `Event`. For performance reasons, if no currently
//! active subscribers express interest in a given set of metadata by returning
//! `true`, then the corresponding `Span` or `Event` will never be constructed.
//!
//! # Usage
//!
//! First, add this to your `Cargo.toml`:
//!
//! ```toml
//! [dependencies]
//! tracing = "0.1"
//! ```
//!
//! ## Recording Spans and Events
//!
//! Spans and events are recorded using macros.
//!
//! ### Spans
//!
//! The [`span!`] macro expands to a [`Span` struct][`Span`] which is used to
//! record a span. The [`Span::enter`] method on that struct records that the
//! span has been entered, and returns a [RAII] guard object, which will exit
//! the span when dropped.
//!
//! For example:
//!
//! ```rust
//! use tracing::{span, Level};
//! # fn main() {
//! // Construct a new span named "my span" with trace log level.
//! let span = span!(Level::TRACE, "my span");
//!
//! // Enter the span, returning a guard object.
//! let _enter = span.enter();
//!
//! // Any trace events that occur before the guard is dropped will occur
//! // within the span.
//!
//! // Dropping the guard will exit the span.
//! # }
//! ```
//!
//! The [`#[instrument]`][instrument] attribute provides an easy way to
//! add `tracing` spans to functions. A function annotated with `#[instrument]`
//! will create and enter a span with that function's name every time the
//! function is called, with arguments to that function will be recorded as
//! fields using `fmt::Debug`.
//!
//! For example:
//! ```ignore
//! # // this doctest is ignored because we don't have a way to say
//! # // that it should only be run with cfg(feature = "attributes")
//! use tracing::{Level, event, instrument};
//!
//! #[instrument]
//! pub fn my_function(my_arg: usize) {
//!     // This event will be recorded inside a span named `my_function` with the
//!     // field `my_arg`.
//!     event!(Level::INFO, "inside my_function!");
//!     // ...
//! }
//! # fn main() {}
//! ```
//!
//! For functions which don't have built-in tracing support and can't have
//! the `#[instrument]` attribute applied (such as from an external crate),
//! the [`Span` struct][`Span`] has a [`in_scope()` method][`in_scope`]
//! which can be used to easily wrap synchronous code in a span.
//!
//! For example:
//! ```rust
//! use tracing::info_span;
//!
//! # fn doc() -> Result<(), ()> {
//! # mod serde_json {
//! #    pub(crate) fn from_slice(buf: &[u8]) -> Result<(), ()> { Ok(()) }
//! # }
//! # let buf: [u8; 0] = [];
//! let json = info_span!("json.parse").in_scope(|| serde_json::from_slice(&buf))?;
//! # let _ = json; // suppress unused variable warning
//! # Ok(())
//! # }
//! ```
//!
//! You can find more examples showing how to use this crate [here][examples].
//!
//! [RAII]: https://github.com/rust-unofficial/patterns/blob/main/src/patterns/behavioural/RAII.md
//! [examples]: https://github.com/tokio-rs/tracing/tree/master/examples
//!
//! ### Events
//!
//! [`Event`]s are recorded using the [`event!`] macro:
//!
//! ```rust
//! # fn main() {
//! use tracing::{event, Level};
//! event!(Level::INFO, "something has happened!");
//! # }
//! ```
//!
//! ## Using the Macros
//!
//! The [`span!`] and [`event!`] macros as well as the `#[instrument]` attribute
//! use fairly similar syntax, with some exceptions.
//!
//! ### Configuring Attributes
//!
//! Both macros require a [`Level`] specifying the verbosity of the span or
//! event. Optionally, the, [target] and [parent span] may be overridden. If the
//! target and parent span are not overridden, they will default to the
//! module path where the macro was invoked and the current span (as determined
//! by the subscriber), respectively.
//!
//! For example:
//!
//! ```
//! # use tracing::{span, event, Level};
//! # fn main() {
//! span!(target: "app_spans", Level::TRACE, "my span");
//! event!(target: "app_events", Level::INFO, "something has happened!");
//! # }
//! ```
//! ```
//! # use tracing::{span, event, Level};
//! # fn main() {
//! let span = span!(Level::TRACE, "my span");
//! event!(parent: &span, Level::INFO, "something has happened!");
//! # }
//! ```
//!
//! The span macros also take a string literal after the level, to set the name
//! of the span (as above).  In the case of the event macros, the name of the event can
//! be overridden (the default is `event file:line`) using the `name:` specifier.
//!
//! ```
//! # use tracing::{span, event, Level};
//! # fn main() {
//! span!(Level::TRACE, "my span");
//! event!(name: "some_info", Level::INFO, "something has happened!");
//! # }
//! ```
//!
//! ### Recording Fields
//!
//! Structured fields on spans and events are specified using the syntax
//! `field_name = field_value`. Fields are separated by commas.
//!
//! ```
//! # use tracing::{event, Level};
//! # fn main() {
//! // records an event with two fields:
//! //  - "answer", with the value 42
//! //  - "question", with the value "life, the universe and everything"
//! event!(Level::INFO, answer = 42, question = "life, the universe, and everything");
//! # }
//! ```
//!
//! As shorthand, local variables may be used as field values without an
//! assignment, similar to [struct initializers]. For example:
//!
//! ```
//! # use tracing::{span, Level};
//! # fn main() {
//! let user = "ferris";
//!
//! span!(Level::TRACE, "login", user);
//! // is equivalent to:
//! span!(Level::TRACE, "login", user = user);
//! # }
//!```
//!
//! Field names can include dots, but should not be terminated by them:
//! ```
//! # use tracing::{span, Level};
//! # fn main() {
//! let user = "ferris";
//! let email = "ferris@rust-lang.org";
//! span!(Level::TRACE, "login", user, user.email = email);
//! # }
//!```
//!
//! Since field names can include dots, fields on local structs can be used
//! using the local variable shorthand:
//! ```
//! # use tracing::{span, Level};
//! # fn main() {
//! # struct User {
//! #    name: &'static str,
//! #    email: &'static str,
//! # }
//! let user = User {
//!     name: "ferris",
//!     email: "ferris@rust-lang.org",
//! };
//! // the span will have the fields `user.name = "ferris"` and
//! // `user.email = "ferris@rust-lang.org"`.
//! span!(Level::TRACE, "login", user.name, user.email);
//! # }
//!```
//!
//! Fields with names that are not Rust identifiers, or with names that are Rust reserved words,
//! may be created using quoted string literals. However, this may not be used with the local
//! variable shorthand.
//! ```
//! # use tracing::{span, Level};
//! # fn main() {
//! // records an event with fields whose names are not Rust identifiers
//! //  - "guid:x-request-id", containing a `:`, with the value "abcdef"
//! //  - "type", which is a reserved word, with the value "request"
//! span!(Level::TRACE, "api", "guid:x-request-id" = "abcdef", "type" = "request");
//! # }
//!```
//!
//! Constant expressions can also be used as field names. Constants
//! must be enclosed in curly braces (`{}`) to indicate that the *value*
//! of the constant is to be used as the field name, rather than the
//! constant's name. For example:
//! ```
//! # use tracing::{span, Level};
//! # fn main() {
//! const RESOURCE_NAME: &str = "foo";
//! // this span will have the field `foo = "some_id"`
//! span!(Level::TRACE, "get", { RESOURCE_NAME } = "some_id");
//! # }
//!```
//!
//! The `?` sigil is shorthand that specifies a field should be recorded using
//! its [`fmt::Debug`] implementation:
//! ```
//! # use tracing::{event, Level};
//! # fn main() {
//! #[derive(Debug)]
//! struct MyStruct {
//!     field: &'static str,
//! }
//!
//! let my_struct = MyStruct {
//!     field: "Hello world!"
//! };
//!
//! // `my_struct` will be recorded using its `fmt::Debug` implementation.
//! event!(Level::TRACE, greeting = ?my_struct);
//! // is equivalent to:
//! event!(Level::TRACE, greeting = tracing::field::debug(&my_struct));
//! # }
//! ```
//!
//! The `%` sigil operates similarly, but indicates that the value should be
//! recorded using its [`fmt::Display`] implementation:
//! ```
//! # use tracing::{event, Level};
//! # fn main() {
//! # #[derive(Debug)]
//! # struct MyStruct {
//! #     field: &'static str,
//! # }
//! #
//! # let my_struct = MyStruct {
//! #     field: "Hello world!"
//! # };
//! // `my_struct.field` will be recorded using its `fmt::Display` implementation.
//! event!(Level::TRACE, greeting = %my_struct.field);
//! // is equivalent to:
//! event!(Level::TRACE, greeting = tracing::field::display(&my_struct.field));
//! # }
//! ```
//!
//! The `%` and `?` sigils may also be used with local variable shorthand:
//!
//! ```
//! # use tracing::{event, Level};
//! # fn main() {
//! # #[derive(Debug)]
//! # struct MyStruct {
//! #     field: &'static str,
//! # }
//! #
//! # let my_struct = MyStruct {
//! #     field: "Hello world!"
//! # };
//! // `my_struct.field` will be recorded using its `fmt::Display` implementation.
//! event!(Level::TRACE, %my_struct.field);
//! # }
//! ```
//!
//! Additionally, a span may declare fields with the special value [`Empty`],
//! which indicates that that the value for that field does not currently exist
//! but may be recorded later. For example:
//!
//! ```
//! use tracing::{trace_span, field};
//!
//! // Create a span with two fields: `greeting`, with the value "hello world", and
//! // `parting`, without a value.
//! let span = trace_span!("my_span", greeting = "hello world", parting = field::Empty);
//!
//! // ...
//!
//! // Now, record a value for parting as well.
//! span.record("parting", &"goodbye world!");
//! ```
//!
//! Finally, events may also include human-readable messages, in the form of a
//! [format string][fmt] and (optional) arguments, **after** the event's
//! key-value fields. If a format string and arguments are provided,
//! they will implicitly create a new field named `message` whose value is the
//! provided set of format arguments.
//!
//! For example:
//!
//! ```
//! # use tracing::{event, Level};
//! # fn main() {
//! let question = "the ultimate question of life, the universe, and everything";
//! let answer = 42;
//! // records an event with the following fields:
//! // - `question.answer` with the value 42,
//! // - `question.tricky` with the value `true`,
//! // - "message", with the value "the answer to the ultimate question of life, the
//! //    universe, and everything is 42."
//! event!(
//!     Level::DEBUG,
//!     question.answer = answer,
//!     question.tricky = true,
//!     "the answer to {} is {}.", question, answer
//! );
//! # }
//! ```
//!
//! Specifying a formatted message in this manner does not allocate by default.
//!
//! [struct initializers]: https://doc.rust-lang.org/book/ch05-01-defining-structs.html#using-the-field-init-shorthand-when-variables-and-fields-have-the-same-name
//! [target]: Metadata::target
//! [parent span]: span::Attributes::parent
//! [determined contextually]: span::Attributes::is_contextual
//! [`fmt::Debug`]: std::fmt::Debug
//! [`fmt::Display`]: std::fmt::Display
//! [fmt]: std::fmt#usage
//! [`Empty`]: field::Empty
//!
//! ### Shorthand Macros
//!
//! `tracing` also offers a number of macros with preset verbosity levels.
//! The [`trace!`], [`debug!`], [`info!`], [`warn!`], and [`error!`] behave
//! similarly to the [`event!`] macro, but with the [`Level`] argument already
//! specified, while the corresponding [`trace_span!`], [`debug_span!`],
//! [`info_span!`], [`warn_span!`], and [`error_span!`] macros are the same,
//! but for the [`span!`] macro.
//!
//! These are intended both as a shorthand, and for compatibility with the [`log`]
//! crate (see the next section).
//!
//! [`span!`]: span!
//! [`event!`]: event!
//! [`trace!`]: trace!
//! [`debug!`]: debug!
//! [`info!`]: info!
//! [`warn!`]: warn!
//! [`error!`]: error!
//! [`trace_span!`]: trace_span!
//! [`debug_span!`]: debug_span!
//! [`info_span!`]: info_span!
//! [`warn_span!`]: warn_span!
//! [`error_span!`]: error_span!
//!
//! ### For `log` Users
//!
//! Users of the [`log`] crate should note that `tracing` exposes a set of
//! macros for creating `Event`s (`trace!`, `debug!`, `info!`, `warn!`, and
//! `error!`) which may be invoked with the same syntax as the similarly-named
//! macros from the `log` crate. Often, the process of converting a project to
//! use `tracing` can begin with a simple drop-in replacement.
//!
//! Let's consider the `log` crate's yak-shaving example:
//!
//! ```rust,ignore
//! use std::{error::Error, io};
//! use tracing::{debug, error, info, span, warn, Level};
//!
//! // the `#[tracing::instrument]` attribute creates and enters a span
//! // every time the instrumented function is called. The span is named after the
//! // the function or method. Parameters passed to the function are recorded as fields.
//! #[tracing::instrument]
//! pub fn shave(yak: usize) -> Result<(), Box<dyn Error + 'static>> {
//!     // this creates an event at the DEBUG level with two fields:
//!     // - `excitement`, with the key "excitement" and the value "yay!"
//!     // - `message`, with the key "message" and the value "hello! I'm gonna shave a yak."
//!     //
//!     // unlike other fields, `message`'s shorthand initialization is just the string itself.
//!     debug!(excitement = "yay!", "hello! I'm gonna shave a yak.");
//!     if yak == 3 {
//!         warn!("could not locate yak!");
//!         // note that this is intended to demonstrate `tracing`'s features, not idiomatic
//!         // error handling! in a library or application, you should consider returning
//!         // a dedicated `YakError`. libraries like snafu or thiserror make this easy.
//!         return Err(io::Error::new(io::ErrorKind::Other, "shaving yak failed!").into());
//!     } else {
//!         debug!("yak shaved successfully");
//!     }
//!     Ok(())
//! }
//!
//! pub fn shave_all(yaks: usize) -> usize {
//!     // Constructs a new span named "shaving_yaks" at the TRACE level,
//!     // and a field whose key is "yaks". This is equivalent to writing:
//!     //
//!     // let span = span!(Level::TRACE, "shaving_yaks", yaks = yaks);
//!     //
//!     // local variables (`yaks`) can be used as field values
//!     // without an assignment, similar to struct initializers.
//!     let _span = span!(Level::TRACE, "shaving_yaks", yaks).entered();
//!
//!     info!("shaving yaks");
//!
//!     let mut yaks_shaved = 0;
//!     for yak in 1..=yaks {
//!         let res = shave(yak);
//!         debug!(yak, shaved = res.is_ok());
//!
//!         if let Err(ref error) = res {
//!             // Like spans, events can also use the field initialization shorthand.
//!             // In this instance, `yak` is the field being initalized.
//!             error!(yak, error = error.as_ref(), "failed to shave yak!");
//!         } else {
//!             yaks_shaved += 1;
//!         }
//!         debug!(yaks_shaved);
//!     }
//!
//!     yaks_shaved
//! }
//! ```
//!
//! ## In libraries
//!
//! Libraries should link only to the `tracing` crate, and use the provided
//! macros to record whatever information will be useful to downstream
//! consumers.
//!
//! ## In executables
//!
//! In order to record trace events, executables have to use a `Subscriber`
//! implementation compatible with `tracing`. A `Subscriber` implements a
//! way of collecting trace data, such as by logging it to standard output.
//!
//! This library does not contain any `Subscriber` implementations; these are
//! provided by [other crates](#related-crates).
//!
//! The simplest way to use a subscriber is to call the [`set_global_default`]
//! function:
//!
//! ```
//! extern crate tracing;
//! # pub struct FooSubscriber;
//! # use tracing::{span::{Id, Attributes, Record}, Metadata};
//! # impl tracing::Subscriber for FooSubscriber {
//! #   fn new_span(&self, _: &Attributes) -> Id { Id::from_u64(0) }
//! #   fn record(&self, _: &Id, _: &Record) {}
//! #   fn event(&self, _: &tracing::Event) {}
//! #   fn record_follows_from(&self, _: &Id, _: &Id) {}
//! #   fn enabled(&self, _: &Metadata) -> bool { false }
//! #   fn enter(&self, _: &Id) {}
//! #   fn exit(&self, _: &Id) {}
//! # }
//! # impl FooSubscriber {
//! #   fn new() -> Self { FooSubscriber }
//! # }
//! # fn main() {
//!
//! let my_subscriber = FooSubscriber::new();
//! tracing::subscriber::set_global_default(my_subscriber)
//!     .expect("setting tracing default failed");
//! # }
//! ```
//!
//! <pre class="compile_fail" style="white-space:normal;font:inherit;">
//!     <strong>Warning</strong>: In general, libraries should <em>not</em> call
//!     <code>set_global_default()</code>! Doing so will cause conflicts when
//!     executables that depend on the library try to set the default later.
//! </pre>
//!
//! This subscriber will be used as the default in all threads for the
//! remainder of the duration of the program, similar to setting the logger
//! in the `log` crate.
//!
//! In addition, the default subscriber can be set through using the
//! [`with_default`] function. This follows the `tokio` pattern of using
//! closures to represent executing code in a context that is exited at the end
//! of the closure. For example:
//!
//! ```rust
//! # pub struct FooSubscriber;
//! # use tracing::{span::{Id, Attributes, Record}, Metadata};
//! # impl tracing::Subscriber for FooSubscriber {
//! #   fn new_span(&self, _: &Attributes) -> Id { Id::from_u64(0) }
//! #   fn record(&self, _: &Id, _: &Record) {}
//! #   fn event(&self, _: &tracing::Event) {}
//! #   fn record_follows_from(&self, _: &Id, _: &Id) {}
//! #   fn enabled(&self, _: &Metadata) -> bool { false }
//! #   fn enter(&self, _: &Id) {}
//! #   fn exit(&self, _: &Id) {}
//! # }
//! # impl FooSubscriber {
//! #   fn new() -> Self { FooSubscriber }
//! # }
//! # fn main() {
//!
//! let my_subscriber = FooSubscriber::new();
//! # #[cfg(feature = "std")]
//! tracing::subscriber::with_default(my_subscriber, || {
//!     // Any trace events generated in this closure or by functions it calls
//!     // will be collected by `my_subscriber`.
//! })
//! # }
//! ```
//!
//! This approach allows trace data to be collected by multiple subscribers
//! within different contexts in the program. Note that the override only applies to the
//! currently executing thread; other threads will not see the change from with_default.
//!
//! Any trace events generated outside the context of a subscriber will not be collected.
//!
//! Once a subscriber has been set, instrumentation points may be added to the
//! executable using the `tracing` crate's macros.
//!
//! ## `log` Compatibility
//!
//! The [`log`] crate provides a simple, lightweight logging facade for Rust.
//! While `tracing` builds upon `log`'s foundation with richer structured
//! diagnostic data, `log`'s simplicity and ubiquity make it the "lowest common
//! denominator" for text-based logging in Rust — a vast majority of Rust
//! libraries and applications either emit or consume `log` records. Therefore,
//! `tracing` provides multiple forms of interoperability with `log`: `tracing`
//! instrumentation can emit `log` records, and a compatibility layer enables
//! `tracing` [`Subscriber`]s to consume `log` records as `tracing` [`Event`]s.
//!
//! ### Emitting `log` Records
//!
//! This crate provides two feature flags, "log" and "log-always", which will
//! cause [spans] and [events] to emit `log` records. When the "log" feature is
//! enabled, if no `tracing` `Subscriber` is active, invoking an event macro or
//! creating a span with fields will emit a `log` record. This is intended
//! primarily for use in libraries which wish to emit diagnostics that can be
//! consumed by applications using `tracing` *or* `log`, without paying the
//! additional overhead of emitting both forms of diagnostics when `tracing` is
//! in use.
//!
//! Enabling the "log-always" feature will cause `log` records to be emitted
//! even if a `tracing` `Subscriber` _is_ set. This is intended to be used in
//! applications where a `log` `Logger` is being used to record a textual log,
//! and `tracing` is used only to record other forms of diagnostics (such as
//! metrics, profiling, or distributed tracing data). Unlike the "log" feature,
//! libraries generally should **not** enable the "log-always" feature, as doing
//! so will prevent applications from being able to opt out of the `log` records.
//!
//! See [here][flags] for more details on this crate's feature flags.
//!
//! The generated `log` records' messages will be a string representation of the
//! span or event's fields, and all additional information recorded by `log`
//! (target, verbosity level, module path, file, and line number) will also be
//! populated. Additionally, `log` records are also generated when spans are
//! entered, exited, and closed. Since these additional span lifecycle logs have
//! the potential to be very verbose, and don't include additional fields, they
//! will always be emitted at the `Trace` level, rather than inheriting the
//! level of the span that generated them. Furthermore, they are are categorized
//! under a separate `log` target, "tracing::span" (and its sub-target,
//! "tracing::span::active", for the logs on entering and exiting a span), which
//! may be enabled or disabled separately from other `log` records emitted by
//! `tracing`.
//!
//! ### Consuming `log` Records
//!
//! The [`tracing-log`] crate provides a compatibility layer which
//! allows a `tracing` [`Subscriber`] to consume `log` records as though they
//! were `tracing` [events]. This allows applications using `tracing` to record
//! the logs emitted by dependencies using `log` as events within the context of
//! the application's trace tree. See [that crate's documentation][log-tracer]
//! for details.
//!
//! [log-tracer]: https://docs.rs/tracing-log/latest/tracing_log/#convert-log-records-to-tracing-events
//!
//! ## Related Crates
//!
//! In addition to `tracing` and `tracing-core`, the [`tokio-rs/tracing`] repository
//! contains several additional crates designed to be used with the `tracing` ecosystem.
//! This includes a collection of `Subscriber` implementations, as well as utility
//! and adapter crates to assist in writing `Subscriber`s and instrumenting
//! applications.
//!
//! In particular, the following crates are likely to be of interest:
//!
//!  - [`tracing-futures`] provides a compatibility layer with the `futures`
//!    crate, allowing spans to be attached to `Future`s, `Stream`s, and `Executor`s.
//!  - [`tracing-subscriber`] provides `Subscriber` implementations and
//!    utilities for working with `Subscriber`s. This includes a [`FmtSubscriber`]
//!    `FmtSubscriber` for logging formatted trace data to stdout, with similar
//!    filtering and formatting to the [`env_logger`] crate.
//!  - [`tracing-log`] provides a compatibility layer with the [`log`] crate,
//!    allowing log messages to be recorded as `tracing` `Event`s within the
//!    trace tree. This is useful when a project using `tracing` have
//!    dependencies which use `log`. Note that if you're using
//!    `tracing-subscriber`'s `FmtSubscriber`, you don't need to depend on
//!    `tracing-log` directly.
//!  - [`tracing-appender`] provides utilities for outputting tracing data,
//!     including a file appender and non blocking writer.
//!
//! Additionally, there are also several third-party crates which are not
//! maintained by the `tokio` project. These include:
//!
//!  - [`tracing-timing`] implements inter-event timing metrics on top of `tracing`.
//!    It provides a subscriber that records the time elapsed between pairs of
//!    `tracing` events and generates histograms.
//!  - [`tracing-opentelemetry`] provides a subscriber for emitting traces to
//!    [OpenTelemetry]-compatible distributed tracing systems.
//!  - [`tracing-honeycomb`] Provides a layer that reports traces spanning multiple machines to [honeycomb.io]. Backed by [`tracing-distributed`].
//!  - [`tracing-distributed`] Provides a generic implementation of a layer that reports traces spanning multiple machines to some backend.
//!  - [`tracing-actix-web`] provides `tracing` integration for the `actix-web` web framework.
//!  - [`tracing-actix`] provides `tracing` integration for the `actix` actor
//!    framework.
//!  - [`axum-insights`] provides `tracing` integration and Application insights export for the `axum` web framework.
//!  - [`tracing-gelf`] implements a subscriber for exporting traces in Greylog
//!    GELF format.
//!  - [`tracing-coz`] provides integration with the [coz] causal profiler
//!    (Linux-only).
//!  - [`tracing-bunyan-formatter`] provides a layer implementation that reports events and spans
//!    in [bunyan] format, enriched with timing information.
//!  - [`tracing-wasm`] provides a `Subscriber`/`Layer` implementation that reports
//!    events and spans via browser `console.log` and [User Timing API (`window.performance`)].
//!  - [`tracing-web`] provides a layer implementation of level-aware logging of events
//!    to web browsers' `console.*` and span events to the [User Timing API (`window.performance`)].
//!  - [`tide-tracing`] provides a [tide] middleware to trace all incoming requests and responses.
//!  - [`test-log`] takes care of initializing `tracing` for tests, based on
//!    environment variables with an `env_logger` compatible syntax.
//!  - [`tracing-unwrap`] provides convenience methods to report failed unwraps
//!    on `Result` or `Option` types to a `Subscriber`.
//!  - [`diesel-tracing`] provides integration with [`diesel`] database connections.
//!  - [`tracing-tracy`] provides a way to collect [Tracy] profiles in instrumented
//!    applications.
//!  - [`tracing-elastic-apm`] provides a layer for reporting traces to [Elastic APM].
//!  - [`tracing-etw`] provides a layer for emitting Windows [ETW] events.
//!  - [`tracing-fluent-assertions`] provides a fluent assertions-style testing
//!    framework for validating the behavior of `tracing` spans.
//!  - [`sentry-tracing`] provides a layer for reporting events and traces to [Sentry].
//!  - [`tracing-forest`] provides a subscriber that preserves contextual coherence by
//!    grouping together logs from the same spans during writing.
//!  - [`tracing-loki`] provides a layer for shipping logs to [Grafana Loki].
//!  - [`tracing-logfmt`] provides a layer that formats events and spans into the logfmt format.
//!  - [`reqwest-tracing`] provides a middleware to trace [`reqwest`] HTTP requests.
//!  - [`tracing-cloudwatch`] provides a layer that sends events to AWS CloudWatch Logs.
//!  - [`clippy-tracing`] provides a tool to add, remove and check for `tracing::instrument`.
//!  - [`json-subscriber`] provides a subscriber for emitting JSON logs. The output can be customized much more than with [`tracing-subscriber`]'s JSON output.
//!
//! If you're the maintainer of a `tracing` ecosystem crate not listed above,
//! please let us know! We'd love to add your project to the list!
//!
//! [`tracing-opentelemetry`]: https://crates.io/crates/tracing-opentelemetry
//! [OpenTelemetry]: https://opentelemetry.io/
//! [`tracing-honeycomb`]: https://crates.io/crates/tracing-honeycomb
//! [`tracing-distributed`]: https://crates.io/crates/tracing-distributed
//! [honeycomb.io]: https://www.honeycomb.io/
//! [`tracing-actix-web`]: https://crates.io/crates/tracing-actix-web
//! [`tracing-actix`]: https://crates.io/crates/tracing-actix
//! [`axum-insights`]: https://crates.io/crates/axum-insights
//! [`tracing-gelf`]: https://crates.io/crates/tracing-gelf
//! [`tracing-coz`]: https://crates.io/crates/tracing-coz
//! [coz]: https://github.com/plasma-umass/coz
//! [`tracing-bunyan-formatter`]: https://crates.io/crates/tracing-bunyan-formatter
//! [bunyan]: https://github.com/trentm/node-bunyan
//! [`tracing-wasm`]: https://docs.rs/tracing-wasm
//! [`tracing-web`]: https://docs.rs/tracing-web
//! [User Timing API (`window.performance`)]: https://developer.mozilla.org/en-US/docs/Web/API/User_Timing_API
//! [`tide-tracing`]: https://crates.io/crates/tide-tracing
//! [tide]: https://crates.io/crates/tide
//! [`test-log`]: https://crates.io/crates/test-log
//! [`tracing-unwrap`]: https://docs.rs/tracing-unwrap
//! [`diesel`]: https://crates.io/crates/diesel
//! [`diesel-tracing`]: https://crates.io/crates/diesel-tracing
//! [`tracing-tracy`]: https://crates.io/crates/tracing-tracy
//! [Tracy]: https://github.com/wolfpld/tracy
//! [`tracing-elastic-apm`]: https://crates.io/crates/tracing-elastic-apm
//! [Elastic APM]: https://www.elastic.co/apm
//! [`tracing-etw`]: https://github.com/microsoft/rust_win_etw/tree/main/win_etw_tracing
//! [ETW]: https://docs.microsoft.com/en-us/windows/win32/etw/about-event-tracing
//! [`tracing-fluent-assertions`]: https://crates.io/crates/tracing-fluent-assertions
//! [`sentry-tracing`]: https://crates.io/crates/sentry-tracing
//! [Sentry]: https://sentry.io/welcome/
//! [`tracing-forest`]: https://crates.io/crates/tracing-forest
//! [`tracing-loki`]: https://crates.io/crates/tracing-loki
//! [Grafana Loki]: https://grafana.com/oss/loki/
//! [`tracing-logfmt`]: https://crates.io/crates/tracing-logfmt
//! [`reqwest-tracing`]: https://crates.io/crates/reqwest-tracing
//! [`reqwest`]: https://crates.io/crates/reqwest
//! [`tracing-cloudwatch`]: https://crates.io/crates/tracing-cloudwatch
//! [`clippy-tracing`]: https://crates.io/crates/clippy-tracing
//! [`json-subscriber`]: https://crates.io/crates/json-subscriber
//!
//! <pre class="ignore" style="white-space:normal;font:inherit;">
//!     <strong>Note</strong>: Some of these ecosystem crates are currently
//!     unreleased and/or in earlier stages of development. They may be less stable
//!     than <code>tracing</code> and <code>tracing-core</code>.
//! </pre>
//!
//! ## Crate Feature Flags
//!
//! The following crate [feature flags] are available:
//!
//! * A set of features controlling the [static verbosity level].
//! * `log`: causes trace instrumentation points to emit [`log`] records as well
//!   as trace events, if a default `tracing` subscriber has not been set. This
//!   is intended for use in libraries whose users may be using either `tracing`
//!   or `log`.
//! * `log-always`: Emit `log` records from all `tracing` spans and events, even
//!   if a `tracing` subscriber has been set. This should be set only by
//!   applications which intend to collect traces and logs separately; if an
//!   adapter is used to convert `log` records into `tracing` events, this will
//!   cause duplicate events to occur.
//! * `attributes`: Includes support for the `#[instrument]` attribute.
//!   This is on by default, but does bring in the `syn` crate as a dependency,
//!   which may add to the compile time of crates that do not already use it.
//! * `std`: Depend on the Rust standard library (enabled by default).
//!
//!   `no_std` users may disable this feature with `default-features = false`:
//!
//!   ```toml
//!   [dependencies]
//!   tracing = { version = "0.1.38", default-features = false }
//!   ```
//!
//! <pre class="ignore" style="white-space:normal;font:inherit;">
//!     <strong>Note</strong>: <code>tracing</code>'s <code>no_std</code> support
//!     requires <code>liballoc</code>.
//! </pre>
//!
//! ### Unstable Features
//!
//! These feature flags enable **unstable** features. The public API may break in 0.1.x
//! releases. To enable these features, the `--cfg tracing_unstable` must be passed to
//! `rustc` when compiling.
//!
//! The following unstable feature flags are currently available:
//!
//! * `valuable`: Enables support for recording [field values] using the
//!   [`valuable`] crate.
//!
//! #### Enabling Unstable Features
//!
//! The easiest way to set the `tracing_unstable` cfg is to use the `RUSTFLAGS`
//! env variable when running `cargo` commands:
//!
//! ```shell
//! RUSTFLAGS="--cfg tracing_unstable" cargo build
//! ```
//! Alternatively, the following can be added to the `.cargo/config` file in a
//! project to automatically enable the cfg flag for that project:
//!
//! ```toml
//! [build]
//! rustflags = ["--cfg", "tracing_unstable"]
//! ```
//!
//! [feature flags]: https://doc.rust-lang.org/cargo/reference/manifest.html#the-features-section
//! [field values]: crate::field
//! [`valuable`]: https://crates.io/crates/valuable
//!
//! ## Supported Rust Versions
//!
//! Tracing is built against the latest stable release. The minimum supported
//! version is 1.63. The current Tracing version is not guaranteed to build on
//! Rust versions earlier than the minimum supported version.
//!
//! Tracing follows the same compiler support policies as the rest of the Tokio
//! project. The current stable Rust compiler and the three most recent minor
//! versions before it will always be supported. For example, if the current
//! stable compiler version is 1.69, the minimum supported version will not be
//! increased past 1.66, three minor versions prior. Increasing the minimum
//! supported compiler version is not considered a semver breaking change as
//! long as doing so complies with this policy.
//!
//! [`log`]: https://docs.rs/log/0.4.6/log/
//! [span]: mod@span
//! [spans]: mod@span
//! [`Span`]: span::Span
//! [`in_scope`]: span::Span::in_scope
//! [event]: Event
//! [events]: Event
//! [`Subscriber`]: subscriber::Subscriber
//! [Subscriber::event]: subscriber::Subscriber::event
//! [`enter`]: subscriber::Subscriber::enter
//! [`exit`]: subscriber::Subscriber::exit
//! [`enabled`]: subscriber::Subscriber::enabled
//! [metadata]: Metadata
//! [`field::display`]: field::display
//! [`field::debug`]: field::debug
//! [`set_global_default`]: subscriber::set_global_default
//! [`with_default`]: subscriber::with_default
//! [`tokio-rs/tracing`]: https://github.com/tokio-rs/tracing
//! [`tracing-futures`]: https://crates.io/crates/tracing-futures
//! [`tracing-subscriber`]: https://crates.io/crates/tracing-subscriber
//! [`tracing-log`]: https://crates.io/crates/tracing-log
//! [`tracing-timing`]: https://crates.io/crates/tracing-timing
//! [`tracing-appender`]: https://crates.io/crates/tracing-appender
//! [`env_logger`]: https://crates.io/crates/env_logger
//! [`FmtSubscriber`]: https://docs.rs/tracing-subscriber/latest/tracing_subscriber/fmt/struct.Subscriber.html
//! [static verbosity level]: level_filters#compile-time-filters
//! [instrument]: https://docs.rs/tracing-attributes/latest/tracing_attributes/attr.instrument.html
//! [flags]: #crate-feature-flags
#![cfg_attr(not(feature = "std"), no_std)]
#![cfg_attr(docsrs, feature(doc_cfg), deny(rustdoc::broken_intra_doc_links))]
#![doc(
    html_logo_url = "https://raw.githubusercontent.com/tokio-rs/tracing/master/assets/logo-type.png",
    issue_tracker_base_url = "https://github.com/tokio-rs/tracing/issues/"
)]
#![warn(
    missing_debug_implementations,
    missing_docs,
    rust_2018_idioms,
    unreachable_pub,
    bad_style,
    dead_code,
    improper_ctypes,
    non_shorthand_field_patterns,
    no_mangle_generic_items,
    overflowing_literals,
    path_statements,
    patterns_in_fns_without_body,
    private_interfaces,
    private_bounds,
    unconditional_recursion,
    unused,
    unused_allocation,
    unused_comparisons,
    unused_parens,
    while_true
)]

#[cfg(not(feature = "std"))]
extern crate alloc;

// Somehow this `use` statement is necessary for us to re-export the `core`
// macros on Rust 1.26.0. I'm not sure how this makes it work, but it does.
#[allow(unused_imports)]
#[doc(hidden)]
use tracing_core::*;

#[doc(inline)]
pub use self::instrument::Instrument;
pub use self::{dispatcher::Dispatch, event::Event, field::Value, subscriber::Subscriber};

#[doc(hidden)]
pub use self::span::Id;

#[doc(hidden)]
pub use tracing_core::{
    callsite::{self, Callsite},
    metadata,
};
pub use tracing_core::{event, Level, Metadata};

#[doc(inline)]
pub use self::span::Span;
#[cfg(feature = "attributes")]
#[cfg_attr(docsrs, doc(cfg(feature = "attributes")))]
#[doc(inline)]
pub use tracing_attributes::instrument;

#[macro_use]
mod macros;

pub mod dispatcher;
pub mod field;
/// Attach a span to a `std::future::Future`.
pub mod instrument;
pub mod level_filters;
pub mod span;
pub(crate) mod stdlib;
pub mod subscriber;

#[doc(hidden)]
pub mod __macro_support {
    pub use crate::callsite::Callsite;
    use crate::{subscriber::Interest, Metadata};
    // Re-export the `core` functions that are used in macros. This allows
    // a crate to be named `core` and avoid name clashes.
    // See here: https://github.com/tokio-rs/tracing/issues/2761
    pub use core::{concat, file, format_args, iter::Iterator, line, option::Option};

    /// Callsite implementation used by macro-generated code.
    ///
    /// /!\ WARNING: This is *not* a stable API! /!\
    /// This type, and all code contained in the `__macro_support` module, is
    /// a *private* API of `tracing`. It is exposed publicly because it is used
    /// by the `tracing` macros, but it is not part of the stable versioned API.
    /// Breaking changes to this module may occur in small-numbered versions
    /// without warning.
    pub use tracing_core::callsite::DefaultCallsite as MacroCallsite;

    /// /!\ WARNING: This is *not* a stable API! /!\
    /// This function, and all code contained in the `__macro_support` module, is
    /// a *private* API of `tracing`. It is exposed publicly because it is used
    /// by the `tracing` macros, but it is not part of the stable versioned API.
    /// Breaking changes to this module may occur in small-numbered versions
    /// without warning.
    pub fn __is_enabled(meta: &Metadata<'static>, interest: Interest) -> bool {
        interest.is_always() || crate::dispatcher::get_default(|default| default.enabled(meta))
    }

    /// /!\ WARNING: This is *not* a stable API! /!\
    /// This function, and all code contained in the `__macro_support` module, is
    /// a *private* API of `tracing`. It is exposed publicly because it is used
    /// by the `tracing` macros, but it is not part of the stable versioned API.
    /// Breaking changes to this module may occur in small-numbered versions
    /// without warning.
    #[inline]
    #[cfg(feature = "log")]
    pub fn __disabled_span(meta: &'static Metadata<'static>) -> crate::Span {
        crate::Span::new_disabled(meta)
    }

    /// /!\ WARNING: This is *not* a stable API! /!\
    /// This function, and all code contained in the `__macro_support` module, is
    /// a *private* API of `tracing`. It is exposed publicly because it is used
    /// by the `tracing` macros, but it is not part of the stable versioned API.
    /// Breaking changes to this module may occur in small-numbered versions
    /// without warning.
    #[inline]
    #[cfg(not(feature = "log"))]
    pub fn __disabled_span(_: &'static Metadata<'static>) -> crate::Span {
        crate::Span::none()
    }

    /// /!\ WARNING: This is *not* a stable API! /!\
    /// This function, and all code contained in the `__macro_support` module, is
    /// a *private* API of `tracing`. It is exposed publicly because it is used
    /// by the `tracing` macros, but it is not part of the stable versioned API.
    /// Breaking changes to this module may occur in small-numbered versions
    /// without warning.
    #[cfg(feature = "log")]
    pub fn __tracing_log(
        meta: &Metadata<'static>,
        logger: &'static dyn log::Log,
        log_meta: log::Metadata<'_>,
        values: &tracing_core::field::ValueSet<'_>,
    ) {
        logger.log(
            &crate::log::Record::builder()
                .file(meta.file())
                .module_path(meta.module_path())
                .line(meta.line())
                .metadata(log_meta)
                .args(format_args!(
                    "{}",
                    crate::log::LogValueSet {
                        values,
                        is_first: true
                    }
                ))
                .build(),
        );
    }
}

#[cfg(feature = "log")]
#[doc(hidden)]
pub mod log {
    use core::fmt;
    pub use log::*;
    use tracing_core::field::{Field, ValueSet, Visit};

    /// Utility to format [`ValueSet`]s for logging.
    pub(crate) struct LogValueSet<'a> {
        pub(crate) values: &'a ValueSet<'a>,
        pub(crate) is_first: bool,
    }

    impl<'a> fmt::Display for LogValueSet<'a> {
        #[inline]
        fn fmt(&self, f: &mut fmt::Formatter<'_>) -> fmt::Result {
            struct LogVisitor<'a, 'b> {
                f: &'a mut fmt::Formatter<'b>,
                is_first: bool,
                result: fmt::Result,
            }

            impl Visit for LogVisitor<'_, '_> {
                fn record_debug(&mut self, field: &Field, value: &dyn fmt::Debug) {
                    let res = if self.is_first {
                        self.is_first = false;
                        if field.name() == "message" {
                            write!(self.f, "{:?}", value)
                        } else {
                            write!(self.f, "{}={:?}", field.name(), value)
                        }
                    } else {
                        write!(self.f, " {}={:?}", field.name(), value)
                    };
                    if let Err(err) = res {
                        self.result = self.result.and(Err(err));
                    }
                }

                fn record_str(&mut self, field: &Field, value: &str) {
                    if field.name() == "message" {
                        self.record_debug(field, &format_args!("{}", value))
                    } else {
                        self.record_debug(field, &value)
                    }
                }
            }

            let mut visit = LogVisitor {
                f,
                is_first: self.is_first,
                result: Ok(()),
            };
            self.values.record(&mut visit);
            visit.result
        }
    }
}

mod sealed {
    pub trait Sealed {}
}
