//! Collects and records trace data.
pub use tracing_core::subscriber::*;

#[cfg(feature = "std")]
#[cfg_attr(docsrs, doc(cfg(feature = "std")))]
pub use tracing_core::dispatcher::DefaultGuard;

/// Sets this [`Subscriber`] as the default for the current thread for the
/// duration of a closure.
///
/// The default subscriber is used when creating a new [`Span`] or
/// [`Event`].
///
///
/// [`Span`]: super::span::Span
/// [`Subscriber`]: super::subscriber::Subscriber
/// [`Event`]: super::event::Event
#[cfg(feature = "std")]
#[cfg_attr(docsrs, doc(cfg(feature = "std")))]
pub fn with_default<T, S>(subscriber: S, f: impl FnOnce() -> T) -> T
where
    S: Subscriber + Send + Sync + 'static,
{
    crate::dispatcher::with_default(&crate::Dispatch::new(subscriber), f)
}

/// Sets this subscriber as the global default for the duration of the entire program.
/// Will be used as a fallback if no thread-local subscriber has been set in a thread (using `with_default`.)
///
/// Can only be set once; subsequent attempts to set the global default will fail.
/// Returns whether the initialization was successful.
///
/// Note: Libraries should *NOT* call `set_global_default()`! That will cause conflicts when
/// executables try to set them later.
///
/// [span]: super::span
/// [`Subscriber`]: super::subscriber::Subscriber
/// [`Event`]: super::event::Event
pub fn set_global_default<S>(subscriber: S) -> Result<(), SetGlobalDefaultError>
where
    S: Subscriber + Send + Sync + 'static,
{
    crate::dispatcher::set_global_default(crate::Dispatch::new(subscriber))
}

/// Sets the [`Subscriber`] as the default for the current thread for the
/// duration of the lifetime of the returned [`DefaultGuard`].
///
/// The default subscriber is used when creating a new [`Span`] or [`Event`].
///
/// [`Span`]: super::span::Span
/// [`Subscriber`]: super::subscriber::Subscriber
/// [`Event`]: super::event::Event
/// [`DefaultGuard`]: super::dispatcher::DefaultGuard
#[cfg(feature = "std")]
#[cfg_attr(docsrs, doc(cfg(feature = "std")))]
#[must_use = "Dropping the guard unregisters the subscriber."]
pub fn set_default<S>(subscriber: S) -> DefaultGuard
where
    S: Subscriber + Send + Sync + 'static,
{
    crate::dispatcher::set_default(&crate::Dispatch::new(subscriber))
}

pub use tracing_core::dispatcher::SetGlobalDefaultError;
