use crate::{
    dispatcher::{self, Dispatch},
    span::Span,
};
use core::{
    future::Future,
    marker::Sized,
    mem::ManuallyDrop,
    pin::Pin,
    task::{Context, Poll},
};
use pin_project_lite::pin_project;

/// Attaches spans to a [`std::future::Future`].
///
/// Extension trait allowing futures to be
/// instrumented with a `tracing` [span].
///
/// [span]: super::Span
pub trait Instrument: Sized {
    /// Instruments this type with the provided [`Span`], returning an
    /// `Instrumented` wrapper.
    ///
    /// The attached [`Span`] will be [entered] every time the instrumented
    /// [`Future`] is polled or [`Drop`]ped.
    ///
    /// # Examples
    ///
    /// Instrumenting a future:
    ///
    /// ```rust
    /// use tracing::Instrument;
    ///
    /// # async fn doc() {
    /// let my_future = async {
    ///     // ...
    /// };
    ///
    /// my_future
    ///     .instrument(tracing::info_span!("my_future"))
    ///     .await
    /// # }
    /// ```
    ///
    /// The [`Span::or_current`] combinator can be used in combination with
    /// `instrument` to ensure that the [current span] is attached to the
    /// future if the span passed to `instrument` is [disabled]:
    ///
    /// ```
    /// use tracing::Instrument;
    /// # mod tokio {
    /// #     pub(super) fn spawn(_: impl std::future::Future) {}
    /// # }
    ///
    /// let my_future = async {
    ///     // ...
    /// };
    ///
    /// let outer_span = tracing::info_span!("outer").entered();
    ///
    /// // If the "my_future" span is enabled, then the spawned task will
    /// // be within both "my_future" *and* "outer", since "outer" is
    /// // "my_future"'s parent. However, if "my_future" is disabled,
    /// // the spawned task will *not* be in any span.
    /// tokio::spawn(
    ///     my_future
    ///         .instrument(tracing::debug_span!("my_future"))
    /// );
    ///
    /// // Using `Span::or_current` ensures the spawned task is instrumented
    /// // with the current span, if the new span passed to `instrument` is
    /// // not enabled. This means that if the "my_future"  span is disabled,
    /// // the spawned task will still be instrumented with the "outer" span:
    /// # let my_future = async {};
    /// tokio::spawn(
    ///    my_future
    ///         .instrument(tracing::debug_span!("my_future").or_current())
    /// );
    /// ```
    ///
    /// [entered]: super::Span::enter()
    /// [`Span::or_current`]: super::Span::or_current()
    /// [current span]: super::Span::current()
    /// [disabled]: super::Span::is_disabled()
    /// [`Future`]: std::future::Future
    fn instrument(self, span: Span) -> Instrumented<Self> {
        Instrumented {
            inner: ManuallyDrop::new(self),
            span,
        }
    }

    /// Instruments this type with the [current] [`Span`], returning an
    /// `Instrumented` wrapper.
    ///
    /// The attached [`Span`] will be [entered] every time the instrumented
    /// [`Future`] is polled or [`Drop`]ped.
    ///
    /// This can be used to propagate the current span when spawning a new future.
    ///
    /// # Examples
    ///
    /// ```rust
    /// use tracing::Instrument;
    ///
    /// # mod tokio {
    /// #     pub(super) fn spawn(_: impl std::future::Future) {}
    /// # }
    /// # async fn doc() {
    /// let span = tracing::info_span!("my_span");
    /// let _enter = span.enter();
    ///
    /// // ...
    ///
    /// let future = async {
    ///     tracing::debug!("this event will occur inside `my_span`");
    ///     // ...
    /// };
    /// tokio::spawn(future.in_current_span());
    /// # }
    /// ```
    ///
    /// [current]: super::Span::current()
    /// [entered]: super::Span::enter()
    /// [`Span`]: crate::Span
    /// [`Future`]: std::future::Future
    #[inline]
    fn in_current_span(self) -> Instrumented<Self> {
        self.instrument(Span::current())
    }
}

/// Extension trait allowing futures to be instrumented with
/// a `tracing` [`Subscriber`](crate::Subscriber).
#[cfg_attr(docsrs, doc(cfg(feature = "std")))]
pub trait WithSubscriber: Sized {
    /// Attaches the provided [`Subscriber`] to this type, returning a
    /// [`WithDispatch`] wrapper.
    ///
    /// The attached [`Subscriber`] will be set as the [default] when the returned
    /// [`Future`] is polled.
    ///
    /// # Examples
    ///
    /// ```
    /// # use tracing::subscriber::NoSubscriber as MySubscriber;
    /// # use tracing::subscriber::NoSubscriber as MyOtherSubscriber;
    /// # async fn docs() {
    /// use tracing::instrument::WithSubscriber;
    ///
    /// // Set the default `Subscriber`
    /// let _default = tracing::subscriber::set_default(MySubscriber::default());
    ///
    /// tracing::info!("this event will be recorded by the default `Subscriber`");
    ///
    /// // Create a different `Subscriber` and attach it to a future.
    /// let other_subscriber = MyOtherSubscriber::default();
    /// let future = async {
    ///     tracing::info!("this event will be recorded by the other `Subscriber`");
    ///     // ...
    /// };
    ///
    /// future
    ///     // Attach the other `Subscriber` to the future before awaiting it
    ///     .with_subscriber(other_subscriber)
    ///     .await;
    ///
    /// // Once the future has completed, we return to the default `Subscriber`.
    /// tracing::info!("this event will be recorded by the default `Subscriber`");
    /// # }
    /// ```
    ///
    /// [`Subscriber`]: super::Subscriber
    /// [default]: crate::dispatcher#setting-the-default-subscriber
    /// [`Future`]: std::future::Future
    fn with_subscriber<S>(self, subscriber: S) -> WithDispatch<Self>
    where
        S: Into<Dispatch>,
    {
        WithDispatch {
            inner: self,
            dispatcher: subscriber.into(),
        }
    }

    /// Attaches the current [default] [`Subscriber`] to this type, returning a
    /// [`WithDispatch`] wrapper.
    ///
    /// The attached `Subscriber` will be set as the [default] when the returned
    /// [`Future`] is polled.
    ///
    /// This can be used to propagate the current dispatcher context when
    /// spawning a new future that may run on a different thread.
    ///
    /// # Examples
    ///
    /// ```
    /// # mod tokio {
    /// #     pub(super) fn spawn(_: impl std::future::Future) {}
    /// # }
    /// # use tracing::subscriber::NoSubscriber as MySubscriber;
    /// # async fn docs() {
    /// use tracing::instrument::WithSubscriber;
    ///
    /// // Using `set_default` (rather than `set_global_default`) sets the
    /// // default `Subscriber` for *this* thread only.
    /// let _default = tracing::subscriber::set_default(MySubscriber::default());
    ///
    /// let future = async {
    ///     // ...
    /// };
    ///
    /// // If a multi-threaded async runtime is in use, this spawned task may
    /// // run on a different thread, in a different default `Subscriber`'s context.
    /// tokio::spawn(future);
    ///
    /// // However, calling `with_current_subscriber` on the future before
    /// // spawning it, ensures that the current thread's default `Subscriber` is
    /// // propagated to the spawned task, regardless of where it executes:
    /// # let future = async { };
    /// tokio::spawn(future.with_current_subscriber());
    /// # }
    /// ```
    /// [`Subscriber`]: super::Subscriber
    /// [default]: crate::dispatcher#setting-the-default-subscriber
    /// [`Future`]: std::future::Future
    #[inline]
    fn with_current_subscriber(self) -> WithDispatch<Self> {
        WithDispatch {
            inner: self,
            dispatcher: crate::dispatcher::get_default(|default| default.clone()),
        }
    }
}

pin_project! {
    /// A [`Future`] that has been instrumented with a `tracing` [`Subscriber`].
    ///
    /// This type is returned by the [`WithSubscriber`] extension trait. See that
    /// trait's documentation for details.
    ///
    /// [`Future`]: std::future::Future
    /// [`Subscriber`]: crate::Subscriber
    #[derive(Clone, Debug)]
    #[must_use = "futures do nothing unless you `.await` or poll them"]
    #[cfg_attr(docsrs, doc(cfg(feature = "std")))]
    pub struct WithDispatch<T> {
        #[pin]
        inner: T,
        dispatcher: Dispatch,
    }
}

pin_project! {
    /// A [`Future`] that has been instrumented with a `tracing` [`Span`].
    ///
    /// This type is returned by the [`Instrument`] extension trait. See that
    /// trait's documentation for details.
    ///
    /// [`Future`]: std::future::Future
    /// [`Span`]: crate::Span
    #[project = InstrumentedProj]
    #[project_ref = InstrumentedProjRef]
    #[derive(Debug, Clone)]
    #[must_use = "futures do nothing unless you `.await` or poll them"]
    pub struct Instrumented<T> {
        // `ManuallyDrop` is used here to to enter instrument `Drop` by entering
        // `Span` and executing `ManuallyDrop::drop`.
        #[pin]
        inner: ManuallyDrop<T>,
        span: Span,
    }

    impl<T> PinnedDrop for Instrumented<T> {
        fn drop(this: Pin<&mut Self>) {
            let this = this.project();
            let _enter = this.span.enter();
            // SAFETY: 1. `Pin::get_unchecked_mut()` is safe, because this isn't
            //             different from wrapping `T` in `Option` and calling
            //             `Pin::set(&mut this.inner, None)`, except avoiding
            //             additional memory overhead.
            //         2. `ManuallyDrop::drop()` is safe, because
            //            `PinnedDrop::drop()` is guaranteed to be called only
            //            once.
            unsafe { ManuallyDrop::drop(this.inner.get_unchecked_mut()) }
        }
    }
}

impl<'a, T> InstrumentedProj<'a, T> {
    /// Get a mutable reference to the [`Span`] a pinned mutable reference to
    /// the wrapped type.
    fn span_and_inner_pin_mut(self) -> (&'a mut Span, Pin<&'a mut T>) {
        // SAFETY: As long as `ManuallyDrop<T>` does not move, `T` won't move
        //         and `inner` is valid, because `ManuallyDrop::drop` is called
        //         only inside `Drop` of the `Instrumented`.
        let inner = unsafe { self.inner.map_unchecked_mut(|v| &mut **v) };
        (self.span, inner)
    }
}

impl<'a, T> InstrumentedProjRef<'a, T> {
    /// Get a reference to the [`Span`] a pinned reference to the wrapped type.
    fn span_and_inner_pin_ref(self) -> (&'a Span, Pin<&'a T>) {
        // SAFETY: As long as `ManuallyDrop<T>` does not move, `T` won't move
        //         and `inner` is valid, because `ManuallyDrop::drop` is called
        //         only inside `Drop` of the `Instrumented`.
        let inner = unsafe { self.inner.map_unchecked(|v| &**v) };
        (self.span, inner)
    }
}

// === impl Instrumented ===

impl<T: Future> Future for Instrumented<T> {
    type Output = T::Output;

    fn poll(self: Pin<&mut Self>, cx: &mut Context<'_>) -> Poll<Self::Output> {
        let (span, inner) = self.project().span_and_inner_pin_mut();
        let _enter = span.enter();
        inner.poll(cx)
    }
}

impl<T: Sized> Instrument for T {}

impl<T> Instrumented<T> {
    /// Borrows the `Span` that this type is instrumented by.
    pub fn span(&self) -> &Span {
        &self.span
    }

    /// Mutably borrows the `Span` that this type is instrumented by.
    pub fn span_mut(&mut self) -> &mut Span {
        &mut self.span
    }

    /// Borrows the wrapped type.
    pub fn inner(&self) -> &T {
        &self.inner
    }

    /// Mutably borrows the wrapped type.
    pub fn inner_mut(&mut self) -> &mut T {
        &mut self.inner
    }

    /// Get a pinned reference to the wrapped type.
    pub fn inner_pin_ref(self: Pin<&Self>) -> Pin<&T> {
        self.project_ref().span_and_inner_pin_ref().1
    }

    /// Get a pinned mutable reference to the wrapped type.
    pub fn inner_pin_mut(self: Pin<&mut Self>) -> Pin<&mut T> {
        self.project().span_and_inner_pin_mut().1
    }

    /// Consumes the `Instrumented`, returning the wrapped type.
    ///
    /// Note that this drops the span.
    pub fn into_inner(self) -> T {
        // To manually destructure `Instrumented` without `Drop`, we
        // move it into a ManuallyDrop and use pointers to its fields
        let this = ManuallyDrop::new(self);
        let span: *const Span = &this.span;
        let inner: *const ManuallyDrop<T> = &this.inner;
        // SAFETY: Those pointers are valid for reads, because `Drop` didn't
        //         run, and properly aligned, because `Instrumented` isn't
        //         `#[repr(packed)]`.
        let _span = unsafe { span.read() };
        let inner = unsafe { inner.read() };
        ManuallyDrop::into_inner(inner)
    }
}

// === impl WithDispatch ===

#[cfg(feature = "std")]
#[cfg_attr(docsrs, doc(cfg(feature = "std")))]
impl<T: Future> Future for WithDispatch<T> {
    type Output = T::Output;

    fn poll(self: Pin<&mut Self>, cx: &mut Context<'_>) -> Poll<Self::Output> {
        let this = self.project();
        let dispatcher = this.dispatcher;
        let future = this.inner;
        let _default = dispatcher::set_default(dispatcher);
        future.poll(cx)
    }
}

#[cfg_attr(docsrs, doc(cfg(feature = "std")))]
impl<T: Sized> WithSubscriber for T {}

#[cfg(feature = "std")]
#[cfg_attr(docsrs, doc(cfg(feature = "std")))]
impl<T> WithDispatch<T> {
    /// Borrows the [`Dispatch`] that is entered when this type is polled.
    pub fn dispatcher(&self) -> &Dispatch {
        &self.dispatcher
    }

    /// Borrows the wrapped type.
    pub fn inner(&self) -> &T {
        &self.inner
    }

    /// Mutably borrows the wrapped type.
    pub fn inner_mut(&mut self) -> &mut T {
        &mut self.inner
    }

    /// Get a pinned reference to the wrapped type.
    pub fn inner_pin_ref(self: Pin<&Self>) -> Pin<&T> {
        self.project_ref().inner
    }

    /// Get a pinned mutable reference to the wrapped type.
    pub fn inner_pin_mut(self: Pin<&mut Self>) -> Pin<&mut T> {
        self.project().inner
    }

    /// Consumes the `Instrumented`, returning the wrapped type.
    ///
    /// Note that this drops the span.
    pub fn into_inner(self) -> T {
        self.inner
    }
}
