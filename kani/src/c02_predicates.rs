//! C02 — a query returns exactly the matching events, wherever they are stored.
//! Kernels: row-level predicate evaluation on both storage tiers:
//!   segment tier : `Condition::evaluate_at` over the real `ColumnValues` typed views
//!   memory tier  : `Condition::evaluate_event_direct` over a real `Event`
//! and the typed-literal construction in `ConditionEvaluatorBuilder::add_where_clause`.
use snel_db::command::types::{CompareOp as CmdOp, Expr};
use snel_db::engine::core::filter::condition::{CompareOp, FieldAccessor};
use snel_db::engine::core::filter::direct_event_accessor::DirectEventAccessor;
use snel_db::engine::core::read::cache::DecompressedBlock;
use snel_db::engine::core::{
    ColumnValues, Condition, ConditionEvaluatorBuilder, Event, EventBuilder, LogicalCondition,
    LogicalOp, NumericCondition,
};
use snel_db::engine::types::ScalarValue;
use std::sync::Arc;

/// Segment-tier accessor over exactly one real column (the production `PreparedAccessor`
/// is the same delegation behind a `HashMap<String, ColumnValues>` lookup).
struct OneColumn {
    col: ColumnValues,
}

impl FieldAccessor for OneColumn {
    fn get_str_at(&self, _field: &str, index: usize) -> Option<&str> {
        self.col.get_str_at(index)
    }
    fn get_i64_at(&self, _field: &str, index: usize) -> Option<i64> {
        self.col.get_i64_at(index)
    }
    fn get_u64_at(&self, _field: &str, index: usize) -> Option<u64> {
        self.col.get_u64_at(index)
    }
    fn get_f64_at(&self, _field: &str, index: usize) -> Option<f64> {
        self.col.get_f64_at(index)
    }
    fn event_count(&self) -> usize {
        self.col.len()
    }
}

#[derive(Clone, Copy)]
enum Phys {
    I64,
    U64,
    F64,
}

/// One-row typed column block laid out as the column writer does: 8-byte little-endian
/// payload followed by a one-byte null bitmap.
fn one_row_column(phys: Phys, bits: u64, is_null: bool) -> OneColumn {
    let mut bytes = Vec::with_capacity(9);
    bytes.extend_from_slice(&bits.to_le_bytes());
    bytes.push(if is_null { 1 } else { 0 });
    let block = Arc::new(DecompressedBlock::from_bytes(bytes));
    let nulls = Some((8usize, 1usize));
    let col = match phys {
        Phys::I64 => ColumnValues::new_typed_i64(block, 0, 1, nulls),
        Phys::U64 => ColumnValues::new_typed_u64(block, 0, 1, nulls),
        Phys::F64 => ColumnValues::new_typed_f64(block, 0, 1, nulls),
    };
    OneColumn { col }
}

fn event_with(value: ScalarValue) -> Event {
    let mut b = EventBuilder::new();
    b.payload.insert("x".to_string(), value);
    b.build()
}

fn any_op() -> (CompareOp, u8) {
    let k: u8 = kani::any();
    kani::assume(k < 6);
    let op = match k {
        0 => CompareOp::Eq,
        1 => CompareOp::Neq,
        2 => CompareOp::Gt,
        3 => CompareOp::Gte,
        4 => CompareOp::Lt,
        _ => CompareOp::Lte,
    };
    (op, k)
}

fn math_i128(k: u8, a: i128, b: i128) -> bool {
    match k {
        0 => a == b,
        1 => a != b,
        2 => a > b,
        3 => a >= b,
        4 => a < b,
        _ => a <= b,
    }
}

fn math_f64(k: u8, a: f64, b: f64) -> bool {
    match k {
        0 => a == b,
        1 => a != b,
        2 => a > b,
        3 => a >= b,
        4 => a < b,
        _ => a <= b,
    }
}

fn i64_body(segment: bool) {
    let v: i64 = kani::any();
    let lit: i64 = kani::any();
    let is_null: bool = kani::any();
    let (op, k) = any_op();
    let cond = NumericCondition::new("x".to_string(), op, lit);
    let expected = !is_null && math_i128(k, v as i128, lit as i128);
    if segment {
        let seg = one_row_column(Phys::I64, v as u64, is_null);
        let on_segment = cond.evaluate_at(&seg, 0);
        assert!(on_segment == expected, "segment tier equals the integer comparison");
        std::mem::forget(seg);
    } else {
        let ev = event_with(if is_null { ScalarValue::Null } else { ScalarValue::Int64(v) });
        let in_memory = cond.evaluate_event_direct(&DirectEventAccessor::new(&ev));
        assert!(in_memory == expected, "memory tier equals the integer comparison");
        std::mem::forget(ev);
    }
    kani::cover!(v < 0 && lit < 0 && expected, "negative value and literal, match");
    kani::cover!(is_null, "null cell");
    kani::cover!(!is_null && !expected, "no match");
    std::mem::forget(cond);
}

//@ id: A-1i-s
//@ tier: quick
//@ cap: 600
//@ desc: i64 field, segment tier: NumericCondition::evaluate_at over a typed i64 column block (real ColumnValues) equals the integer comparison for every value, literal and operator; a null cell matches nothing
//@ functions: NumericCondition::evaluate_at, ColumnValues::get_i64_at, ColumnValues::get_u64_at, ColumnValues::get_f64_at
//@ bounds: one row, one field; value and literal over all of i64; 6 operators; null flag symbolic
//@ assumes: none
//@ stubs: none
#[kani::proof]
#[kani::unwind(10)]
fn c02_num_i64_segment() {
    i64_body(true);
}

//@ id: A-1i-m
//@ tier: quick
//@ cap: 600
//@ desc: i64 field, memory tier: NumericCondition::evaluate_event_direct over an Event holding Int64 equals the same integer comparison (so both tiers agree)
//@ functions: NumericCondition::evaluate_event_direct, DirectEventAccessor::get_field_as_i64, ScalarValue::as_i64
//@ bounds: as A-1i-s
//@ assumes: none
//@ stubs: none
#[kani::proof]
#[kani::unwind(4)]
fn c02_num_i64_memory() {
    i64_body(false);
}

/// region 0: main claim (literal >= 0, value <= i64::MAX); 1: F-C02-a (negative literal);
/// 2: F-C02-d (value > i64::MAX)
fn u64_body(region: u8, segment: bool) {
    let u: u64 = kani::any();
    let lit: i64 = kani::any();
    let (op, k) = any_op();
    match region {
        0 => kani::assume(lit >= 0 && u <= i64::MAX as u64),
        1 => kani::assume(lit < 0 && u <= i64::MAX as u64),
        _ => kani::assume(lit >= 0 && u > i64::MAX as u64),
    }
    let cond = NumericCondition::new("x".to_string(), op, lit);
    let expected = math_i128(k, u as i128, lit as i128);
    if segment {
        let seg = one_row_column(Phys::U64, u, false);
        let on_segment = cond.evaluate_at(&seg, 0);
        assert!(on_segment == expected, "segment tier equals the integer comparison (u64 column)");
        std::mem::forget(seg);
    } else {
        // the memory tier holds what ScalarValue::from(JsonValue::Number(u)) yields: Int64 for
        // u <= i64::MAX, the decimal string otherwise (C07 A-1 checks that conversion)
        let mem_val = if u <= i64::MAX as u64 {
            ScalarValue::Int64(u as i64)
        } else {
            ScalarValue::Utf8(u.to_string())
        };
        let ev = event_with(mem_val);
        let in_memory = cond.evaluate_event_direct(&DirectEventAccessor::new(&ev));
        assert!(in_memory == expected, "memory tier equals the integer comparison (u64 column)");
        std::mem::forget(ev);
    }
    kani::cover!(expected, "match");
    kani::cover!(!expected, "no match");
    std::mem::forget(cond);
}

//@ id: A-1u-s
//@ tier: quick
//@ cap: 600
//@ desc: u64 field, segment tier (typed u64 block): equals the integer comparison
//@ functions: NumericCondition::evaluate_at, ColumnValues::get_u64_at
//@ bounds: one row; value over u64 <= i64::MAX, literal >= 0; 6 operators
//@ assumes: CARVE-OUT F-C02-a: literal >= 0; value <= i64::MAX (larger values: A-1u-sL)
//@ stubs: none
#[kani::proof]
#[kani::unwind(10)]
fn c02_num_u64_segment() {
    u64_body(0, true);
}

//@ id: A-1u-sL
//@ tier: quick
//@ cap: 600
//@ desc: u64 field above i64::MAX, segment tier: equals the integer comparison
//@ functions: NumericCondition::evaluate_at, ColumnValues::get_u64_at
//@ bounds: one row; value in (i64::MAX, u64::MAX], literal >= 0; 6 operators
//@ assumes: literal >= 0
//@ stubs: none
#[kani::proof]
#[kani::unwind(10)]
fn c02_num_u64_large_segment() {
    u64_body(2, true);
}

//@ id: A-1u-m
//@ tier: quick
//@ cap: 600
//@ desc: u64 field, memory tier (Int64 as produced by ScalarValue::from): equals the integer comparison, for negative literals too
//@ functions: NumericCondition::evaluate_event_direct, DirectEventAccessor::get_field_as_i64
//@ bounds: one row; value over u64 <= i64::MAX, literal any i64; 6 operators
//@ assumes: value <= i64::MAX (larger values: A-1u-mL)
//@ stubs: none
#[kani::proof]
#[kani::unwind(4)]
fn c02_num_u64_memory() {
    let neg: bool = kani::any();
    u64_body(if neg { 1 } else { 0 }, false);
}

//@ id: A-1u-w1
//@ tier: quick
//@ cap: 600
//@ expect: finding F-C02-a
//@ desc: witness for F-C02-a: u64 column on the segment tier and a negative literal
//@ functions: NumericCondition::evaluate_at
//@ bounds: as A-1u-s with literal < 0
//@ assumes: literal < 0
//@ stubs: none
#[kani::proof]
#[kani::unwind(10)]
fn c02_num_u64_negative_literal_witness() {
    u64_body(1, true);
}

//@ id: A-1u-mL
//@ tier: thorough
//@ cap: 900
//@ desc: u64 value above i64::MAX on the memory tier (held as its decimal string): equals the integer comparison for every literal and operator (was finding F-C02-d, fixed)
//@ functions: NumericCondition::evaluate_event_direct, DirectEventAccessor::get_field_as_i64, DirectEventAccessor::get_field_as_u64, ScalarValue::as_i64
//@ bounds: value = 2^63 + d for d in {0, 2^63-1} picked symbolically (decimal strings are concrete so that str::parse stays tractable); literal any i64; 6 operators; unwind 24 (20 decimal digits)
//@ assumes: none
//@ stubs: none
#[kani::proof]
#[kani::unwind(24)]
fn c02_num_u64_large_memory() {
    let top: bool = kani::any();
    let u = if top { u64::MAX } else { 1u64 << 63 };
    let lit: i64 = kani::any();
    let (op, k) = any_op();
    let cond = NumericCondition::new("x".to_string(), op, lit);
    let expected = math_i128(k, u as i128, lit as i128);
    let ev = event_with(ScalarValue::Utf8(if top {
        "18446744073709551615".to_string()
    } else {
        "9223372036854775808".to_string()
    }));
    let in_memory = cond.evaluate_event_direct(&DirectEventAccessor::new(&ev));
    assert!(in_memory == expected, "memory tier equals the integer comparison (u64 column)");
    kani::cover!(lit < 0 && expected, "negative literal matches");
    kani::cover!(!expected, "no match");
    std::mem::forget(ev);
    std::mem::forget(cond);
}

fn f64_body(check_memory: bool) {
    let f: f64 = kani::any();
    let lit: i64 = kani::any();
    let (op, k) = any_op();
    kani::assume(f.is_finite());
    // literal exactly representable as f64, so `lit as f64` is the mathematical value
    kani::assume(lit >= -(1i64 << 53) && lit <= (1i64 << 53));
    let cond = NumericCondition::new("x".to_string(), op, lit);
    let expected = math_f64(k, f, lit as f64);
    if check_memory {
        let ev = event_with(ScalarValue::Float64(f));
        let in_memory = cond.evaluate_event_direct(&DirectEventAccessor::new(&ev));
        assert!(in_memory == expected, "memory tier equals the numeric comparison (float field)");
        std::mem::forget(ev);
    } else {
        let seg = one_row_column(Phys::F64, f.to_bits(), false);
        let on_segment = cond.evaluate_at(&seg, 0);
        assert!(on_segment == expected, "segment tier equals the numeric comparison (float field)");
        std::mem::forget(seg);
    }
    kani::cover!(expected && f != (f as i64) as f64, "non-integral float matches");
    kani::cover!(!expected, "no match");
    std::mem::forget(cond);
}

//@ id: A-1f-s
//@ tier: quick
//@ cap: 600
//@ desc: float field with an integer literal, segment tier: equals the numeric comparison
//@ functions: NumericCondition::evaluate_at, ColumnValues::get_f64_at
//@ bounds: one row; any finite f64; |literal| <= 2^53 (exactly representable); 6 operators
//@ assumes: finite stored value (non-finite floats are not accepted by STORE)
//@ stubs: none
#[kani::proof]
#[kani::unwind(10)]
fn c02_num_f64_segment() {
    f64_body(false);
}

//@ id: A-1f-m
//@ tier: quick
//@ cap: 600
//@ desc: float field with an integer literal, memory tier: equals the numeric comparison (and hence the segment tier)
//@ functions: NumericCondition::evaluate_event_direct, DirectEventAccessor::get_field_as_i64
//@ bounds: as A-1f-s
//@ assumes: finite stored value
//@ stubs: none
#[kani::proof]
#[kani::unwind(4)]
fn c02_num_f64_memory() {
    f64_body(true);
}

fn logical_body(which: u8, segment: bool) {
    let v: i64 = kani::any();
    let (l1, l2): (i64, i64) = kani::any();
    let (op1, k1) = any_op();
    let (op2, k2) = any_op();
    let a = math_i128(k1, v as i128, l1 as i128);
    let b = math_i128(k2, v as i128, l2 as i128);
    let c1: Box<dyn Condition> = Box::new(NumericCondition::new("x".to_string(), op1, l1));
    let c2: Box<dyn Condition> = Box::new(NumericCondition::new("x".to_string(), op2, l2));
    let (cond, expected) = match which {
        0 => (LogicalCondition::new(vec![c1, c2], LogicalOp::And), a && b),
        1 => (LogicalCondition::new(vec![c1, c2], LogicalOp::Or), a || b),
        _ => {
            std::mem::forget(c2);
            (LogicalCondition::new(vec![c1], LogicalOp::Not), !a)
        }
    };
    if segment {
        let seg = one_row_column(Phys::I64, v as u64, false);
        assert!(cond.evaluate_at(&seg, 0) == expected, "segment tier: connective semantics");
        std::mem::forget(seg);
    } else {
        let ev = event_with(ScalarValue::Int64(v));
        assert!(
            cond.evaluate_event_direct(&DirectEventAccessor::new(&ev)) == expected,
            "memory tier: connective semantics"
        );
        std::mem::forget(ev);
    }
    kani::cover!(a && !b, "first leaf true, second false");
    kani::cover!(!a && b, "first leaf false, second true");
    std::mem::forget(cond);
}

//@ id: A-3-and-s
//@ tier: quick
//@ cap: 900
//@ desc: AND over numeric leaves equals the boolean combination of the leaf comparisons on the segment tier
//@ functions: LogicalCondition::evaluate_at, NumericCondition::evaluate_at
//@ bounds: one i64 field, one row, two leaves with arbitrary i64 literals and any of the 6 operators each
//@ assumes: none
//@ stubs: none
#[kani::proof]
#[kani::unwind(10)]
fn c02_logical_and_segment() {
    logical_body(0, true);
}

//@ id: A-3-and-m
//@ tier: thorough
//@ cap: 900
//@ desc: AND over numeric leaves equals the boolean combination of the leaf comparisons on the memory tier
//@ functions: LogicalCondition::evaluate_event_direct, NumericCondition::evaluate_event_direct
//@ bounds: one i64 field, one row, two leaves with arbitrary i64 literals and any of the 6 operators each
//@ assumes: none
//@ stubs: none
#[kani::proof]
#[kani::unwind(4)]
fn c02_logical_and_memory() {
    logical_body(0, false);
}

//@ id: A-3-or-s
//@ tier: quick
//@ cap: 900
//@ desc: OR over numeric leaves equals the boolean combination of the leaf comparisons on the segment tier
//@ functions: LogicalCondition::evaluate_at, NumericCondition::evaluate_at
//@ bounds: one i64 field, one row, two leaves with arbitrary i64 literals and any of the 6 operators each
//@ assumes: none
//@ stubs: none
#[kani::proof]
#[kani::unwind(10)]
fn c02_logical_or_segment() {
    logical_body(1, true);
}

//@ id: A-3-or-m
//@ tier: thorough
//@ cap: 900
//@ desc: OR over numeric leaves equals the boolean combination of the leaf comparisons on the memory tier
//@ functions: LogicalCondition::evaluate_event_direct, NumericCondition::evaluate_event_direct
//@ bounds: one i64 field, one row, two leaves with arbitrary i64 literals and any of the 6 operators each
//@ assumes: none
//@ stubs: none
#[kani::proof]
#[kani::unwind(4)]
fn c02_logical_or_memory() {
    logical_body(1, false);
}

//@ id: A-3-not-s
//@ tier: quick
//@ cap: 900
//@ desc: NOT over numeric leaves equals the boolean combination of the leaf comparisons on the segment tier
//@ functions: LogicalCondition::evaluate_at, NumericCondition::evaluate_at
//@ bounds: one i64 field, one row, two leaves with arbitrary i64 literals and any of the 6 operators each
//@ assumes: none
//@ stubs: none
#[kani::proof]
#[kani::unwind(10)]
fn c02_logical_not_segment() {
    logical_body(2, true);
}

//@ id: A-3-not-m
//@ tier: thorough
//@ cap: 900
//@ desc: NOT over numeric leaves equals the boolean combination of the leaf comparisons on the memory tier
//@ functions: LogicalCondition::evaluate_event_direct, NumericCondition::evaluate_event_direct
//@ bounds: one i64 field, one row, two leaves with arbitrary i64 literals and any of the 6 operators each
//@ assumes: none
//@ stubs: none
#[kani::proof]
#[kani::unwind(4)]
fn c02_logical_not_memory() {
    logical_body(2, false);
}

//@ id: A-4w
//@ tier: quick
//@ cap: 900
//@ expect: finding F-C02-b
//@ desc: witness for F-C02-b: a float literal in WHERE (x > 2.5): the evaluator built by ConditionEvaluatorBuilder::add_where_clause must select exactly the events whose value satisfies the comparison
//@ functions: ConditionEvaluatorBuilder::add_where_clause, into_evaluator, ConditionEvaluator::evaluate_event
//@ bounds: literal 2.5 (concrete), stored value any finite f64, operator >
//@ assumes: finite stored value
//@ stubs: std::hash::RandomState::new -> fixed keys (ConditionEvaluator::new creates an empty HashSet)
#[kani::proof]
#[kani::stub(std::hash::RandomState::new, crate::util::fixed_random_state)]
#[kani::unwind(6)]
fn c02_float_literal_witness() {
    let v: f64 = kani::any();
    kani::assume(v.is_finite());
    let lit = serde_json::Value::Number(serde_json::Number::from_f64(2.5).unwrap());
    let expr = Expr::Compare { field: "x".to_string(), op: CmdOp::Gt, value: lit };
    let mut b = ConditionEvaluatorBuilder::new();
    b.add_where_clause(&expr);
    let ev = event_with(ScalarValue::Float64(v));
    let evaluator = b.into_evaluator();
    let selected = evaluator.evaluate_event(&ev);
    assert!(selected == (v > 2.5), "a float literal selects exactly the matching events");
    std::mem::forget(ev);
    std::mem::forget(evaluator);
    std::mem::forget(expr);
}

#[cfg(test)]
mod replay {
    use super::*;
    include!("replay/c02_predicates.rs");
}
