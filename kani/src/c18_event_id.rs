//! C18 — event ids are unique and increase in append order within a shard.
//! Kernels: `EventIdGenerator::next`, `wait_next_millis`, `current_millis` (through the
//! cfg(kani) clock hook `verif_clock`), `WalEntry::from_event`.
use snel_db::engine::core::event::event_id::verif_clock;
use snel_db::engine::core::wal::wal_entry::WalEntry;
use snel_db::engine::core::{EventBuilder, EventId, EventIdGenerator};

const EPOCH: u64 = 1_609_459_200_000;
const TS_SPAN: u64 = 1 << 42;

fn in_window(ms: u64) -> bool {
    ms >= EPOCH && ms < EPOCH + TS_SPAN
}

fn key(id: EventId) -> (u64, u64, u64) {
    let r = id.raw();
    (r >> 22, (r >> 12) & 0x3FF, r & 0xFFF)
}

/// Three symbolic clock readings; the third one is strictly after `floor` (fairness: the
/// clock eventually advances, so `wait_next_millis` terminates within the unwind bound).
/// After the script the hook's clock advances by 1 ms per reading.
fn install_clock(floor: u64) -> [u64; 3] {
    let r: [u64; 3] = kani::any();
    kani::assume(in_window(r[0]) && in_window(r[1]) && in_window(r[2]));
    kani::assume(r[2] > floor);
    verif_clock::set_script(&r);
    r
}

//@ id: A-1
//@ tier: quick
//@ cap: 300
//@ desc: one inductive step of EventIdGenerator::next from an arbitrary reachable state under an arbitrary (regressing, repeating, advancing) clock: (millis,sequence) strictly increases, the id encodes the post-state, the raw id exceeds the pre-state's id
//@ functions: EventIdGenerator::next, wait_next_millis, current_millis
//@ bounds: last_millis any value in the 42-bit window (or 0 = fresh), sequence 0..=4095, shard id any u16, 3 symbolic clock readings then +1ms per reading; unwind 4 (wait loop spins at most twice by fairness)
//@ assumes: clock readings lie in [2020-12 epoch, epoch+2^42 ms); the third reading is past last_millis (the clock eventually advances)
//@ stubs: std::thread::yield_now -> no-op; current_millis reads the scripted clock through the cfg(kani) hook
#[kani::proof]
#[kani::stub(std::thread::yield_now, crate::util::noop)]
#[kani::unwind(4)]
fn c18_next_inductive_step() {
    let last: u64 = kani::any();
    let seq: u16 = kani::any();
    let shard: u16 = kani::any();
    kani::assume(seq <= 0xFFF);
    kani::assume(last == 0 || (in_window(last) && last < EPOCH + TS_SPAN - 1));
    let r = install_clock(last);
    let mut g = EventIdGenerator::verif_from_parts(last, seq);
    let id = g.next(shard);
    let (l2, s2) = g.verif_parts();
    assert!(s2 <= 0xFFF, "sequence stays within 12 bits");
    assert!(l2 >= last, "last_millis never decreases");
    assert!(in_window(l2), "post-state stays in the representable window");
    assert!(
        l2 > last || (l2 == last && s2 > seq),
        "(millis, sequence) strictly increases"
    );
    let (ts, sh, sq) = key(id);
    assert!(ts == l2 - EPOCH, "timestamp component is the post-state millisecond");
    assert!(sh == (shard as u64 & 0x3FF), "shard component");
    assert!(sq == s2 as u64, "sequence component");
    if last != 0 {
        let prev_raw = ((last - EPOCH) << 22) | ((shard as u64 & 0x3FF) << 12) | seq as u64;
        assert!(id.raw() > prev_raw, "new id exceeds the previous id of this shard");
    }
    kani::cover!(seq == 0xFFF && s2 == 0 && l2 > last, "sequence wrapped and waited for next millisecond");
    kani::cover!(verif_clock::reads() >= 3, "wait loop spun at least once");
    kani::cover!(r[0] < last && l2 == last, "clock regressed and was pinned");
    kani::cover!(l2 > last && last != 0 && s2 == 0, "new millisecond resets the sequence");
}

//@ id: A-1b
//@ tier: quick
//@ cap: 300
//@ desc: two consecutive next() calls from an arbitrary state: second id strictly greater than the first (direct statement of per-shard monotonicity and uniqueness for adjacent events)
//@ functions: EventIdGenerator::next, wait_next_millis, current_millis
//@ bounds: as A-1, 4 scripted readings; unwind 6 (script copy loop of 4 + wait loop)
//@ assumes: clock in window; readings 3 and 4 are past every earlier value (clock eventually advances)
//@ stubs: std::thread::yield_now -> no-op
#[kani::proof]
#[kani::stub(std::thread::yield_now, crate::util::noop)]
#[kani::unwind(6)]
fn c18_two_steps_increase() {
    let last: u64 = kani::any();
    let seq: u16 = kani::any();
    let shard: u16 = kani::any();
    kani::assume(seq <= 0xFFF);
    kani::assume(last == 0 || (in_window(last) && last < EPOCH + TS_SPAN - 4));
    let r: [u64; 4] = kani::any();
    kani::assume(in_window(r[0]) && in_window(r[1]) && in_window(r[2]) && in_window(r[3]));
    kani::assume(r[3] < EPOCH + TS_SPAN - 4);
    // fairness: once the generator waits, the clock moves past the value it waits for
    kani::assume(r[1] > last || r[2] > last);
    kani::assume(r[3] > r[0] && r[3] > r[1] && r[3] > r[2] && r[3] > last);
    verif_clock::set_script(&r);
    let mut g = EventIdGenerator::verif_from_parts(last, seq);
    let a = g.next(shard);
    let b = g.next(shard);
    assert!(b.raw() > a.raw(), "ids strictly increase in application order");
    kani::cover!(key(a).0 == key(b).0, "both ids in one millisecond");
    kani::cover!(key(b).2 == 0 && key(a).2 == 0xFFF, "burst crosses the 4096 boundary");
}

//@ id: A-2
//@ tier: quick
//@ cap: 300
//@ desc: field layout for any clock value at all: components never overlap (ts<2^42, shard<2^10, seq<2^12 decode back); covers report the 42-bit truncation and pre-2020 saturation regions that the window assumption of A-1 excludes
//@ functions: EventIdGenerator::next
//@ bounds: fresh generator, one reading over the full u64 range, shard any u16
//@ assumes: none
//@ stubs: std::thread::yield_now -> no-op
#[kani::proof]
#[kani::stub(std::thread::yield_now, crate::util::noop)]
#[kani::unwind(4)]
fn c18_field_layout() {
    let now: u64 = kani::any();
    let shard: u16 = kani::any();
    kani::assume(now != 0);
    verif_clock::set_script(&[now]);
    let mut g = EventIdGenerator::new();
    let id = g.next(shard);
    let (ts, sh, sq) = key(id);
    assert!(sq == 0);
    assert!(sh == (shard as u64 & 0x3FF));
    assert!(ts < TS_SPAN);
    if in_window(now) {
        assert!(ts == now - EPOCH);
    }
    kani::cover!(now < EPOCH && ts == 0, "pre-epoch clock saturates to 0 (outside the claim)");
    kani::cover!(now >= EPOCH + TS_SPAN, "clock beyond the 42-bit window truncates (outside the claim)");
}

//@ id: A-3
//@ tier: quick
//@ cap: 300
//@ desc: ids issued by two different shards (< 1024) never collide, whatever their generator states and clocks (shard tag differs)
//@ functions: EventIdGenerator::next
//@ bounds: two generators in arbitrary states, one scripted reading each, shard ids < 1024
//@ assumes: shard ids < 1024 (10-bit tag); clock in window
//@ stubs: std::thread::yield_now -> no-op
#[kani::proof]
#[kani::stub(std::thread::yield_now, crate::util::noop)]
#[kani::unwind(4)]
fn c18_cross_shard_unique() {
    let (l1, s1, l2, s2): (u64, u16, u64, u16) = kani::any();
    let (sh1, sh2): (u16, u16) = kani::any();
    kani::assume(s1 <= 0xFFF && s2 <= 0xFFF);
    kani::assume(sh1 < 1024 && sh2 < 1024 && sh1 != sh2);
    kani::assume(l1 == 0 || (in_window(l1) && l1 < EPOCH + TS_SPAN - 4));
    kani::assume(l2 == 0 || (in_window(l2) && l2 < EPOCH + TS_SPAN - 4));
    let r: [u64; 2] = kani::any();
    kani::assume(in_window(r[0]) && in_window(r[1]));
    kani::assume(r[0] > l1 && r[1] > l2);
    let mut g1 = EventIdGenerator::verif_from_parts(l1, s1);
    let mut g2 = EventIdGenerator::verif_from_parts(l2, s2);
    verif_clock::set_script(&r[0..1]);
    let a = g1.next(sh1);
    verif_clock::set_script(&r[1..2]);
    let b = g2.next(sh2);
    assert!(a.raw() != b.raw(), "ids of different shards differ");
    assert!(key(a).1 == sh1 as u64 && key(b).1 == sh2 as u64, "shard tag is the shard id");
    kani::cover!(key(a).0 == key(b).0 && key(a).2 == key(b).2, "same millisecond and sequence on both shards");
}

//@ id: A-4
//@ tier: quick
//@ cap: 300
//@ desc: restart: a fresh generator (what ShardContext::new builds; recovery does not reseed it) issues its first id at a clock reading t2 >= the last millisecond used before the restart: the new id exceeds every id of the previous lifetime
//@ functions: EventIdGenerator::new, EventIdGenerator::next
//@ bounds: previous lifetime summarised by its last (millis, sequence); one reading after restart
//@ assumes: clock in window; CARVE-OUT F-C18-a: the clock did not step back across the restart to or below the last used millisecond (t2 > last)
//@ stubs: std::thread::yield_now -> no-op
#[kani::proof]
#[kani::stub(std::thread::yield_now, crate::util::noop)]
#[kani::unwind(4)]
fn c18_restart_monotone_clock() {
    restart_body(false);
}

//@ id: A-4w
//@ tier: quick
//@ cap: 300
//@ expect: finding F-C18-a
//@ desc: witness for F-C18-a: same as A-4 but the clock stepped back across the restart (t2 <= last used millisecond); asserts the property inside the carved-out region and is expected to fail
//@ functions: EventIdGenerator::new, EventIdGenerator::next
//@ bounds: as A-4
//@ assumes: clock in window; t2 <= last
//@ stubs: std::thread::yield_now -> no-op
#[kani::proof]
#[kani::stub(std::thread::yield_now, crate::util::noop)]
#[kani::unwind(4)]
fn c18_restart_clock_regress_witness() {
    restart_body(true);
}

fn restart_body(regress: bool) {
    let last: u64 = kani::any();
    let seq: u16 = kani::any();
    let shard: u16 = kani::any();
    let t2: u64 = kani::any();
    kani::assume(seq <= 0xFFF && in_window(last) && in_window(t2));
    if regress {
        kani::assume(t2 <= last);
    } else {
        kani::assume(t2 > last);
    }
    let old_raw = ((last - EPOCH) << 22) | ((shard as u64 & 0x3FF) << 12) | seq as u64;
    verif_clock::set_script(&[t2]);
    let mut g = EventIdGenerator::new();
    let id = g.next(shard);
    assert!(
        id.raw() > old_raw,
        "first id after a restart exceeds the ids of the previous lifetime"
    );
    kani::cover!(t2 == last + 1, "restart one millisecond later");
}

//@ id: A-5
//@ tier: quick
//@ cap: 300
//@ desc: the WAL entry built from an event carries exactly the event's id and timestamp (recovery reproduces the original ids: wal_recovery copies entry.event_id back and only generates an id when it is zero)
//@ functions: WalEntry::from_event, EventBuilder::build, Event::event_id
//@ bounds: id and timestamp any u64, empty payload, empty strings
//@ assumes: none
//@ stubs: none
#[kani::proof]
#[kani::unwind(4)]
fn c18_wal_entry_keeps_id() {
    let raw: u64 = kani::any();
    let ts: u64 = kani::any();
    let mut b = EventBuilder::new();
    b.event_id = EventId::from_raw(raw);
    b.timestamp = ts;
    let e = b.build();
    let w = WalEntry::from_event(&e);
    assert!(w.event_id.raw() == raw);
    assert!(w.event_id == e.event_id());
    assert!(w.timestamp == ts);
    kani::cover!(raw == 0, "zero id (recovery would regenerate)");
    kani::cover!(raw > (1u64 << 63), "id above i64::MAX");
    std::mem::forget(w);
    std::mem::forget(e);
}

#[cfg(test)]
mod replay {
    use super::*;
    include!("replay/c18_event_id.rs");
}
