//! C10 — ORDER BY / LIMIT / OFFSET. Kernel: the typed comparison every sorter and merger uses
//! (`ScalarValue::compare`; `compare_scalar_values` in ordered_merger.rs, memtable_source.rs,
//! segment_query_runner.rs and aggregate_stream.rs all try u64 first and then delegate to it,
//! which is exactly what `compare` itself does) and the heap ordering of the k-way merge.
use snel_db::engine::core::read::flow::verif_heap_item_cmp;
use snel_db::engine::types::ScalarValue;
use std::cmp::Ordering;

fn check_total_order(ab: Ordering, ba: Ordering, bc: Ordering, ac: Ordering) {
    assert!(ab == ba.reverse(), "antisymmetric");
    if ab != Ordering::Greater && bc != Ordering::Greater {
        assert!(ac != Ordering::Greater, "transitive (<=)");
    }
    if ab == Ordering::Less && bc != Ordering::Greater {
        assert!(ac == Ordering::Less, "transitive (<, <=)");
    }
    if ab == Ordering::Equal && bc == Ordering::Equal {
        assert!(ac == Ordering::Equal, "transitive (=)");
    }
}

//@ id: A-1i
//@ tier: quick
//@ cap: 300
//@ desc: integer sort keys: ScalarValue::compare on Int64 equals the integer order (so it is a total order), over three arbitrary values
//@ functions: ScalarValue::compare, as_u64, as_i64
//@ bounds: three symbolic i64
//@ assumes: none
//@ stubs: none
#[kani::proof]
#[kani::unwind(4)]
fn c10_compare_int64_is_integer_order() {
    let (a, b, c): (i64, i64, i64) = kani::any();
    let (va, vb, vc) = (ScalarValue::Int64(a), ScalarValue::Int64(b), ScalarValue::Int64(c));
    assert!(va.compare(&vb) == a.cmp(&b), "equals i64 order");
    check_total_order(va.compare(&vb), vb.compare(&va), vb.compare(&vc), va.compare(&vc));
    kani::cover!(a < 0 && b >= 0, "mixed signs");
}

//@ id: A-1t
//@ tier: quick
//@ cap: 300
//@ desc: time sort keys: compare on Timestamp equals the integer order; Timestamp vs Int64 of the same field compare by value
//@ functions: ScalarValue::compare
//@ bounds: two symbolic i64, each wrapped as Timestamp or Int64
//@ assumes: none
//@ stubs: none
#[kani::proof]
#[kani::unwind(4)]
fn c10_compare_timestamp_is_integer_order() {
    let (a, b): (i64, i64) = kani::any();
    let mixed: bool = kani::any();
    let ord = if mixed {
        ScalarValue::Timestamp(a).compare(&ScalarValue::Int64(b))
    } else {
        ScalarValue::Timestamp(a).compare(&ScalarValue::Timestamp(b))
    };
    assert!(ord == a.cmp(&b));
    kani::cover!(a < 0 && b < 0 && a != b, "two negative instants");
}

//@ id: A-1f
//@ tier: quick
//@ cap: 600
//@ desc: float sort keys: compare on non-NaN Float64 equals the numeric order, total over three values
//@ functions: ScalarValue::compare, as_f64
//@ bounds: three symbolic non-NaN f64 (infinities, signed zeros included)
//@ assumes: values are not NaN (STORE does not accept non-finite floats)
//@ stubs: none
#[kani::proof]
#[kani::unwind(4)]
fn c10_compare_float64_is_numeric_order() {
    let (a, b, c): (f64, f64, f64) = kani::any();
    kani::assume(!a.is_nan() && !b.is_nan() && !c.is_nan());
    let (va, vb, vc) = (ScalarValue::Float64(a), ScalarValue::Float64(b), ScalarValue::Float64(c));
    assert!(va.compare(&vb) == a.partial_cmp(&b).unwrap(), "equals f64 order");
    check_total_order(va.compare(&vb), vb.compare(&va), vb.compare(&vc), va.compare(&vc));
    kani::cover!(a < 0.0 && b > 0.0, "mixed signs");
}

//@ id: A-1x
//@ tier: quick
//@ cap: 600
//@ desc: float field holding integer-valued JSON numbers: Int64 vs Float64 compare by numeric value
//@ functions: ScalarValue::compare, as_f64
//@ bounds: i64 with |i| <= 2^53 (exact in f64), any non-NaN f64, both argument orders
//@ assumes: |i| <= 2^53; f not NaN
//@ stubs: none
#[kani::proof]
#[kani::unwind(4)]
fn c10_compare_int_float_pair() {
    let i: i64 = kani::any();
    let f: f64 = kani::any();
    kani::assume(!f.is_nan());
    kani::assume(i >= -(1i64 << 53) && i <= (1i64 << 53));
    let expected = (i as f64).partial_cmp(&f).unwrap();
    assert!(ScalarValue::Int64(i).compare(&ScalarValue::Float64(f)) == expected);
    assert!(ScalarValue::Float64(f).compare(&ScalarValue::Int64(i)) == expected.reverse());
    kani::cover!(expected == Ordering::Equal, "equal int and float");
}

//@ id: A-1b
//@ tier: quick
//@ cap: 300
//@ desc: boolean sort keys: false < true
//@ functions: ScalarValue::compare, as_bool
//@ bounds: two symbolic bools
//@ assumes: none
//@ stubs: none
#[kani::proof]
#[kani::unwind(4)]
fn c10_compare_bool() {
    let (a, b): (bool, bool) = kani::any();
    assert!(ScalarValue::Boolean(a).compare(&ScalarValue::Boolean(b)) == a.cmp(&b));
    kani::cover!(a && !b, "true vs false");
}

//@ id: A-3
//@ tier: quick
//@ cap: 600
//@ desc: heap ordering of the k-way ordered merge: BinaryHeap is a max-heap, so the item popped first must be the smallest key when ascending and the largest when descending; ties go to the lower shard index
//@ functions: HeapItem::cmp (via cfg(kani) hook verif_heap_item_cmp), compare_scalar_values, ScalarValue::compare
//@ bounds: two Int64 keys, two shard indexes < 1024, direction symbolic
//@ assumes: none
//@ stubs: none
#[kani::proof]
#[kani::unwind(4)]
fn c10_heap_item_order() {
    let (ka, kb): (i64, i64) = kani::any();
    let (sa, sb): (usize, usize) = kani::any();
    kani::assume(sa < 1024 && sb < 1024);
    let asc: bool = kani::any();
    let ord = verif_heap_item_cmp(ScalarValue::Int64(ka), sa, ScalarValue::Int64(kb), sb, asc);
    // `a` is popped before `b` iff ord == Greater
    if ka != kb {
        let a_first = ord == Ordering::Greater;
        if asc {
            assert!(a_first == (ka < kb), "ascending: smaller key pops first");
        } else {
            assert!(a_first == (ka > kb), "descending: larger key pops first");
        }
    } else if sa != sb {
        assert!(ord != Ordering::Equal, "ties are broken by shard index");
    }
    kani::cover!(asc && ka < kb, "ascending distinct");
    kani::cover!(!asc && ka == kb && sa != sb, "descending tie");
}

//@ id: A-2w
//@ tier: quick
//@ cap: 600
//@ expect: finding F-C10-a
//@ desc: witness for F-C10-a: string sort keys that look like numbers are not ordered as strings ("10" vs "9")
//@ functions: ScalarValue::compare, as_u64
//@ bounds: two concrete strings (string parsing of symbolic text does not finish under Kani)
//@ assumes: none
//@ stubs: none
#[kani::proof]
#[kani::unwind(6)]
fn c10_compare_numeric_looking_strings_witness() {
    let a = ScalarValue::Utf8("10".to_string());
    let b = ScalarValue::Utf8("9".to_string());
    let ord = a.compare(&b);
    assert!(ord == "10".cmp("9"), "string keys compare in string order");
    std::mem::forget(a);
    std::mem::forget(b);
}

#[cfg(test)]
mod replay {
    use super::*;
    include!("replay/c10_order.rs");
}
