// shared by the Kani harness (c08_trie.rs) and the native validator (native/src/main.rs)
use snel_db::engine::core::filter::surf_trie::SurfTrie;

pub fn trie_for(a: [u8; 3], b: [u8; 3]) -> SurfTrie {
    // precondition: a <= b lexicographically
    let p = if a[0] != b[0] {
        0
    } else if a[1] != b[1] {
        1
    } else if a[2] != b[2] {
        2
    } else {
        3
    };
    match p {
        0 => SurfTrie {
            degrees: vec![2, 1, 1, 1, 1, 0, 0],
            child_offsets: vec![0, 2, 3, 4, 5, 6, 6],
            labels: vec![a[0], b[0], a[1], b[1], a[2], b[2]],
            edge_to_child: vec![1, 2, 3, 4, 5, 6],
            is_terminal_bits: vec![0b0110_0000],
        },
        1 => SurfTrie {
            degrees: vec![1, 2, 1, 1, 0, 0],
            child_offsets: vec![0, 1, 3, 4, 5, 5],
            labels: vec![a[0], a[1], b[1], a[2], b[2]],
            edge_to_child: vec![1, 2, 3, 4, 5],
            is_terminal_bits: vec![0b0011_0000],
        },
        2 => SurfTrie {
            degrees: vec![1, 1, 2, 0, 0],
            child_offsets: vec![0, 1, 2, 4, 4],
            labels: vec![a[0], a[1], a[2], b[2]],
            edge_to_child: vec![1, 2, 3, 4],
            is_terminal_bits: vec![0b0001_1000],
        },
        _ => SurfTrie {
            degrees: vec![1, 1, 1, 0],
            child_offsets: vec![0, 1, 2, 3],
            labels: vec![a[0], a[1], a[2]],
            edge_to_child: vec![1, 2, 3],
            is_terminal_bits: vec![0b0000_1000],
        },
    }
}

