//! C16 — a time value denotes the same instant on every path that reads or writes it.
//! Kernel: `TimeParser::normalize_integer_epoch` (the unit heuristic every integer spelling
//! goes through: payload numbers, numeric strings, SINCE / WHERE literals) via the cfg(kani)
//! hook, and the float branch of `TimeParser::normalize_json_value`.
use snel_db::shared::time::verif_normalize_integer_epoch;

const P11: i128 = 100_000_000_000; // 10^11
const P14: i128 = 100_000_000_000_000; // 10^14
const P16: i128 = 10_000_000_000_000_000; // 10^16
const P19: i128 = 10_000_000_000_000_000_000; // 10^19

/// unit divisor selected by the documented digit rule (<= 11 digits: seconds, 12-14: ms,
/// 15-16: us, 17-19: ns, more: rejected)
fn unit_of(n: i128) -> Option<i128> {
    let a = if n < 0 { -n } else { n };
    if a < P11 {
        Some(1)
    } else if a < P14 {
        Some(1_000)
    } else if a < P16 {
        Some(1_000_000)
    } else if a < P19 {
        Some(1_000_000_000)
    } else {
        None
    }
}

/// `which` selects the unit window so that each harness carries one constant divider
fn epoch_body(which: u8, negative_fraction: bool) {
    let n64: i64 = kani::any();
    let n = n64 as i128;
    let a = if n < 0 { -n } else { n };
    let (lo, hi, unit): (i128, i128, i128) = match which {
        0 => (0, P11, 1),
        1 => (P11, P14, 1_000),
        2 => (P14, P16, 1_000_000),
        _ => (P16, P19, 1_000_000_000),
    };
    kani::assume(a >= lo && a < hi);
    let got = verif_normalize_integer_epoch(n);
    // the instant n/unit seconds, as an epoch second = floor (what an ISO-8601 spelling of the
    // same instant yields: chrono's timestamp() floors, and so does the float branch)
    let q = n / unit;
    let r = n % unit;
    let has_negative_fraction = r < 0;
    if negative_fraction {
        kani::assume(has_negative_fraction);
    } else {
        kani::assume(!has_negative_fraction);
    }
    let floor = if r < 0 { q - 1 } else { q };
    assert!(got == Some(floor as i64), "integer epoch maps to the floor of its instant in seconds");
    kani::cover!(n < 0, "instant before 1970");
    kani::cover!(a == lo + (negative_fraction as i128), "lower digit-count boundary of the unit (or zero)");
    kani::cover!(a == hi - 1, "upper digit-count boundary of the unit");
}

//@ id: A-1s
//@ tier: quick
//@ cap: 600
//@ desc: integer epochs of up to 11 digits are taken as seconds unchanged (negative included)
//@ functions: TimeParser::normalize_integer_epoch, num_digits_u128
//@ bounds: every i64 with |n| < 10^11; unwind 41 (digit loop over u128: at most 39 digits)
//@ assumes: none
//@ stubs: none
#[kani::proof]
#[kani::unwind(41)]
fn c16_epoch_seconds() {
    epoch_body(0, false);
}

//@ id: A-1ms
//@ tier: quick
//@ cap: 900
//@ desc: 12-14 digit integer epochs (milliseconds) map to floor(n / 1000) - the same epoch second an ISO-8601 spelling of that instant gets
//@ functions: TimeParser::normalize_integer_epoch, num_digits_u128
//@ bounds: every i64 with 10^11 <= |n| < 10^14 and no negative fractional part; unwind 41
//@ assumes: n >= 0 or n is a whole number of seconds (negative fractions: A-1neg)
//@ stubs: none
#[kani::proof]
#[kani::unwind(41)]
fn c16_epoch_millis() {
    epoch_body(1, false);
}

//@ id: A-1us
//@ tier: thorough
//@ cap: 1200
//@ optional: true
//@ desc: 15-16 digit integer epochs (microseconds) map to floor(n / 10^6)
//@ functions: TimeParser::normalize_integer_epoch, num_digits_u128
//@ bounds: every i64 with 10^14 <= |n| < 10^16 and no negative fractional part; unwind 41
//@ assumes: n >= 0 or n is a whole number of seconds
//@ stubs: none
#[kani::proof]
#[kani::unwind(41)]
fn c16_epoch_micros() {
    epoch_body(2, false);
}

//@ id: A-1ns
//@ tier: thorough
//@ cap: 1200
//@ optional: true
//@ desc: 17-19 digit integer epochs (nanoseconds) map to floor(n / 10^9)
//@ functions: TimeParser::normalize_integer_epoch, num_digits_u128
//@ bounds: every i64 with 10^16 <= |n| (all such i64 have <= 19 digits) and no negative fractional part; unwind 41
//@ assumes: n >= 0 or n is a whole number of seconds
//@ stubs: none
#[kani::proof]
#[kani::unwind(41)]
fn c16_epoch_nanos() {
    epoch_body(3, false);
}

//@ id: A-1neg
//@ tier: quick
//@ cap: 900
//@ desc: instants before 1970 given in ms with a fractional second: floor, like every other spelling of the same instant (was finding F-C16-a if it fails)
//@ functions: TimeParser::normalize_integer_epoch
//@ bounds: every negative i64 with 10^11 <= |n| < 10^14 that is not a multiple of 1000; unwind 41
//@ assumes: none
//@ stubs: none
#[kani::proof]
#[kani::unwind(41)]
fn c16_epoch_millis_negative_fraction() {
    epoch_body(1, true);
}

//@ id: A-1rej
//@ tier: quick
//@ cap: 600
//@ desc: integers of 20 or more digits are rejected (None), never silently mapped to an instant; no panic or overflow for any i128
//@ functions: TimeParser::normalize_integer_epoch, num_digits_u128
//@ bounds: every i128 with |n| >= 10^19; unwind 41
//@ assumes: none
//@ stubs: none
#[kani::proof]
#[kani::unwind(41)]
fn c16_epoch_too_large_rejected() {
    let n: i128 = kani::any();
    kani::assume(n != i128::MIN);
    let a = if n < 0 { -n } else { n };
    kani::assume(a >= P19);
    assert!(verif_normalize_integer_epoch(n).is_none());
    kani::cover!(n < 0, "negative");
}

#[cfg(test)]
mod replay {
    use super::*;
    include!("replay/c16_time.rs");
}
