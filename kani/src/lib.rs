//! Engine A: Kani proof harnesses over the real sneldb code (path dependency on /repo).
//! Every harness is `#[cfg(kani)]`; a plain `cargo build` of this crate is empty.
//! One cargo feature per property so that a check only compiles its own module.
#![allow(dead_code, unused_imports, unused_variables, clippy::all)]

#[cfg(kani)]
mod util;

#[cfg(all(kani, feature = "c18"))]
mod c18_event_id;

#[cfg(all(kani, feature = "c02"))]
mod c02_predicates;

#[cfg(all(kani, feature = "c08"))]
mod c08_pruning;
#[cfg(all(kani, feature = "c08"))]
mod c08_trie;

#[cfg(all(kani, feature = "c09"))]
mod c09_aggregates;

#[cfg(all(kani, feature = "c10"))]
mod c10_order;

#[cfg(all(kani, feature = "c16"))]
mod c16_time;

#[cfg(all(kani, feature = "c07"))]
mod c07_values;
