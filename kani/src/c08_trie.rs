//! C08 — the succinct range filter's probe side (`ZoneSurfFilter::zones_overlapping_ge / _le`,
//! i.e. `SurfQuery::find_first_key_geq / find_last_key_leq`) over a trie in the state the real
//! builder produces for a zone holding two fixed-length keys. The trie arrays are written out
//! by the harness per prefix-sharing shape (the builder itself goes through a HashMap and is
//! out of Kani's reach); `./native` checks these hand-built arrays against
//! `SurfTrie::build_from_sorted` for every key pair over a small alphabet on every run.
use snel_db::engine::core::filter::zone_surf_filter::{ZoneSurfEntry, ZoneSurfFilter};

include!("c08_trie_shapes.rs");

fn lex(x: [u8; 3]) -> u32 {
    ((x[0] as u32) << 16) | ((x[1] as u32) << 8) | x[2] as u32
}

fn probe_body(ge: bool, inclusive: bool) {
    let a: [u8; 3] = kani::any();
    let b: [u8; 3] = kani::any();
    let t: [u8; 3] = kani::any();
    kani::assume(lex(a) <= lex(b));
    let filter = ZoneSurfFilter { entries: vec![ZoneSurfEntry { zone_id: 7, trie: trie_for(a, b) }] };
    let zones = if ge {
        filter.zones_overlapping_ge(&t, inclusive, "s")
    } else {
        filter.zones_overlapping_le(&t, inclusive, "s")
    };
    let kept = !zones.is_empty();
    let (la, lb, lt) = (lex(a), lex(b), lex(t));
    let some_match = match (ge, inclusive) {
        (true, true) => la >= lt || lb >= lt,
        (true, false) => la > lt || lb > lt,
        (false, true) => la <= lt || lb <= lt,
        (false, false) => la < lt || lb < lt,
    };
    if some_match {
        assert!(kept, "a zone holding a key that satisfies the range probe is kept");
    }
    kani::cover!(some_match && a[0] != b[0] && t[0] == a[0] && t[1] == a[1], "probe shares a two-byte prefix with one key, match under the other branch");
    kani::cover!(!some_match, "no key matches");
    kani::cover!(some_match && la == lb, "single distinct key");
    std::mem::forget(zones);
    std::mem::forget(filter);
}

//@ id: A-5ge
//@ tier: quick
//@ cap: 900
//@ desc: SuRF probe, x >= t: ZoneSurfFilter::zones_overlapping_ge (find_first_key_geq with backtracking) keeps the zone whenever one of its two keys is >= the probe, for every pair of 3-byte keys (all four prefix-sharing shapes) and every 3-byte probe
//@ functions: ZoneSurfFilter::zones_overlapping_ge, SurfQuery::may_overlap_ge_with_stats, find_first_key_geq_with_stats, simd_first_ge (scalar tail), SurfTrie::child_range, is_terminal
//@ bounds: one zone, two symbolic 3-byte keys (a <= b), symbolic 3-byte probe; unwind 8 (trie depth 3, backtrack stack <= 3)
//@ assumes: trie arrays are those SurfTrie::build_from_sorted produces for {a, b} (validated natively on every run by `replay triecheck`)
//@ stubs: std::hash::RandomState::new -> fixed keys (CandidateZone::new creates an empty HashMap; no hash operation is performed)
//@ mem: 20
#[kani::proof]
#[kani::stub(std::hash::RandomState::new, crate::util::fixed_random_state)]
#[kani::unwind(8)]
fn c08_surf_probe_ge_inclusive() {
    probe_body(true, true);
}

//@ id: A-5gt
//@ tier: thorough
//@ cap: 900
//@ desc: SuRF probe, x > t (exclusive lower bound), as A-5ge
//@ functions: ZoneSurfFilter::zones_overlapping_ge, SurfQuery::may_overlap_ge_with_stats, find_first_key_geq_with_stats, find_last_key
//@ bounds: as A-5ge
//@ assumes: as A-5ge
//@ stubs: std::hash::RandomState::new -> fixed keys (CandidateZone::new creates an empty HashMap; no hash operation is performed)
//@ mem: 20
#[kani::proof]
#[kani::stub(std::hash::RandomState::new, crate::util::fixed_random_state)]
#[kani::unwind(8)]
fn c08_surf_probe_gt_exclusive() {
    probe_body(true, false);
}

//@ id: A-5le
//@ tier: quick
//@ cap: 900
//@ desc: SuRF probe, x <= t: zones_overlapping_le (find_last_key_leq) keeps the zone whenever one of its keys is <= the probe
//@ functions: ZoneSurfFilter::zones_overlapping_le, SurfQuery::may_overlap_le_with_stats, find_last_key_leq_with_stats, simd_last_le (scalar tail)
//@ bounds: as A-5ge
//@ assumes: as A-5ge
//@ stubs: std::hash::RandomState::new -> fixed keys (CandidateZone::new creates an empty HashMap; no hash operation is performed)
//@ mem: 20
#[kani::proof]
#[kani::stub(std::hash::RandomState::new, crate::util::fixed_random_state)]
#[kani::unwind(8)]
fn c08_surf_probe_le_inclusive() {
    probe_body(false, true);
}

//@ id: A-5lt
//@ tier: thorough
//@ cap: 900
//@ desc: SuRF probe, x < t (exclusive upper bound), as A-5le
//@ functions: ZoneSurfFilter::zones_overlapping_le, SurfQuery::may_overlap_le_with_stats, find_last_key_leq_with_stats, find_first_key
//@ bounds: as A-5ge
//@ assumes: as A-5ge
//@ stubs: std::hash::RandomState::new -> fixed keys (CandidateZone::new creates an empty HashMap; no hash operation is performed)
//@ mem: 20
#[kani::proof]
#[kani::stub(std::hash::RandomState::new, crate::util::fixed_random_state)]
#[kani::unwind(8)]
fn c08_surf_probe_lt_exclusive() {
    probe_body(false, false);
}

#[cfg(test)]
mod replay {
    use super::*;
    include!("replay/c08_trie.rs");
}
