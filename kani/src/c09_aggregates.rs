//! C09 — aggregates equal a fold over the selected events.
//! Kernels: partial-state merging (`AggState::merge`), the aggregators' value updates
//! (`Sum/Avg/Min/Max/CountField::update_*`, `merge`, `finalize`), the memory-tier update
//! (`AggregatorImpl::update_from_event`) and `snapshot_aggregator`.
use snel_db::engine::core::read::aggregate::ops::{
    AggOutput, AggregatorImpl, Avg, CountAll, CountField, Max, Min, Sum,
};
use snel_db::engine::core::read::aggregate::partial::{snapshot_aggregator, AggState};
use snel_db::engine::core::read::aggregate::plan::AggregateOpSpec;
use snel_db::engine::core::{Event, EventBuilder};
use snel_db::engine::types::ScalarValue;

/// three values, each assigned to partial state 0 or 1 (any split of the multiset)
fn values_and_split() -> ([i64; 3], [bool; 3]) {
    let v: [i64; 3] = kani::any();
    let side: [bool; 3] = kani::any();
    // sums stay inside i64 (the engine adds with `+=`; overflow is outside the claim)
    let lim = 1i64 << 60;
    kani::assume(v[0] > -lim && v[0] < lim && v[1] > -lim && v[1] < lim && v[2] > -lim && v[2] < lim);
    (v, side)
}

//@ id: A-1s
//@ tier: quick
//@ cap: 300
//@ desc: AggState::merge for CountAll / Sum / Avg: merging the partial states of any split of 3 values equals the state of the whole multiset (and is commutative; an empty part is the identity)
//@ functions: AggState::merge
//@ bounds: 3 symbolic i64 with |v| < 2^60, every assignment of values to the two parts
//@ assumes: |v| < 2^60 (no i64 overflow of sums)
//@ stubs: none
#[kani::proof]
#[kani::unwind(5)]
fn c09_aggstate_merge_sum_count_avg() {
    let (v, side) = values_and_split();
    let (mut s0, mut s1, mut c0, mut c1) = (0i64, 0i64, 0i64, 0i64);
    let mut i = 0;
    while i < 3 {
        if side[i] {
            s1 += v[i];
            c1 += 1;
        } else {
            s0 += v[i];
            c0 += 1;
        }
        i += 1;
    }
    let total = v[0] + v[1] + v[2];
    let mut a = AggState::Sum { sum: s0 };
    a.merge(&AggState::Sum { sum: s1 });
    assert!(a == AggState::Sum { sum: total });
    let mut b = AggState::Sum { sum: s1 };
    b.merge(&AggState::Sum { sum: s0 });
    assert!(b == AggState::Sum { sum: total }, "commutative");
    let mut c = AggState::CountAll { count: c0 };
    c.merge(&AggState::CountAll { count: c1 });
    assert!(c == AggState::CountAll { count: 3 });
    let mut d = AggState::Avg { sum: s0, count: c0 };
    d.merge(&AggState::Avg { sum: s1, count: c1 });
    assert!(d == AggState::Avg { sum: total, count: 3 });
    kani::cover!(c0 == 0, "one part empty");
    kani::cover!(c0 == 1 && c1 == 2, "1 + 2 split");
}

fn min_of(vals: &[i64; 3], side: &[bool; 3], which: bool) -> Option<i64> {
    let mut m: Option<i64> = None;
    let mut i = 0;
    while i < 3 {
        if side[i] == which {
            m = Some(match m {
                Some(x) if x <= vals[i] => x,
                _ => vals[i],
            });
        }
        i += 1;
    }
    m
}

fn max_of(vals: &[i64; 3], side: &[bool; 3], which: bool) -> Option<i64> {
    let mut m: Option<i64> = None;
    let mut i = 0;
    while i < 3 {
        if side[i] == which {
            m = Some(match m {
                Some(x) if x >= vals[i] => x,
                _ => vals[i],
            });
        }
        i += 1;
    }
    m
}

//@ id: A-1m
//@ tier: quick
//@ cap: 300
//@ desc: AggState::merge for Min / Max (numeric arm): merging the partial minima / maxima of any split of 3 values, including an empty part on either side, gives the minimum / maximum of all values
//@ functions: AggState::merge
//@ bounds: 3 symbolic i64 (full range), every split
//@ assumes: none
//@ stubs: none
#[kani::proof]
#[kani::unwind(5)]
fn c09_aggstate_merge_min_max() {
    let v: [i64; 3] = kani::any();
    let side: [bool; 3] = kani::any();
    let all_min = v[0].min(v[1]).min(v[2]);
    let all_max = v[0].max(v[1]).max(v[2]);
    let mut a = AggState::Min { min_num: min_of(&v, &side, false), min_str: None };
    a.merge(&AggState::Min { min_num: min_of(&v, &side, true), min_str: None });
    assert!(a == AggState::Min { min_num: Some(all_min), min_str: None });
    let mut b = AggState::Max { max_num: max_of(&v, &side, false), max_str: None };
    b.merge(&AggState::Max { max_num: max_of(&v, &side, true), max_str: None });
    assert!(b == AggState::Max { max_num: Some(all_max), max_str: None });
    kani::cover!(!side[0] && !side[1] && !side[2], "right part empty");
    kani::cover!(side[0] && side[1] && side[2], "left part empty");
    kani::cover!(side[0] != side[1], "both parts non-empty");
}

//@ id: A-2
//@ tier: quick
//@ cap: 600
//@ desc: aggregators fed value by value (the path both tiers end in), merged across two partitions and finalized, equal the mathematical metric: TOTAL = sum, AVG = sum/count in f64, MIN/MAX, COUNT field
//@ functions: Sum::update_value_i64/merge/finalize, Avg::update_value_i64/merge/finalize/sum_count, CountField::update_non_null/merge/finalize, CountAll::update/merge/finalize
//@ bounds: 3 symbolic i64 with |v| < 2^60, every split over two aggregator instances
//@ assumes: |v| < 2^60
//@ stubs: none
#[kani::proof]
#[kani::unwind(5)]
fn c09_aggregators_update_merge_finalize() {
    let (v, side) = values_and_split();
    let (mut s0, mut s1) = (Sum::new(String::new()), Sum::new(String::new()));
    let (mut a0, mut a1) = (Avg::new(String::new()), Avg::new(String::new()));
    let (mut c0, mut c1) = (CountField::new(String::new()), CountField::new(String::new()));
    let (mut n0, mut n1) = (CountAll::new(), CountAll::new());
    let mut i = 0;
    while i < 3 {
        if side[i] {
            s1.update_value_i64(v[i]);
            a1.update_value_i64(v[i]);
            c1.update_non_null();
            n1.update();
        } else {
            s0.update_value_i64(v[i]);
            a0.update_value_i64(v[i]);
            c0.update_non_null();
            n0.update();
        }
        i += 1;
    }
    s0.merge(&s1);
    a0.merge(&a1);
    c0.merge(&c1);
    n0.merge(&n1);
    let total = v[0] + v[1] + v[2];
    assert!(s0.finalize() == AggOutput::Sum(total));
    assert!(a0.sum_count() == (total, 3));
    assert!(a0.finalize() == AggOutput::Avg(total as f64 / 3.0));
    assert!(c0.finalize() == AggOutput::Count(3));
    assert!(n0.finalize() == AggOutput::Count(3));
    kani::cover!(side[0] && !side[1], "values on both partitions");
    kani::cover!(total < 0, "negative total");
}

fn event_with(value: ScalarValue) -> Event {
    let mut b = EventBuilder::new();
    b.payload.insert("x".to_string(), value);
    b.build()
}

//@ id: A-2e
//@ tier: quick
//@ cap: 900
//@ desc: memory tier: AggregatorImpl::update_from_event over events holding Int64 feeds TOTAL / AVG / COUNT field with exactly the stored values (two events; a null field is skipped by TOTAL/AVG/COUNT field and counted by COUNT)
//@ functions: AggregatorImpl::from_spec, update_from_event, finalize, Event::get_field_scalar
//@ bounds: two events, field x = Int64(any |v| < 2^60) or Null (symbolic per event)
//@ assumes: |v| < 2^60
//@ stubs: none
#[kani::proof]
#[kani::unwind(5)]
fn c09_update_from_event_numeric() {
    let (v0, v1): (i64, i64) = kani::any();
    let (null0, null1): (bool, bool) = kani::any();
    let lim = 1i64 << 60;
    kani::assume(v0 > -lim && v0 < lim && v1 > -lim && v1 < lim);
    let e0 = if null0 { event_with(ScalarValue::Null) } else { event_with(ScalarValue::Int64(v0)) };
    let e1 = if null1 { event_with(ScalarValue::Null) } else { event_with(ScalarValue::Int64(v1)) };
    let mut total = AggregatorImpl::from_spec(&AggregateOpSpec::Total { field: "x".to_string() });
    let mut avg = AggregatorImpl::from_spec(&AggregateOpSpec::Avg { field: "x".to_string() });
    let mut cf = AggregatorImpl::from_spec(&AggregateOpSpec::CountField { field: "x".to_string() });
    let mut ca = AggregatorImpl::from_spec(&AggregateOpSpec::CountAll);
    total.update_from_event(&e0);
    total.update_from_event(&e1);
    avg.update_from_event(&e0);
    avg.update_from_event(&e1);
    cf.update_from_event(&e0);
    cf.update_from_event(&e1);
    ca.update_from_event(&e0);
    ca.update_from_event(&e1);
    let sum = (if null0 { 0 } else { v0 }) + (if null1 { 0 } else { v1 });
    let cnt = (!null0) as i64 + (!null1) as i64;
    assert!(total.finalize() == AggOutput::Sum(sum));
    assert!(cf.finalize() == AggOutput::Count(cnt));
    assert!(ca.finalize() == AggOutput::Count(2));
    let expected_avg = if cnt == 0 { 0.0 } else { sum as f64 / cnt as f64 };
    assert!(avg.finalize() == AggOutput::Avg(expected_avg));
    kani::cover!(null0 && !null1, "one null");
    kani::cover!(!null0 && !null1 && sum < 0, "negative sum");
    std::mem::forget(e0);
    std::mem::forget(e1);
    std::mem::forget(total);
    std::mem::forget(avg);
    std::mem::forget(cf);
}

//@ id: A-3
//@ tier: quick
//@ cap: 300
//@ desc: snapshot_aggregator keeps the mergeable state of CountAll / CountField / Sum / Avg exactly (count, sum, (sum,count))
//@ functions: snapshot_aggregator, Sum::finalize, Avg::sum_count, CountAll::finalize, CountField::finalize
//@ bounds: 2 symbolic values |v| < 2^60
//@ assumes: |v| < 2^60
//@ stubs: none
#[kani::proof]
#[kani::unwind(5)]
fn c09_snapshot_roundtrip_numeric() {
    let (v0, v1): (i64, i64) = kani::any();
    let lim = 1i64 << 60;
    kani::assume(v0 > -lim && v0 < lim && v1 > -lim && v1 < lim);
    let mut s = Sum::new(String::new());
    s.update_value_i64(v0);
    s.update_value_i64(v1);
    let mut a = Avg::new(String::new());
    a.update_value_i64(v0);
    a.update_value_i64(v1);
    let mut c = CountAll::new();
    c.update();
    c.update();
    let mut f = CountField::new(String::new());
    f.update_non_null();
    assert!(snapshot_aggregator(&AggregatorImpl::Sum(s)) == AggState::Sum { sum: v0 + v1 });
    assert!(snapshot_aggregator(&AggregatorImpl::Avg(a)) == AggState::Avg { sum: v0 + v1, count: 2 });
    assert!(snapshot_aggregator(&AggregatorImpl::CountAll(c)) == AggState::CountAll { count: 2 });
    assert!(snapshot_aggregator(&AggregatorImpl::CountField(f)) == AggState::CountAll { count: 1 });
    kani::cover!(v0 + v1 == 0 && v0 != 0, "sum cancels");
}

// Tier agreement of the segment-tier `update(row, columns)` path was attempted here with a
// one-entry HashMap<String, ColumnValues>; under Kani it did not finish in 2400 s / 14 GB
// (String-keyed SipHash), so that obligation is decided by Engine B (C09 B-1*, B-2*) instead.

#[cfg(test)]
mod replay {
    use super::*;
    include!("replay/c09_aggregates.rs");
}
