//! Shared helpers for harnesses.
pub fn noop() {}

/// Replacement for `alloc::fmt::format` on paths whose message text is not the subject.
pub fn empty_format(_args: core::fmt::Arguments<'_>) -> String {
    String::new()
}

/// Replacement for `std::hash::RandomState::new`: fixed keys (the real one reads OS randomness
/// through a syscall Kani cannot model). Hash values are not the subject of any property.
pub fn fixed_random_state() -> std::hash::RandomState {
    unsafe { std::mem::transmute::<[u64; 2], std::hash::RandomState>([0x5eed, 0xf00d]) }
}
