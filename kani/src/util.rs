//! Shared helpers for harnesses.
pub fn noop() {}

/// Replacement for `alloc::fmt::format` on paths whose message text is not the subject.
pub fn empty_format(_args: core::fmt::Arguments<'_>) -> String {
    String::new()
}
