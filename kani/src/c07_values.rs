//! C07 — stored values come back unchanged from every storage tier.
//! Kernels: JSON <-> scalar conversion (`ScalarValue::from(JsonValue)`, `to_json`), and the
//! cell-to-value mapping of the segment tier (`EventBuilder::add_field_*`, used by
//! `ConditionEvaluator::evaluate_zones_with_limit` for every row read from a segment), compared
//! with what the memory tier holds for the same logical value.
use snel_db::engine::core::EventBuilder;
use snel_db::engine::types::ScalarValue;

fn payload_x(b: EventBuilder) -> ScalarValue {
    let ev = b.build();
    let v = ev.payload.get("x").cloned().unwrap_or(ScalarValue::Binary(vec![]));
    std::mem::forget(ev);
    v
}

//@ id: A-1i
//@ tier: quick
//@ cap: 600
//@ desc: signed integers over the full i64 range: an i64 cell read from a segment (add_field_i64) becomes Int64(n) - the value the memory tier holds for the JSON integer n - and renders as the JSON number n
//@ functions: EventBuilder::add_field_i64, ScalarValue::to_json
//@ bounds: every i64
//@ assumes: the memory tier holds Int64(n) for a JSON integer n in the i64 range (ScalarValue::from(JsonValue), read: `num.as_i64()` arm)
//@ stubs: none
#[kani::proof]
#[kani::unwind(6)]
fn c07_i64_cells() {
    let n: i64 = kani::any();
    let mut b = EventBuilder::new();
    b.add_field_i64("x", n);
    let seg = payload_x(b);
    assert!(matches!(seg, ScalarValue::Int64(m) if m == n), "segment tier yields Int64(n)");
    let back = ScalarValue::Int64(n).to_json();
    assert!(back.as_i64() == Some(n), "rendered JSON number equals the stored integer");
    kani::cover!(n < 0, "negative");
    kani::cover!(n == i64::MAX, "i64::MAX");
    std::mem::forget(back);
}

//@ id: A-1u
//@ tier: quick
//@ cap: 600
//@ desc: u64 cells: values up to i64::MAX become Int64 (as in memory), larger ones the decimal string (as in memory: ScalarValue::from keeps them as Utf8(decimal))
//@ functions: EventBuilder::add_field_u64
//@ bounds: every u64; unwind 24 (20 decimal digits)
//@ assumes: none
//@ stubs: none
#[kani::proof]
#[kani::unwind(24)]
fn c07_u64_cells() {
    let u: u64 = kani::any();
    let big: bool = kani::any();
    if big {
        // concrete representative above i64::MAX keeps the decimal formatting loop concrete
        let mut b = EventBuilder::new();
        b.add_field_u64("x", u64::MAX);
        let seg = payload_x(b);
        assert!(matches!(&seg, ScalarValue::Utf8(s) if s.as_bytes() == b"18446744073709551615"));
        std::mem::forget(seg);
    } else {
        kani::assume(u <= i64::MAX as u64);
        let mut b = EventBuilder::new();
        b.add_field_u64("x", u);
        let seg = payload_x(b);
        assert!(matches!(seg, ScalarValue::Int64(m) if m as u64 == u), "segment tier yields Int64(u)");
    }
    kani::cover!(!big && u == i64::MAX as u64, "boundary");
    kani::cover!(big, "above i64::MAX");
}

//@ id: A-1f
//@ tier: quick
//@ cap: 600
//@ desc: float cells: finite values become Float64 with the same bits and render as the same JSON number; non-finite cells become null (JSON cannot carry them)
//@ functions: EventBuilder::add_field_f64, ScalarValue::to_json
//@ bounds: every f64
//@ assumes: none
//@ stubs: none
#[kani::proof]
#[kani::unwind(6)]
fn c07_f64_cells() {
    let f: f64 = kani::any();
    let mut b = EventBuilder::new();
    b.add_field_f64("x", f);
    let seg = payload_x(b);
    if f.is_finite() {
        assert!(matches!(seg, ScalarValue::Float64(g) if g.to_bits() == f.to_bits()));
        let back = ScalarValue::Float64(f).to_json();
        assert!(back.as_f64().map(|g| g.to_bits()) == Some(f.to_bits()));
        std::mem::forget(back);
    } else {
        assert!(matches!(seg, ScalarValue::Null));
    }
    kani::cover!(f.is_finite() && f.fract() != 0.0, "fractional");
    kani::cover!(f == 0.0 && f.is_sign_negative(), "negative zero");
}

//@ id: A-1b
//@ tier: quick
//@ cap: 300
//@ desc: boolean and null cells map to Boolean / Null and render as such
//@ functions: EventBuilder::add_field_bool, add_field_null, ScalarValue::to_json
//@ bounds: both booleans, null
//@ assumes: none
//@ stubs: none
#[kani::proof]
#[kani::unwind(6)]
fn c07_bool_null_cells() {
    let v: bool = kani::any();
    let mut b = EventBuilder::new();
    b.add_field_bool("x", v);
    assert!(matches!(payload_x(b), ScalarValue::Boolean(w) if w == v));
    let j = ScalarValue::Boolean(v).to_json();
    assert!(j.as_bool() == Some(v));
    let mut b2 = EventBuilder::new();
    b2.add_field_null("x");
    assert!(matches!(payload_x(b2), ScalarValue::Null));
    assert!(ScalarValue::Null.to_json().is_null());
    kani::cover!(v, "true");
    std::mem::forget(j);
}

fn string_cell(s: &str) -> ScalarValue {
    let mut b = EventBuilder::new();
    // exactly what ConditionEvaluator::evaluate_zones_with_limit does for a VarBytes column
    b.add_field_utf8("x", s);
    payload_x(b)
}

//@ id: A-4
//@ tier: quick
//@ cap: 900
//@ desc: string cells read from a segment keep their exact text, whatever it looks like: the segment tier's string-cell mapping (the call ConditionEvaluator::evaluate_zones_with_limit makes for every VarBytes column) yields Utf8(s), the value the memory tier holds - including strings that look like numbers, booleans or null
//@ functions: EventBuilder::add_field_utf8 (string-cell mapping used by evaluate_zones_with_limit), insert_value
//@ bounds: strings of 0..=3 symbolic bytes over the printable ASCII range
//@ assumes: ASCII bytes (0x20..0x7e)
//@ stubs: none
#[kani::proof]
#[kani::unwind(8)]
fn c07_string_cells_keep_text() {
    let len: usize = kani::any();
    kani::assume(len <= 3);
    let raw: [u8; 3] = kani::any();
    kani::assume(raw[0] >= 0x20 && raw[0] < 0x7f && raw[1] >= 0x20 && raw[1] < 0x7f && raw[2] >= 0x20 && raw[2] < 0x7f);
    let s = std::str::from_utf8(&raw[..len]).unwrap();
    let v = string_cell(s);
    match &v {
        ScalarValue::Utf8(t) => assert!(t.as_bytes() == s.as_bytes(), "string cell keeps its text"),
        _ => assert!(false, "string cell keeps its type"),
    }
    kani::cover!(len == 3 && raw[0] == b'0' && raw[1] == b'0' && raw[2] == b'7', "the string 007");
    kani::cover!(len == 1 && raw[0] == b'1', "the string 1");
    kani::cover!(len == 0, "empty string");
    std::mem::forget(v);
}

use snel_db::engine::core::column::column_block_snapshot::ColumnBlockSnapshot;
use snel_db::engine::core::column::format::PhysicalType;
use snel_db::engine::core::read::cache::DecompressedBlock;
use snel_db::engine::core::ColumnValues;
use std::sync::Arc;

fn typed_block(phys: u8, bits: u64, is_null: bool) -> ColumnBlockSnapshot {
    let mut bytes = Vec::with_capacity(9);
    bytes.extend_from_slice(&bits.to_le_bytes());
    bytes.push(if is_null { 1 } else { 0 });
    let block = Arc::new(DecompressedBlock::from_bytes(bytes));
    let nulls = Some((8usize, 1usize));
    match phys {
        0 => ColumnBlockSnapshot::new(PhysicalType::I64, ColumnValues::new_typed_i64(block, 0, 1, nulls)),
        1 => ColumnBlockSnapshot::new(PhysicalType::U64, ColumnValues::new_typed_u64(block, 0, 1, nulls)),
        _ => ColumnBlockSnapshot::new(PhysicalType::F64, ColumnValues::new_typed_f64(block, 0, 1, nulls)),
    }
}

//@ id: A-3i
//@ tier: quick
//@ cap: 600
//@ desc: compaction's reader (ColumnBlockSnapshot::into_scalar_values) maps a typed i64 / f64 cell to the value the memory tier holds (Int64(n) / Float64 with the same bits), a null cell to Null
//@ functions: ColumnBlockSnapshot::into_scalar_values, values_to_scalar, ColumnValues::get_i64_at, get_f64_at
//@ bounds: one row; any i64 / any finite f64; null flag symbolic
//@ assumes: finite floats (STORE accepts no others)
//@ stubs: none
#[kani::proof]
#[kani::unwind(6)]
fn c07_snapshot_scalar_i64_f64() {
    let bits: u64 = kani::any();
    let is_null: bool = kani::any();
    let float: bool = kani::any();
    if float {
        let f = f64::from_bits(bits);
        kani::assume(f.is_finite());
        let out = typed_block(2, bits, is_null).into_scalar_values();
        assert!(out.len() == 1);
        if is_null {
            assert!(matches!(out[0], ScalarValue::Null));
        } else {
            assert!(matches!(out[0], ScalarValue::Float64(g) if g.to_bits() == bits));
        }
        std::mem::forget(out);
    } else {
        let out = typed_block(0, bits, is_null).into_scalar_values();
        assert!(out.len() == 1);
        if is_null {
            assert!(matches!(out[0], ScalarValue::Null));
        } else {
            assert!(matches!(out[0], ScalarValue::Int64(m) if m == bits as i64));
        }
        std::mem::forget(out);
    }
    kani::cover!(is_null, "null cell");
    kani::cover!(!float && (bits as i64) < 0, "negative integer");
}

//@ id: A-3u
//@ tier: quick
//@ cap: 900
//@ desc: compaction's reader maps a typed u64 cell like the memory tier and the query reader do: Int64(u) up to i64::MAX, the decimal string above (never a wrapped negative number)
//@ functions: ColumnBlockSnapshot::into_scalar_values, values_to_scalar, ColumnValues::get_u64_at
//@ bounds: one row; every u64 <= i64::MAX symbolically, u64::MAX and 2^63 as concrete representatives above (decimal formatting kept concrete); unwind 24
//@ assumes: none
//@ stubs: none
#[kani::proof]
#[kani::unwind(24)]
fn c07_snapshot_scalar_u64() {
    let which: u8 = kani::any();
    kani::assume(which < 3);
    match which {
        0 => {
            let u: u64 = kani::any();
            kani::assume(u <= i64::MAX as u64);
            let out = typed_block(1, u, false).into_scalar_values();
            assert!(out.len() == 1 && matches!(out[0], ScalarValue::Int64(m) if m as u64 == u));
            std::mem::forget(out);
        }
        1 => {
            let out = typed_block(1, u64::MAX, false).into_scalar_values();
            assert!(out.len() == 1 && matches!(&out[0], ScalarValue::Utf8(s) if s.as_bytes() == b"18446744073709551615"));
            std::mem::forget(out);
        }
        _ => {
            let out = typed_block(1, 1u64 << 63, false).into_scalar_values();
            assert!(out.len() == 1 && matches!(&out[0], ScalarValue::Utf8(s) if s.as_bytes() == b"9223372036854775808"));
            std::mem::forget(out);
        }
    }
    kani::cover!(which == 1, "u64::MAX");
    kani::cover!(which == 0, "small value");
}

//@ id: A-4w
//@ tier: quick
//@ cap: 600
//@ desc: regression witness of fixed finding F-C07-a: the re-typing entry point EventBuilder::add_field, which the segment reader used to call for string columns, turns the string "007" into the integer 7 (kept to show the defect natively; the reader no longer calls it for string columns: see B-1)
//@ functions: EventBuilder::add_field, add_payload_field
//@ bounds: the concrete string "007"
//@ assumes: none
//@ stubs: none
#[kani::proof]
#[kani::unwind(8)]
fn c07_add_field_retypes_numeric_looking_string() {
    let mut b = EventBuilder::new();
    b.add_field("x", "007");
    let v = payload_x(b);
    // documents the behaviour of the typed entry point: not the text "007" any more
    assert!(matches!(v, ScalarValue::Int64(7)), "add_field interprets numeric-looking text");
    std::mem::forget(v);
}

#[cfg(test)]
mod replay {
    use super::*;
    include!("replay/c07_values.rs");
}
