//! C08 — pruning structures never rule out a zone that holds a matching row.
//! Kernels Kani reaches: the order-preserving byte encodings shared by the SuRF builder and
//! the range probe (`surf_encoding.rs`), the per-zone time index (`zone_temporal_index.rs`),
//! the calendar's bucket arithmetic (`naive_bucket_of`).
use snel_db::command::types::{CompareOp, TimeGranularity};
use snel_db::engine::core::filter::surf_encoding::{encode_f64, encode_i64, encode_u64, encode_value};
use snel_db::engine::core::time::temporal_traits::ZoneRangeIndex;
use snel_db::engine::core::ZoneTemporalIndex;
use snel_db::engine::types::ScalarValue;
use snel_db::shared::datetime::time_bucketing::naive_bucket_of;

/// Lexicographic order of two 8-byte keys = numeric order of their big-endian value.
/// (The trie compares keys byte-wise from the first byte.)
fn key8(v: &[u8]) -> u64 {
    assert!(v.len() == 8);
    u64::from_be_bytes([v[0], v[1], v[2], v[3], v[4], v[5], v[6], v[7]])
}

//@ id: A-1i
//@ tier: quick
//@ cap: 300
//@ desc: encode_i64 is strictly order preserving: a < b <=> key(a) <lex key(b), 8-byte keys
//@ functions: encode_i64
//@ bounds: a, b over all of i64
//@ assumes: none
//@ stubs: none
#[kani::proof]
#[kani::unwind(10)]
fn c08_encode_i64_order() {
    let (a, b): (i64, i64) = kani::any();
    let (ka, kb) = (encode_i64(a), encode_i64(b));
    assert!(ka.len() == 8 && kb.len() == 8);
    assert!((a < b) == (key8(&ka) < key8(&kb)));
    assert!((a == b) == (key8(&ka) == key8(&kb)));
    kani::cover!(a < 0 && b > 0, "sign boundary");
}

//@ id: A-1u
//@ tier: quick
//@ cap: 300
//@ desc: encode_u64 is strictly order preserving
//@ functions: encode_u64
//@ bounds: a, b over all of u64
//@ assumes: none
//@ stubs: none
#[kani::proof]
#[kani::unwind(10)]
fn c08_encode_u64_order() {
    let (a, b): (u64, u64) = kani::any();
    let (ka, kb) = (encode_u64(a), encode_u64(b));
    assert!((a < b) == (key8(&ka) < key8(&kb)));
    kani::cover!(a > i64::MAX as u64 && b <= i64::MAX as u64, "above and below i64::MAX");
}

//@ id: A-1f
//@ tier: quick
//@ cap: 300
//@ desc: encode_f64 is order preserving on non-NaN floats (infinities and both zeros included; -0.0 and +0.0 may map to adjacent keys in numeric order)
//@ functions: encode_f64
//@ bounds: a, b over all non-NaN f64
//@ assumes: neither value is NaN
//@ stubs: none
#[kani::proof]
#[kani::unwind(10)]
fn c08_encode_f64_order() {
    let (a, b): (f64, f64) = kani::any();
    kani::assume(!a.is_nan() && !b.is_nan());
    let (ka, kb) = (key8(&encode_f64(a)), key8(&encode_f64(b)));
    if a < b {
        assert!(ka < kb, "strictly smaller float has a strictly smaller key");
    }
    if ka < kb {
        assert!(a <= b, "smaller key never belongs to a larger float");
    }
    kani::cover!(a < 0.0 && b > 0.0, "sign boundary");
    kani::cover!(a == 0.0 && b == 0.0 && ka != kb, "signed zeros");
}

/// Soundness of a range probe over one stored value: the zone holding `stored` must be kept
/// for probe `p` whenever stored satisfies the comparison. The SuRF probe keeps a zone for
/// `>= p` iff some key >=lex enc(p), for `<= p` iff some key <=lex enc(p).
fn probe_sound(stored_key: u64, probe_key: u64, stored_ge_probe: bool, stored_le_probe: bool) {
    if stored_ge_probe {
        assert!(stored_key >= probe_key, "GE/GT probe keeps the zone holding a matching value");
    }
    if stored_le_probe {
        assert!(stored_key <= probe_key, "LE/LT probe keeps the zone holding a matching value");
    }
}

//@ id: A-2i
//@ tier: quick
//@ cap: 300
//@ desc: encode_value on integer kinds (Int64 / Timestamp stored, Int64 / Timestamp probe): range probes are sound
//@ functions: encode_value, encode_i64
//@ bounds: stored and probe over all of i64, each Int64 or Timestamp
//@ assumes: none
//@ stubs: none
#[kani::proof]
#[kani::unwind(10)]
fn c08_encode_value_integers_sound() {
    let (s, p): (i64, i64) = kani::any();
    let (st, pt): (bool, bool) = kani::any();
    // keep the enum variant concrete at each call site (a symbolic discriminant would make
    // the solver explore encode_value's string-parsing arm)
    let ks = if st {
        key8(&encode_value(&ScalarValue::Timestamp(s)).unwrap())
    } else {
        key8(&encode_value(&ScalarValue::Int64(s)).unwrap())
    };
    let kp = if pt {
        key8(&encode_value(&ScalarValue::Timestamp(p)).unwrap())
    } else {
        key8(&encode_value(&ScalarValue::Int64(p)).unwrap())
    };
    probe_sound(ks, kp, s >= p, s <= p);
    kani::cover!(s < 0 && p >= 0, "negative stored, non-negative probe");
}

/// region 0: both integral or both non-integral and same lane (claimed);
/// region 1: one integral-valued float and one non-integral float (F-C08-a)
fn float_body(region: u8) {
    let (s, p): (f64, f64) = kani::any();
    kani::assume(s.is_finite() && p.is_finite());
    // magnitudes below 2^63 so that integral floats take the i64 lane (the u64 / f64 fall-back
    // lanes for |x| >= 2^63 are outside this obligation)
    kani::assume(s.abs() < 9.0e18 && p.abs() < 9.0e18);
    let s_int = s.trunc() == s;
    let p_int = p.trunc() == p;
    if region == 0 {
        kani::assume(s_int == p_int);
    } else {
        kani::assume(s_int != p_int);
    }
    let ks = key8(&encode_value(&ScalarValue::Float64(s)).unwrap());
    let kp = key8(&encode_value(&ScalarValue::Float64(p)).unwrap());
    probe_sound(ks, kp, s >= p, s <= p);
    kani::cover!(s > p, "stored above probe");
    kani::cover!(s < 0.0 && p > 0.0, "signs differ");
}

//@ id: A-2f
//@ tier: quick
//@ cap: 600
//@ desc: encode_value on a float column probed with a float literal: range probes are sound when stored value and literal are both integral-valued or both non-integral
//@ functions: encode_value, encode_f64, encode_i64
//@ bounds: finite floats with |x| < 9e18
//@ assumes: CARVE-OUT F-C08-a: stored and probe are both integral-valued or both non-integral
//@ stubs: none
#[kani::proof]
#[kani::unwind(10)]
fn c08_encode_value_floats_same_lane_sound() {
    float_body(0);
}

//@ id: A-2f-w
//@ tier: quick
//@ cap: 600
//@ expect: finding F-C08-a
//@ desc: witness for F-C08-a: float column where one of stored value / literal is integral-valued (i64 lane) and the other is not (f64 lane)
//@ functions: encode_value
//@ bounds: as A-2f
//@ assumes: exactly one of stored / probe is integral-valued
//@ stubs: none
#[kani::proof]
#[kani::unwind(10)]
fn c08_encode_value_floats_mixed_lane_witness() {
    float_body(1);
}

/// Integer literal against a float column / float literal against an integer column.
fn cross_kind_body(stored_is_float: bool, carve: bool) {
    let f: f64 = kani::any();
    let i: i64 = kani::any();
    kani::assume(f.is_finite() && f.abs() < 9.0e18);
    kani::assume(i > -(1i64 << 53) && i < (1i64 << 53));
    let f_int = f.trunc() == f;
    if carve {
        kani::assume(f_int);
    } else {
        kani::assume(!f_int);
    }
    let kf = key8(&encode_value(&ScalarValue::Float64(f)).unwrap());
    let ki = key8(&encode_value(&ScalarValue::Int64(i)).unwrap());
    let fi = i as f64; // exact: |i| < 2^53
    if stored_is_float {
        probe_sound(kf, ki, f >= fi, f <= fi);
    } else {
        probe_sound(ki, kf, fi >= f, fi <= f);
    }
    kani::cover!(f > fi, "float above integer");
    kani::cover!(f < fi, "float below integer");
}

//@ id: A-2x
//@ tier: quick
//@ cap: 600
//@ desc: literal of a different numeric kind than the column (integer literal on a float column and float literal on an integer column): range probes are sound when the float is integral-valued
//@ functions: encode_value
//@ bounds: finite floats |f| < 9e18, integers |i| < 2^53 (exact in f64)
//@ assumes: CARVE-OUT F-C08-b: the float operand is integral-valued
//@ stubs: none
#[kani::proof]
#[kani::unwind(10)]
fn c08_encode_value_cross_kind_integral_sound() {
    let which: bool = kani::any();
    cross_kind_body(which, true);
}

//@ id: A-2x-w
//@ tier: quick
//@ cap: 600
//@ expect: finding F-C08-b
//@ desc: witness for F-C08-b: integer literal probing a float column that holds a non-integral value (or a non-integral float literal probing an integer column)
//@ functions: encode_value
//@ bounds: as A-2x
//@ assumes: the float operand is non-integral
//@ stubs: none
#[kani::proof]
#[kani::unwind(10)]
fn c08_encode_value_cross_kind_fractional_witness() {
    let which: bool = kani::any();
    cross_kind_body(which, false);
}

fn any_cmp() -> (CompareOp, u8) {
    let k: u8 = kani::any();
    kani::assume(k < 6);
    (
        match k {
            0 => CompareOp::Eq,
            1 => CompareOp::Neq,
            2 => CompareOp::Gt,
            3 => CompareOp::Gte,
            4 => CompareOp::Lt,
            _ => CompareOp::Lte,
        },
        k,
    )
}

fn holds(k: u8, t: i64, v: i64) -> bool {
    match k {
        0 => t == v,
        1 => t != v,
        2 => t > v,
        3 => t >= v,
        4 => t < v,
        _ => t <= v,
    }
}

/// Query side from an arbitrary index state that satisfies the invariant the builder
/// establishes for a zone holding the timestamp set {t0 <= t1 <= t2}: min_ts = t0,
/// max_ts = t2, stride = 1, keys = sorted distinct offsets from min_ts.
fn zti_query_body() {
    let t: [i64; 3] = kani::any();
    let lim = 1i64 << 61;
    kani::assume(t[0] > -lim && t[2] < lim && t[0] <= t[1] && t[1] <= t[2]);
    let mut keys: Vec<u64> = Vec::with_capacity(3);
    keys.push(0);
    if t[1] != t[0] {
        keys.push((t[1] - t[0]) as u64);
    }
    if t[2] != t[1] {
        keys.push((t[2] - t[0]) as u64);
    }
    let zti = ZoneTemporalIndex { min_ts: t[0], max_ts: t[2], stride: 1, keys, fences: Vec::new() };
    let v: i64 = kani::any();
    let (op, k) = any_cmp();
    let (lo, hi): (i64, i64) = kani::any();
    assert!(zti.contains_ts(t[0]) && zti.contains_ts(t[1]) && zti.contains_ts(t[2]), "stored timestamps are contained");
    let some_match = holds(k, t[0], v) || holds(k, t[1], v) || holds(k, t[2], v);
    if some_match {
        assert!(zti.may_match(op, v), "zone with a matching timestamp is kept");
    }
    let in_range = |x: i64| x >= lo && x <= hi;
    if in_range(t[0]) || in_range(t[1]) || in_range(t[2]) {
        assert!(zti.may_match_range(lo, hi), "zone with a timestamp inside the range is kept");
    }
    kani::cover!(t[0] < 0 && t[2] > 0 && some_match, "negative and positive timestamps");
    kani::cover!(k == 1 && !some_match, "all stored values equal the Neq literal");
    kani::cover!(k == 0 && some_match && v == t[1] && t[0] < t[1] && t[1] < t[2], "Eq hit on the middle key");
    std::mem::forget(zti);
}

//@ id: A-3q
//@ tier: quick
//@ cap: 600
//@ desc: per-zone time index, query side: from any index state satisfying the builder's invariant for a zone holding up to 3 distinct timestamps, contains_ts(t) holds for every stored t, may_match(op, v) whenever some stored t satisfies t op v, may_match_range whenever some stored t lies in the range
//@ functions: ZoneTemporalIndex::contains_ts, may_match, may_match_range
//@ bounds: 3 symbolic sorted timestamps (duplicates allowed) in (-2^61, 2^61); probe value and range any i64; 6 operators; unwind 6 (binary search over <= 3 keys)
//@ assumes: representation invariant of from_timestamps(ts, 1, _) (established by A-3b); |t| < 2^61
//@ stubs: none
#[kani::proof]
#[kani::unwind(6)]
fn c08_zone_temporal_index_query_sound() {
    zti_query_body();
}

//@ id: A-3b
//@ tier: quick
//@ cap: 900
//@ desc: per-zone time index, build side: ZoneTemporalIndex::from_timestamps(ts, 1, 64) over 2 timestamps in any order establishes the invariant A-3q starts from (min, max, stride, sorted distinct offset keys)
//@ functions: ZoneTemporalIndex::from_timestamps, build_fences
//@ bounds: 2 symbolic timestamps (equal or not, any order) in (-2^61, 2^61); unwind 6
//@ assumes: |t| < 2^61
//@ stubs: none
//@ mem: 24
#[kani::proof]
#[kani::unwind(6)]
fn c08_zone_temporal_index_build_invariant() {
    let (a, b): (i64, i64) = kani::any();
    let lim = 1i64 << 61;
    kani::assume(a > -lim && a < lim && b > -lim && b < lim);
    let zti = ZoneTemporalIndex::from_timestamps(vec![a, b], 1, 64);
    let (lo, hi) = if a <= b { (a, b) } else { (b, a) };
    assert!(zti.min_ts == lo && zti.max_ts == hi && zti.stride == 1);
    if lo == hi {
        assert!(zti.keys.len() == 1 && zti.keys[0] == 0);
    } else {
        assert!(zti.keys.len() == 2 && zti.keys[0] == 0 && zti.keys[1] == (hi - lo) as u64);
    }
    kani::cover!(a > b, "input out of order");
    kani::cover!(a == b, "duplicate timestamps");
    std::mem::forget(zti);
}

fn gran_of(g: u8) -> (TimeGranularity, u64) {
    match g {
        0 => (TimeGranularity::Hour, 3600u64),
        1 => (TimeGranularity::Day, 86_400),
        2 => (TimeGranularity::Week, 604_800),
        3 => (TimeGranularity::Month, 2_592_000),
        _ => (TimeGranularity::Year, 31_536_000),
    }
}

fn bucket_body(g: u8) {
    let (ts, ts2): (u64, u64) = kani::any();
    // epoch seconds below 2^34 (year 2514); keeps the constant dividers tractable
    kani::assume(ts < (1u64 << 34) && ts2 < (1u64 << 34));
    let (gran, width) = gran_of(g);
    let b = naive_bucket_of(ts, &gran);
    assert!(b <= ts, "bucket start is not after the timestamp");
    assert!(ts - b < width, "timestamp lies inside its bucket");
    if ts <= ts2 {
        let b2 = naive_bucket_of(ts2, &gran);
        assert!(b <= b2, "bucket start is monotone in the timestamp");
        if ts2 - ts < width {
            assert!(b2 == b || b2 == b + width, "consecutive buckets are exactly one width apart");
        }
    }
    kani::cover!(ts == b && ts > 0, "timestamp on a bucket boundary");
    kani::cover!(ts2 > ts && naive_bucket_of(ts2, &gran) != b, "two buckets");
}

//@ id: A-4h
//@ tier: quick
//@ cap: 600
//@ desc: calendar bucket arithmetic (Hour): bucket <= ts < bucket + 3600, monotone in ts, neighbouring buckets exactly one width apart (so the builder's +3600 walk from bucket(min) to bucket(max) visits the bucket of every stored timestamp)
//@ functions: naive_bucket_of
//@ bounds: ts, ts2 < 2^34 (year 2514)
//@ assumes: epoch seconds < 2^34
//@ stubs: none
#[kani::proof]
#[kani::unwind(4)]
fn c08_naive_bucket_hour() {
    bucket_body(0);
}

//@ id: A-4d
//@ tier: quick
//@ cap: 600
//@ desc: calendar bucket arithmetic (Day), as A-4h with width 86400
//@ functions: naive_bucket_of
//@ bounds: ts, ts2 < 2^34 (year 2514)
//@ assumes: epoch seconds < 2^34
//@ stubs: none
#[kani::proof]
#[kani::unwind(4)]
fn c08_naive_bucket_day() {
    bucket_body(1);
}

//@ id: A-4o
//@ tier: thorough
//@ cap: 1500
//@ desc: bucket arithmetic for Week / Month / Year (used by PER bucketing, not by the calendar index), as A-4h
//@ functions: naive_bucket_of
//@ bounds: ts, ts2 < 2^34 (year 2514); granularity symbolic among Week, Month, Year
//@ assumes: epoch seconds < 2^34
//@ stubs: none
#[kani::proof]
#[kani::unwind(4)]
fn c08_naive_bucket_other() {
    let g: u8 = kani::any();
    kani::assume(g >= 2 && g < 5);
    match g {
        2 => bucket_body(2),
        3 => bucket_body(3),
        _ => bucket_body(4),
    }
}

#[cfg(test)]
mod replay {
    use super::*;
    include!("replay/c08_pruning.rs");
}
