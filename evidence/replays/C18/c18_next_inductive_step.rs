// harness: c18_event_id::c18_next_inductive_step (feature c18)
// replay: cd /verif && ./check --replay /verif/evidence/replays/C18/c18_next_inductive_step.rs
/// Test generated for harness `c18_event_id::c18_next_inductive_step` 
///
/// Check for `assertion`: ""last_millis never decreases""
///
/// # Warning
///
/// Concrete playback tests combined with stubs or contracts is highly
/// experimental, and subject to change.
///
/// The original harness has stubs which are not applied to this test.
/// This may cause a mismatch of non-deterministic values if the stub
/// creates any non-deterministic value.
/// The execution path may also differ, which can be used to refine the stub
/// logic.

#[test]
fn kani_concrete_playback_c18_next_inductive_step_11880300006598257818() {
    let concrete_vals: Vec<Vec<u8>> = vec![
        // 3338343129089ul
        vec![1, 160, 193, 68, 9, 3, 0, 0],
        // 4095
        vec![255, 15],
        // 65535
        vec![255, 255],
        // 1609459228672ul
        vec![0, 224, 62, 187, 118, 1, 0, 0],
        // 2238831501313ul
        vec![1, 160, 193, 68, 9, 2, 0, 0],
        // 5497558138878ul
        vec![254, 255, 255, 255, 255, 4, 0, 0],
    ];
    kani::concrete_playback_run(concrete_vals, c18_next_inductive_step);
}

/// Test generated for harness `c18_event_id::c18_next_inductive_step` 
///
/// Check for `assertion`: ""(millis, sequence) strictly increases""
///
/// # Warning
///
/// Concrete playback tests combined with stubs or contracts is highly
/// experimental, and subject to change.
///
/// The original harness has stubs which are not applied to this test.
/// This may cause a mismatch of non-deterministic values if the stub
/// creates any non-deterministic value.
/// The execution path may also differ, which can be used to refine the stub
/// logic.

#[test]
fn kani_concrete_playback_c18_next_inductive_step_10892889463121722013() {
    let concrete_vals: Vec<Vec<u8>> = vec![
        // 6007495225376ul
        vec![32, 112, 158, 186, 118, 5, 0, 0],
        // 4095
        vec![255, 15],
        // 0
        vec![0, 0],
        // 5732608929792ul
        vec![0, 112, 30, 186, 54, 5, 0, 0],
        // 6007495225376ul
        vec![32, 112, 158, 186, 118, 5, 0, 0],
        // 6007497162752ul
        vec![0, 0, 188, 186, 118, 5, 0, 0],
    ];
    kani::concrete_playback_run(concrete_vals, c18_next_inductive_step);
}
