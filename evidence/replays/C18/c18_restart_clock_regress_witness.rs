// harness: c18_event_id::c18_restart_clock_regress_witness (feature c18)
// replay: cd /verif && ./check --replay /verif/evidence/replays/C18/c18_restart_clock_regress_witness.rs
#[test]
fn kani_concrete_playback_c18_restart_clock_regress_witness_9430928690219793070() {
    let concrete_vals: Vec<Vec<u8>> = vec![
        // 6007504220160ul
        vec![0, 176, 39, 187, 118, 5, 0, 0],
        // 0
        vec![0, 0],
        // 65535
        vec![255, 255],
        // 6007501598720ul
        vec![0, 176, 255, 186, 118, 5, 0, 0],
    ];
    kani::concrete_playback_run(concrete_vals, c18_restart_clock_regress_witness);
}
