// harness: c18_event_id::c18_restart_clock_regress_witness (feature c18)
// replay: cd /verif && ./check --replay /verif/evidence/replays/C18/c18_restart_clock_regress_witness.rs
/// Test generated for harness `c18_event_id::c18_restart_clock_regress_witness` 
///
/// Check for `assertion`: ""first id after a restart exceeds the ids of the previous lifetime""
///
/// # Warning
///
/// Concrete playback tests combined with stubs or contracts is highly
/// experimental, and subject to change.
///
/// The original harness has stubs which are not applied to this test.
/// This may cause a mismatch of non-deterministic values if the stub
/// creates any non-deterministic value.
/// The execution path may also differ, which can be used to refine the stub
/// logic.

#[test]
fn kani_concrete_playback_c18_restart_clock_regress_witness_9430928690219793070() {
    let concrete_vals: Vec<Vec<u8>> = vec![
        // 6007504220160ul
        vec![0, 176, 39, 187, 118, 5, 0, 0],
        // 0
        vec![0, 0],
        // 65535
        vec![255, 255],
        // 6007501598720ul
        vec![0, 176, 255, 186, 118, 5, 0, 0],
    ];
    kani::concrete_playback_run(concrete_vals, c18_restart_clock_regress_witness);
}
