// harness: c10_order::c10_compare_numeric_looking_strings_witness (feature c10)
// replay: cd /verif && ./check --replay /verif/evidence/replays/C10/c10_compare_numeric_looking_strings_witness.rs
#[test]
fn kani_concrete_playback_c10_compare_numeric_looking_strings_witness_9082006346078058078() {
    let concrete_vals: Vec<Vec<u8>> = vec![
    ];
    kani::concrete_playback_run(concrete_vals, c10_compare_numeric_looking_strings_witness);
}
