// harness: c10_order::c10_heap_item_order (feature c10)
// replay: cd /verif && ./check --replay /verif/evidence/replays/C10/c10_heap_item_order.rs
/// Test generated for harness `c10_order::c10_heap_item_order` 
///
/// Check for `assertion`: ""ascending: smaller key pops first""

#[test]
fn kani_concrete_playback_c10_heap_item_order_16549674173923286301() {
    let concrete_vals: Vec<Vec<u8>> = vec![
        // -1657324662872342400
        vec![128, 0, 0, 0, 0, 0, 0, 233],
        // -1657324662872342527
        vec![1, 0, 0, 0, 0, 0, 0, 233],
        // 1023ul
        vec![255, 3, 0, 0, 0, 0, 0, 0],
        // 0ul
        vec![0, 0, 0, 0, 0, 0, 0, 0],
        // 1
        vec![1],
    ];
    kani::concrete_playback_run(concrete_vals, c10_heap_item_order);
}

/// Test generated for harness `c10_order::c10_heap_item_order` 
///
/// Check for `assertion`: ""descending: larger key pops first""

#[test]
fn kani_concrete_playback_c10_heap_item_order_5316026504321770244() {
    let concrete_vals: Vec<Vec<u8>> = vec![
        // -1657324662872342400
        vec![128, 0, 0, 0, 0, 0, 0, 233],
        // -1657324662872342527
        vec![1, 0, 0, 0, 0, 0, 0, 233],
        // 1023ul
        vec![255, 3, 0, 0, 0, 0, 0, 0],
        // 0ul
        vec![0, 0, 0, 0, 0, 0, 0, 0],
        // 0
        vec![0],
    ];
    kani::concrete_playback_run(concrete_vals, c10_heap_item_order);
}
