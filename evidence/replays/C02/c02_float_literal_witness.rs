// harness: c02_predicates::c02_float_literal_witness (feature c02)
// replay: cd /verif && ./check --replay /verif/evidence/replays/C02/c02_float_literal_witness.rs
/// Test generated for harness `c02_predicates::c02_float_literal_witness` 
///
/// Check for `assertion`: ""a float literal selects exactly the matching events""
///
/// # Warning
///
/// Concrete playback tests combined with stubs or contracts is highly
/// experimental, and subject to change.
///
/// The original harness has stubs which are not applied to this test.
/// This may cause a mismatch of non-deterministic values if the stub
/// creates any non-deterministic value.
/// The execution path may also differ, which can be used to refine the stub
/// logic.

#[test]
fn kani_concrete_playback_c02_float_literal_witness_6240176717659186668() {
    let concrete_vals: Vec<Vec<u8>> = vec![
        // 0
        vec![0, 0, 0, 0, 0, 0, 0, 0],
    ];
    kani::concrete_playback_run(concrete_vals, c02_float_literal_witness);
}
