// harness: c02_predicates::c02_float_literal_witness (feature c02)
// replay: cd /verif && ./check --replay /verif/evidence/replays/C02/c02_float_literal_witness.rs
#[test]
fn kani_concrete_playback_c02_float_literal_witness_6240176717659186668() {
    let concrete_vals: Vec<Vec<u8>> = vec![
        // 0
        vec![0, 0, 0, 0, 0, 0, 0, 0],
    ];
    kani::concrete_playback_run(concrete_vals, c02_float_literal_witness);
}
