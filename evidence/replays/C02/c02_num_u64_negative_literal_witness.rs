// harness: c02_predicates::c02_num_u64_negative_literal_witness (feature c02)
// replay: cd /verif && ./check --replay /verif/evidence/replays/C02/c02_num_u64_negative_literal_witness.rs
#[test]
fn kani_concrete_playback_c02_num_u64_negative_literal_witness_14408477735121401096() {
    let concrete_vals: Vec<Vec<u8>> = vec![
        // 1ul
        vec![1, 0, 0, 0, 0, 0, 0, 0],
        // -9223372036854775807
        vec![1, 0, 0, 0, 0, 0, 0, 128],
        // 1
        vec![1],
    ];
    kani::concrete_playback_run(concrete_vals, c02_num_u64_negative_literal_witness);
}
