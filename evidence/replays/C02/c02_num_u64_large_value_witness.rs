// harness: c02_predicates::c02_num_u64_large_value_witness (feature c02)
// replay: cd /verif && ./check --replay /verif/evidence/replays/C02/c02_num_u64_large_value_witness.rs
/// Test generated for harness `c02_predicates::c02_num_u64_large_value_witness` 
///
/// Check for `assertion`: ""memory tier equals the integer comparison (u64 column)""

#[test]
fn kani_concrete_playback_c02_num_u64_large_value_witness_9669525261822987714() {
    let concrete_vals: Vec<Vec<u8>> = vec![
        // 9223372036854775807
        vec![255, 255, 255, 255, 255, 255, 255, 127],
        // 1
        vec![1],
    ];
    kani::concrete_playback_run(concrete_vals, c02_num_u64_large_value_witness);
}
