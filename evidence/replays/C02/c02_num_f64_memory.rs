// harness: c02_predicates::c02_num_f64_memory (feature c02)
// replay: cd /verif && ./check --replay /verif/evidence/replays/C02/c02_num_f64_memory.rs
/// Test generated for harness `c02_predicates::c02_num_f64_memory` 
///
/// Check for `assertion`: ""memory tier equals the numeric comparison (float field)""

#[test]
fn kani_concrete_playback_c02_num_f64_memory_5547141557129517836() {
    let concrete_vals: Vec<Vec<u8>> = vec![
        // -2
        vec![255, 255, 255, 255, 255, 255, 255, 191],
        // -1
        vec![255, 255, 255, 255, 255, 255, 255, 255],
        // 5
        vec![5],
    ];
    kani::concrete_playback_run(concrete_vals, c02_num_f64_memory);
}
