// harness: c07_values::c07_snapshot_scalar_u64 (feature c07)
// replay: cd /verif && ./check --replay /verif/evidence/replays/C07/c07_snapshot_scalar_u64.rs
#[test]
fn kani_concrete_playback_c07_snapshot_scalar_u64_2634764374527390228() {
    let concrete_vals: Vec<Vec<u8>> = vec![
        // 2
        vec![2],
    ];
    kani::concrete_playback_run(concrete_vals, c07_snapshot_scalar_u64);
}

#[test]
fn kani_concrete_playback_c07_snapshot_scalar_u64_12198591469751058119() {
    let concrete_vals: Vec<Vec<u8>> = vec![
        // 1
        vec![1],
    ];
    kani::concrete_playback_run(concrete_vals, c07_snapshot_scalar_u64);
}
