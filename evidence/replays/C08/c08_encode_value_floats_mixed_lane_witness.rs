// harness: c08_pruning::c08_encode_value_floats_mixed_lane_witness (feature c08)
// replay: cd /verif && ./check --replay /verif/evidence/replays/C08/c08_encode_value_floats_mixed_lane_witness.rs
#[test]
fn kani_concrete_playback_c08_encode_value_floats_mixed_lane_witness_7222659713469393555() {
    let concrete_vals: Vec<Vec<u8>> = vec![
        // -1
        vec![2, 0, 0, 0, 0, 0, 240, 191],
        // -2.814750e+14
        vec![0, 0, 0, 0, 0, 0, 240, 194],
    ];
    kani::concrete_playback_run(concrete_vals, c08_encode_value_floats_mixed_lane_witness);
}

#[test]
fn kani_concrete_playback_c08_encode_value_floats_mixed_lane_witness_14899422352994891969() {
    let concrete_vals: Vec<Vec<u8>> = vec![
        // 1.780059e-307
        vec![0, 0, 0, 248, 255, 255, 63, 0],
        // 1.576260e+16
        vec![64, 0, 0, 248, 255, 255, 75, 67],
    ];
    kani::concrete_playback_run(concrete_vals, c08_encode_value_floats_mixed_lane_witness);
}
