// harness: c08_pruning::c08_encode_value_cross_kind_fractional_witness (feature c08)
// replay: cd /verif && ./check --replay /verif/evidence/replays/C08/c08_encode_value_cross_kind_fractional_witness.rs
#[test]
fn kani_concrete_playback_c08_encode_value_cross_kind_fractional_witness_1309325274526478983() {
    let concrete_vals: Vec<Vec<u8>> = vec![
        // 0
        vec![0],
        // 65540.5
        vec![0, 0, 0, 0, 72, 0, 240, 64],
        // 6890043130
        vec![250, 182, 173, 154, 1, 0, 0, 0],
    ];
    kani::concrete_playback_run(concrete_vals, c08_encode_value_cross_kind_fractional_witness);
}

#[test]
fn kani_concrete_playback_c08_encode_value_cross_kind_fractional_witness_14629206970022129556() {
    let concrete_vals: Vec<Vec<u8>> = vec![
        // 1
        vec![1],
        // 1.049668e-140
        vec![2, 0, 0, 0, 0, 0, 224, 34],
        // 6890043130
        vec![250, 182, 173, 154, 1, 0, 0, 0],
    ];
    kani::concrete_playback_run(concrete_vals, c08_encode_value_cross_kind_fractional_witness);
}
