// harness: c16_time::c16_epoch_millis_negative_fraction (feature c16)
// replay: cd /verif && ./check --replay /verif/evidence/replays/C16/c16_epoch_millis_negative_fraction.rs
/// Test generated for harness `c16_time::c16_epoch_millis_negative_fraction` 
///
/// Check for `assertion`: ""integer epoch maps to the floor of its instant in seconds""

#[test]
fn kani_concrete_playback_c16_epoch_millis_negative_fraction_6713115851080687961() {
    let concrete_vals: Vec<Vec<u8>> = vec![
        // -65066607050119
        vec![121, 2, 0, 128, 210, 196, 255, 255],
    ];
    kani::concrete_playback_run(concrete_vals, c16_epoch_millis_negative_fraction);
}
