#!/usr/bin/env python3
"""Regenerates /verif/MANIFEST.json from vlib/props.py (claimed checks) and the
not-applicable table below, so the manifest never drifts from the driver."""
import json
import os
import subprocess
import sys

VERIF = os.path.dirname(os.path.dirname(os.path.abspath(__file__)))
sys.path.insert(0, VERIF)
from vlib import props  # noqa: E402

ALL = ["C%02d" % i for i in range(1, 21)]


def hook_commits():
    try:
        out = subprocess.run(["git", "-C", "/repo", "log", "--format=%H %s"], capture_output=True,
                             text=True).stdout
    except Exception:
        return []
    return [l.split()[0] for l in out.splitlines() if " verif hook" in l]


def main():
    checks = []
    for pid in ALL:
        if pid not in props.PROPS:
            continue
        P = props.PROPS[pid]
        checks.append({
            "property_id": pid,
            "quick_cmd": f"./check {pid} --tier quick",
            "thorough_cmd": f"./check {pid} --tier thorough",
            "evidence_file": f"/verif/evidence/{pid}.json",
            "replay_cmd_template": f"./check {pid} --replay {{path}}",
            "engine": "+".join(e for e in (("kani" if P.get("kani") else None), ("mirsym" if P.get("mir") else None)) if e),
            "level_claimed": {
                "category": P["level"],
                "text": P["explanation"],
                "design_ref": P.get("design_ref", "DESIGN.md §4 " + pid),
            },
            "level_note": P.get("level_note", "Bounded verdicts only; trusted: kani-compiler + CBMC/CaDiCaL"
                                 + (", rustc MIR dump + mirsym encoder + z3" if P.get("mir") else "")
                                 + "; see evidence coverage.not_decided for what the claim excludes."),
            "technique": P.get("technique", "solver-based bounded checking of the real code"),
        })
    na = [{"property_id": pid, "reason": props.NOT_APPLICABLE[pid]} for pid in ALL
          if pid not in props.PROPS]
    m = {
        "version": 1,
        "setup_cmd": "./setup.sh",
        "hooks": {
            "guard": "cfg(kani)",
            "enable": "set automatically by `cargo kani` (kani-compiler passes --cfg kani to every crate); never set by cargo build/test",
            "baseline_off_cmd": "cd /repo && cargo nextest run --workspace --no-fail-fast --tool-config-file pb:/w/lib/nextest.toml --profile pb --test-threads 8 --offline",
            "source_commits": hook_commits(),
            "add_only": True,
        },
        "engines": [
            {"name": "kani", "path": "/verif/kani", "serves_properties": [p for p in ALL if p in props.PROPS and props.PROPS[p].get("kani")],
             "kind_free_text": "Kani 0.68 / CBMC 6.11 proof harnesses over the real sneldb functions (path dependency on /repo), symbolic inputs, unwinding assertions on, cover! vacuity witnesses, native concrete playback"},
            {"name": "mirsym", "path": "/verif/vlib/mirsym", "serves_properties": [p for p in ALL if p in props.PROPS and props.PROPS[p].get("mir")],
             "kind_free_text": "symbolic path-condition checker over rustc MIR dumps of the real functions (Python encoder + z3): guard / ordering / argument obligations in I/O and async code"},
        ],
        "checks": checks,
        "not_applicable": na,
        "notes": "All checks decide their obligations with a SAT/SMT solver over the real code within stated bounds; see DESIGN.md.",
    }
    with open(os.path.join(VERIF, "MANIFEST.json"), "w") as fh:
        json.dump(m, fh, indent=1)
    print("wrote MANIFEST.json:", len(checks), "checks,", len(na), "not applicable")


if __name__ == "__main__":
    main()
