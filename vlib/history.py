"""Run a command history against the real engine (native replay program, sub-command `history`).

Each lifetime is one process started on the same directories; a lifetime ends with `!kill`
(immediate _exit: the disk state at that instant is what the next lifetime finds), `!shutdown`
or the end of its script (also an immediate _exit, after the last response was printed).
The configuration is derived from /repo/config/test.toml with every path moved under `root`."""
import json
import os
import re
import subprocess

REPO = os.environ.get("VERIF_REPO", "/repo")


def write_config(root, capacity=3, shards=1, flush_each_write=True, buffered=False, extra=None):
    text = open(os.path.join(REPO, "config", "test.toml")).read()
    sub = {
        r'^dir\s*=.*$': f'dir = "{root}/wal/"',
        r'^archive_dir\s*=.*$': f'archive_dir = "{root}/wal-archived/"',
        r'^data_dir\s*=.*$': f'data_dir = "{root}/cols"',
        r'^index_dir\s*=.*$': f'index_dir = "{root}/index/"',
        r'^def_dir\s*=.*$': f'def_dir="{root}/schema/"',
        r'^log_dir\s*=.*$': f'log_dir = "{root}/logs"',
        r'^socket_path\s*=.*$': f'socket_path = "{root}/sneldb.sock"',
        r'^fill_factor\s*=.*$': 'fill_factor = 1',
        r'^event_per_zone\s*=.*$': f'event_per_zone = {capacity}',
        r'^shard_count\s*=.*$': f'shard_count = {shards}',
        r'^flush_each_write\s*=.*$': f'flush_each_write = {"true" if flush_each_write else "false"}',
        r'^buffered\s*=.*$': f'buffered = {"true" if buffered else "false"}',
        r'^stdout_level\s*=.*$': 'stdout_level = "error"',
        r'^compaction_interval\s*=.*$': 'compaction_interval = 100000',
    }
    sub.update(extra or {})
    for pat, rep in sub.items():
        text, n = re.subn(pat, rep, text, flags=re.M)
    os.makedirs(root, exist_ok=True)
    for d in ("wal", "cols", "index", "schema", "logs"):
        os.makedirs(os.path.join(root, d), exist_ok=True)
    with open(os.path.join(root, "config.toml"), "w") as fh:
        fh.write(text)
    return os.path.join(root, "config")


def run_lifetime(binary, root, script, timeout=120):
    env = dict(os.environ)
    env["SNELDB_CONFIG"] = os.path.join(root, "config")
    env["RUST_BACKTRACE"] = "0"
    try:
        p = subprocess.run([binary, "history", script], stdout=subprocess.PIPE, stderr=subprocess.PIPE, text=True,
                           env=env, timeout=timeout, cwd=root)
    except subprocess.TimeoutExpired:
        return None, [], "timeout"
    out = []
    for line in p.stdout.splitlines():
        m = re.match(r"^RESP (\d+) (.*)$", line)
        if m:
            try:
                out.append((int(m.group(1)), json.loads(m.group(2))))
            except ValueError:
                out.append((int(m.group(1)), m.group(2)))
    return p.returncode, out, p.stderr[-2000:]


def _rows(resp, drop=("timestamp", "event_id")):
    """rows of one QUERY answer as a sorted list of sorted (column, text) tuples; None when it is not a row answer"""
    if not isinstance(resp, str) or ('"type":"end"' not in resp and '"type":"batch"' not in resp):
        return None
    cols, rows = [], []
    for line in resp.splitlines():
        try:
            j = json.loads(line)
        except ValueError:
            continue
        if j.get("type") == "schema":
            cols = [c["name"] for c in j["columns"]]
        if j.get("type") == "batch":
            for x in j["rows"]:
                d = dict(zip(cols, x))
                for k in drop:
                    d.pop(k, None)
                rows.append(tuple(sorted((k, json.dumps(v)) for k, v in d.items())))
    return sorted(rows)


def memory_vs_segment(binary, setup, queries, capacity=50, timeout=120):
    """runs `setup` (DEFINE / STORE commands, ';'-separated) then `queries` twice on the real engine - once with the
    events still in the memtable, once after FLUSH - and returns [(query, rows_in_memory, rows_from_segment)];
    a rows value is None when the engine did not answer with rows"""
    import shutil
    import tempfile
    res = []
    for flush in (False, True):
        root = tempfile.mkdtemp(prefix="verif-hist-")
        try:
            write_config(root, capacity=capacity, shards=1)
            pre = setup.rstrip("; ") + ("; FLUSH; !wait; !sleep 500; " if flush else "; !sleep 300; PING; ")
            n = len([x for x in pre.split(";") if x.strip()])
            rc, out, err = run_lifetime(binary, root, pre + "; ".join(queries), timeout=timeout)
            got = dict(out)
            res.append([_rows(got.get(n + j)) for j in range(len(queries))])
        finally:
            shutil.rmtree(root, ignore_errors=True)
    return [(q, res[0][j], res[1][j]) for j, q in enumerate(queries)]
