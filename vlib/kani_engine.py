"""Engine A: run Kani proof harnesses over the real sneldb code and classify the verdicts.

The goto-program is regenerated from /repo's working tree on every run (cargo tracks the
path dependency); CBMC (CaDiCaL back end) decides every harness; unwinding assertions stay
on; cover! statements are the vacuity witnesses; a failed harness is replayed natively with
`cargo kani playback` before it is reported.
"""
import os
import re
import resource
import shutil
import signal
import subprocess
import time
from concurrent.futures import ThreadPoolExecutor

VERIF = os.path.dirname(os.path.dirname(os.path.abspath(__file__)))
KANI_DIR = os.path.join(VERIF, "kani")
CACHE = os.path.join(VERIF, ".cache")
TARGET = os.path.join(CACHE, "kani-target")
PLAYBACK_TARGET = os.path.join(CACHE, "playback-target")
REPO = os.environ.get("VERIF_REPO", "/repo")

ENV = dict(os.environ)
ENV["CARGO_NET_OFFLINE"] = "true"
ENV.pop("RUSTUP_TOOLCHAIN", None)

META_KEYS = ("id", "tier", "cap", "desc", "functions", "bounds", "assumes", "stubs", "expect",
             "optional", "mem")


def module_files(feature):
    out = []
    for f in sorted(os.listdir(os.path.join(KANI_DIR, "src"))):
        if f.startswith(feature + "_") and f.endswith(".rs"):
            out.append(f)
    return out


def parse_meta(feature):
    """Harness metadata lives next to the harness as `//@ key: value` comment lines."""
    harnesses = []
    for f in module_files(feature):
        mod = f[:-3]
        cur = {}
        pending_proof = False
        for line in open(os.path.join(KANI_DIR, "src", f)):
            s = line.strip()
            m = re.match(r"//@\s*(\w+):\s*(.*)$", s)
            if m:
                cur[m.group(1)] = m.group(2).strip()
                continue
            if s.startswith("#[kani::proof"):
                pending_proof = True
                continue
            if s.startswith("#[") or s.startswith("//") or not s:
                continue
            m = re.match(r"(?:pub(?:\([a-z]+\))?\s+)?fn\s+(\w+)\s*\(", s)
            if m and pending_proof:
                h = dict(cur)
                h["name"] = m.group(1)
                h["module"] = mod
                h["file"] = f
                h.setdefault("tier", "quick")
                h.setdefault("id", m.group(1))
                h.setdefault("expect", "pass")
                h["cap"] = int(h.get("cap", "300"))
                h["optional"] = h.get("optional", "false").lower() == "true"
                harnesses.append(h)
            cur = {}
            pending_proof = False
    return harnesses


def ensure_replay_stubs():
    """every harness module ends with `include!("replay/<module>.rs")` under cfg(test); the
    directory is not tracked, so make sure an (empty) file exists for every module"""
    rdir = os.path.join(KANI_DIR, "src", "replay")
    os.makedirs(rdir, exist_ok=True)
    for f in os.listdir(os.path.join(KANI_DIR, "src")):
        if re.match(r"^c\d\d_\w+\.rs$", f):
            p = os.path.join(rdir, f)
            if not os.path.exists(p):
                open(p, "w").write("")


def sync_lock():
    """The harness crate resolves exactly the dependency versions /repo pins."""
    src = os.path.join(REPO, "Cargo.lock")
    dst = os.path.join(KANI_DIR, "Cargo.lock")
    if not os.path.exists(dst):
        shutil.copy(src, dst)
        return
    # keep dst when it is src plus our own package / patched entries (cargo rewrites it);
    # re-seed from /repo when /repo's lock changed since
    stamp = os.path.join(CACHE, "lock.stamp")
    os.makedirs(CACHE, exist_ok=True)
    cur = open(src, "rb").read()
    old = open(stamp, "rb").read() if os.path.exists(stamp) else None
    if old != cur:
        shutil.copy(src, dst)
        open(stamp, "wb").write(cur)


def _limits(mem_gb):
    def f():
        os.setsid()
        if mem_gb:
            lim = int(mem_gb * (1 << 30))
            resource.setrlimit(resource.RLIMIT_AS, (lim, lim))
    return f


def _run(cmd, cwd, timeout, mem_gb=None, env=None):
    t0 = time.time()
    p = subprocess.Popen(cmd, cwd=cwd, env=env or ENV, stdout=subprocess.PIPE,
                         stderr=subprocess.STDOUT, text=True, errors="replace",
                         preexec_fn=_limits(mem_gb))
    try:
        out, _ = p.communicate(timeout=timeout)
        timed_out = False
    except subprocess.TimeoutExpired:
        try:
            os.killpg(p.pid, signal.SIGKILL)
        except ProcessLookupError:
            pass
        out, _ = p.communicate()
        timed_out = True
    return p.returncode, out, time.time() - t0, timed_out


def base_cmd(feature):
    return ["cargo", "kani", "--target-dir", TARGET, "-Z", "stubbing", "--features", feature]


def build(feature, timeout=2400):
    """Compile /repo's current tree + the harness module to goto programs (no solving)."""
    os.makedirs(CACHE, exist_ok=True)
    ensure_replay_stubs()
    sync_lock()
    rc, out, secs, to = _run(base_cmd(feature) + ["--only-codegen"], KANI_DIR, timeout)
    errs = [l for l in out.splitlines() if l.startswith("error")]
    return {"ok": rc == 0 and not to, "rc": rc, "secs": round(secs, 1), "timed_out": to,
            "errors": errs[:20], "log_tail": "\n".join(out.splitlines()[-40:])}


CHECK_RE = re.compile(
    r"^Check \d+: (?P<name>\S+)\n\s+- Status: (?P<status>\w+)\n\s+- Description: \"(?P<desc>.*?)\"\n(?:\s+- Location: (?P<loc>[^\n]*)\n)?",
    re.M | re.S)


def parse_output(out):
    res = {"checks": 0, "failed": [], "covers": [], "verdict": None, "solver_s": None,
           "unwind_failed": False, "status_error": False}
    for m in CHECK_RE.finditer(out):
        name, status, desc, loc = m.group("name"), m.group("status"), m.group("desc"), m.group("loc")
        desc = re.sub(r"\s+", " ", desc)
        if ".cover." in name or desc.startswith("cover condition") or status in (
                "SATISFIED", "UNSATISFIABLE"):
            res["covers"].append({"desc": desc, "status": status})
            continue
        res["checks"] += 1
        if status == "FAILURE":
            res["failed"].append({"check": name, "desc": desc, "loc": loc})
            if "unwinding assertion" in desc:
                res["unwind_failed"] = True
    m = re.search(r"VERIFICATION:- (\w+)", out)
    if m:
        res["verdict"] = m.group(1)
    m = re.search(r"Verification Time: ([\d.]+)s", out)
    if m:
        res["solver_s"] = float(m.group(1))
    if re.search(r"Status: ERROR|CBMC failed|out of memory|std::bad_alloc|SIGKILL|SIGABRT", out):
        res["status_error"] = True
    return res


def run_harness(feature, h, tier):
    cap = h["cap"]
    mem = float(h.get("mem", "14"))
    cmd = base_cmd(feature) + ["--harness", f"{h['module']}::{h['name']}", "--exact"]
    rc, out, wall, to = _run(cmd, KANI_DIR, cap + 120, mem_gb=mem)
    r = parse_output(out)
    r.update({"wall_s": round(wall, 1), "timed_out": to, "rc": rc})
    covers_total = len(r["covers"])
    covers_ok = sum(1 for c in r["covers"] if c["status"] == "SATISFIED")
    r["covers_total"], r["covers_ok"] = covers_total, covers_ok
    if to:
        r["outcome"] = "timeout"
    elif r["verdict"] == "SUCCESSFUL":
        if covers_ok < covers_total:
            r["outcome"] = "vacuous"
        else:
            r["outcome"] = "pass"
    elif r["verdict"] == "FAILED":
        real = [f for f in r["failed"] if "unwinding assertion" not in f["desc"]]
        if r["unwind_failed"]:
            r["outcome"] = "unwind"
        elif real:
            r["outcome"] = "fail"
        else:
            r["outcome"] = "error"
    else:
        r["outcome"] = "error"
    if r["outcome"] in ("error", "timeout"):
        r["log_tail"] = "\n".join(out.splitlines()[-30:])
    return r


PLAYBACK_RE = re.compile(r"Concrete playback unit test for `(?P<h>[^`]+)`:\n```\n(?P<body>.*?)\n```", re.S)


def replay(feature, h, keep_dir):
    """Re-run the failing harness with concrete playback, write the generated unit test next
    to the harness module and execute it natively (dev profile = the profile Kani models)."""
    cmd = base_cmd(feature) + ["-Z", "concrete-playback", "--concrete-playback=print",
                               "--harness", f"{h['module']}::{h['name']}", "--exact"]
    rc, out, wall, to = _run(cmd, KANI_DIR, h["cap"] + 300, mem_gb=float(h.get("mem", "14")))
    blocks = [m.group("body") for m in PLAYBACK_RE.finditer(out)]
    info = {"generated": False, "reproduced": False, "wall_s": round(wall, 1)}
    # Kani also emits playback tests for satisfied cover! statements; only the tests generated
    # for failed assertions / checks are counterexamples
    blocks = [b for b in blocks if "Check for `cover`" not in b]
    if not blocks:
        info["note"] = "no concrete playback test was produced"
        return info
    blocks = blocks[:4]
    # keep only the test functions: Kani copies the (possibly multi-line) assertion text into a
    # `///` comment, which does not compile when the text spans lines
    blocks = [b[b.index("#[test]"):] if "#[test]" in b else b for b in blocks]
    body = "\n\n".join(blocks)
    tnames = re.findall(r"fn (kani_concrete_playback_\w+)", body)
    tname = "kani_concrete_playback"
    vals = re.findall(r"//\s*(.+)\n\s*vec!\[", body)
    info.update({"generated": True, "tests": tnames, "values": vals[:32]})
    ensure_replay_stubs()
    rdir = os.path.join(KANI_DIR, "src", "replay")
    rfile = os.path.join(rdir, h["module"] + ".rs")
    open(rfile, "w").write(body + "\n")
    env = dict(ENV)
    env["CARGO_TARGET_DIR"] = PLAYBACK_TARGET
    env["RUST_BACKTRACE"] = "0"
    rc2, out2, wall2, to2 = _run(["cargo", "kani", "playback", "-Z", "concrete-playback",
                                  "--features", feature, "--", tname],
                                 KANI_DIR, 3600, env=env)
    info["playback_wall_s"] = round(wall2, 1)
    ran = re.search(r"test result: (\w+)\. (\d+) passed; (\d+) failed", out2)
    if ran and int(ran.group(3)) >= 1 and not to2:
        info["reproduced"] = True
        pm = re.search(r"panicked at ([^\n]+)\n([^\n]*)", out2)
        if pm:
            info["panic"] = (pm.group(1) + " " + pm.group(2)).strip()[:400]
    elif ran:
        info["note"] = "playback test passed natively: counterexample does not reproduce"
    else:
        info["note"] = "playback build/run failed: " + "\n".join(out2.splitlines()[-15:])
    # keep the test for the VIOLATION / KNOWN-FINDING line
    os.makedirs(keep_dir, exist_ok=True)
    keep = os.path.join(keep_dir, f"{h['name']}.rs")
    with open(keep, "w") as fh:
        fh.write(f"// harness: {h['module']}::{h['name']} (feature {feature})\n")
        fh.write("// replay: cd /verif && ./check --replay " + keep + "\n")
        fh.write(body + "\n")
    info["path"] = keep
    # leave the module's replay file empty again so later builds are unaffected
    open(rfile, "w").write("")
    return info


def run_property(feature, tier, jobs, log):
    hs = [h for h in parse_meta(feature) if tier == "thorough" or h["tier"] == "quick"]
    t0 = time.time()
    b = build(feature)
    log(f"[kani] build feature={feature} ok={b['ok']} {b['secs']}s")
    if not b["ok"]:
        return {"build": b, "results": [], "harnesses": hs}
    results = []

    def one(h):
        r = run_harness(feature, h, tier)
        log(f"[kani] {h['id']:6s} {h['name']:44s} {r['outcome']:8s} checks={r['checks']} "
            f"covers={r['covers_ok']}/{r['covers_total']} solver={r['solver_s']}s wall={r['wall_s']}s")
        return (h, r)

    with ThreadPoolExecutor(max_workers=jobs) as ex:
        results = list(ex.map(one, hs))
    return {"build": b, "results": results, "harnesses": hs, "wall_s": round(time.time() - t0, 1)}
