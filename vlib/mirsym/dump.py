#!/usr/bin/env python3
"""Drives rustc (the repository's pinned toolchain) to dump the MIR of the functions the
obligations are anchored in: `cargo rustc --lib -- -Zdump-mir='<f1> & StateTransform | ...'`.
The `StateTransform.before` dump is used for every function: it is the MIR after drop
elaboration and before the coroutine transform, so async fns still have explicit `yield`
terminators and ordinary call terminators, and nothing has been inlined or optimised.

Dumps are cached by a content hash of /repo's sources, so that several checks running on the
same working tree share one compiler run; any edit to /repo produces a new hash and a new dump.
"""
import hashlib
import os
import shutil
import subprocess
import sys
import time

VERIF = os.path.dirname(os.path.dirname(os.path.dirname(os.path.abspath(__file__))))
CACHE = os.path.join(VERIF, ".cache")
MIR_ROOT = os.path.join(CACHE, "mir")
TARGET = os.path.join(CACHE, "mirtarget")
REPO = os.environ.get("VERIF_REPO", "/repo")


def tree_hash(extra=""):
    h = hashlib.sha256()
    h.update(extra.encode())
    for root, dirs, files in os.walk(os.path.join(REPO, "src")):
        dirs.sort()
        for f in sorted(files):
            if f.endswith(".rs"):
                p = os.path.join(root, f)
                h.update(p.encode())
                with open(p, "rb") as fh:
                    h.update(fh.read())
    for f in ("Cargo.toml", "Cargo.lock", "rust-toolchain.toml", "build.rs"):
        p = os.path.join(REPO, f)
        if os.path.exists(p):
            h.update(open(p, "rb").read())
    return h.hexdigest()[:20]


def dump(filters, log=print, timeout=3000):
    """filters: list of substrings of MIR item paths. Returns (dir, info)."""
    filt = " | ".join(f"{f} & StateTransform" for f in sorted(set(filters)))
    key = tree_hash(filt)
    out = os.path.join(MIR_ROOT, key)
    marker = os.path.join(out, ".complete")
    info = {"cached": False, "secs": 0.0, "dir": out, "filters": len(set(filters))}
    if os.path.exists(marker):
        info["cached"] = True
        try:
            os.utime(out)        # in use: a concurrent run must not take it for a stale dump
        except OSError:
            pass
        return out, info
    os.makedirs(MIR_ROOT, exist_ok=True)
    # drop stale dumps (other tree states)
    for d in os.listdir(MIR_ROOT):
        p = os.path.join(MIR_ROOT, d)
        if d != key and os.path.isdir(p) and time.time() - os.path.getmtime(p) > 3600:
            shutil.rmtree(p, ignore_errors=True)
    tmp = out + ".tmp%d" % os.getpid()
    shutil.rmtree(tmp, ignore_errors=True)
    os.makedirs(tmp)
    env = dict(os.environ)
    env["CARGO_TARGET_DIR"] = TARGET
    env["CARGO_NET_OFFLINE"] = "true"
    # incremental compilation would load unchanged bodies from its cache without running the
    # MIR passes, so nothing would be dumped for them
    env["CARGO_INCREMENTAL"] = "0"
    env.pop("RUSTUP_TOOLCHAIN", None)
    cmd = ["cargo", "rustc", "--offline", "--lib", "--", f"-Zdump-mir={filt}",
           f"-Zdump-mir-dir={tmp}", "-Zmir-include-spans=on", "-Awarnings"]
    t0 = time.time()
    p = subprocess.run(cmd, cwd=REPO, env=env, stdout=subprocess.PIPE, stderr=subprocess.STDOUT,
                       text=True, timeout=timeout)
    info["secs"] = round(time.time() - t0, 1)
    if p.returncode != 0:
        info["error"] = "\n".join(p.stdout.splitlines()[-30:])
        shutil.rmtree(tmp, ignore_errors=True)
        return None, info
    # keep only the `before` dumps of real bodies (drop promoteds / tracing callsite statics)
    kept = 0
    for f in os.listdir(tmp):
        if (not f.endswith("StateTransform.before.mir") or "promoted[" in f or "__CALLSITE" in f
                or "-META" in f):
            os.remove(os.path.join(tmp, f))
        else:
            kept += 1
    info["files"] = kept
    open(os.path.join(tmp, ".complete"), "w").write(filt)
    if os.path.exists(out):
        shutil.rmtree(tmp, ignore_errors=True)
    else:
        os.rename(tmp, out)
    log(f"[mirsym] dumped MIR of {kept} bodies in {info['secs']}s -> {out}")
    prune_target()
    return out, info


def prune_target(keep=4):
    """every tree state / filter list leaves its own libsnel_db-<hash>.{rlib,rmeta,d} (about 80 MB) in the shared
    target directory; keep the newest few, drop the rest (they would be rebuilt on demand)"""
    import re
    deps = os.path.join(TARGET, "debug", "deps")
    groups = {}
    try:
        names = os.listdir(deps)
    except OSError:
        return
    for f in names:
        m = re.match(r"^(?:lib)?snel_db-([0-9a-f]{16})\.", f)
        if m:
            full = os.path.join(deps, f)
            try:
                groups.setdefault(m.group(1), []).append((os.path.getmtime(full), full))
            except OSError:
                pass
    order = sorted(groups, key=lambda h: max(t for t, _ in groups[h]), reverse=True)
    for h in order[keep:]:
        for _t, full in groups[h]:
            try:
                os.remove(full)
            except OSError:
                pass


def find_bodies(dump_dir, needle):
    """All dump files whose item path contains `needle` (e.g. 'wal_cleaner-{impl#0}-cleanup_up_to')."""
    import re
    # `{impl#N}` indices shift when impl blocks are added; match any index
    pat = re.escape(needle)
    pat = re.sub(r"\\\{impl\\#\d+\\\}", r"\\{impl#\\d+\\}", pat)
    rx = re.compile(pat)
    out = []
    for f in sorted(os.listdir(dump_dir)):
        if f.endswith(".mir") and rx.search(f):
            out.append(os.path.join(dump_dir, f))
    return out


if __name__ == "__main__":
    if "--warm" in sys.argv:
        sys.path.insert(0, VERIF)
        from vlib.mirsym import specs
        d, info = dump(specs.all_filters())
        print(info)
        sys.exit(0 if d else 1)
