"""Bounded symbolic evaluation of one MIR body into SMT (z3).

The CFG is unrolled into a DAG (at most K traversals of back edges in total; `yield` = the
awaited future is assumed ready, so the Pending/yield arm of an await is cut; unwind edges are
not followed), then evaluated once in topological order with state merging (ite over edge
conditions), which gives for every block instance a reachability formula `reach` over
  * named symbols for CONFIG fields, function arguments, captured variables,
  * one fresh symbol per opaque call result (and per projection of it),
and for every local its symbolic value at that point. Machine integers are bit-vectors of
their width (wrapping), booleans are Bool, enum discriminants 64-bit vectors; everything else
is an opaque labelled value. Calls are opaque: they return a fresh value and havoc the
pointees of `&mut` arguments.
"""
import re

import z3

from . import mir
from .mir import Place, INT_BITS, SIGNED


_CRATE_CONSTS = None


def crate_consts():
    """Integer `const NAME: <int type> = <literal>;` items of the crate, read from the current
    source, keyed by (module path, NAME). Only plain literals are resolved; anything else stays
    an opaque named constant."""
    global _CRATE_CONSTS
    if _CRATE_CONSTS is not None:
        return _CRATE_CONSTS
    import os
    from .dump import REPO
    out = {}
    src = os.path.join(REPO, "src")
    pat = re.compile(r"^\s*(?:pub(?:\([^)]*\))?\s+)?const\s+([A-Z][A-Z0-9_]*)\s*:\s*([iu](?:8|16|32|64|128|size))\s*=\s*"
                     r"(-?[0-9][0-9_]*)(?:_?[iu](?:8|16|32|64|128|size))?\s*;", re.M)
    for root, _dirs, files in os.walk(src):
        for f in files:
            if not f.endswith(".rs"):
                continue
            full = os.path.join(root, f)
            rel = os.path.relpath(full, src)[:-3].split(os.sep)
            if rel[-1] in ("mod", "lib"):
                rel = rel[:-1]
            mod = "::".join(rel)
            try:
                text = open(full).read()
            except OSError:
                continue
            for m in pat.finditer(text):
                key = (mod, m.group(1))
                val = (int(m.group(3).replace("_", "")), m.group(2))
                if key in out and out[key] != val:
                    out[key] = None      # ambiguous (e.g. nested modules): leave opaque
                else:
                    out[key] = val
    _CRATE_CONSTS = {k: v for k, v in out.items() if v is not None}
    return _CRATE_CONSTS


class Opaque:
    __slots__ = ("label",)

    def __init__(self, label):
        self.label = label

    def __repr__(self):
        return f"<{self.label}>"


class Agg:
    __slots__ = ("tag", "fields", "names")

    def __init__(self, tag, fields, names=None):
        self.tag = tag
        self.fields = list(fields)
        self.names = list(names) if names else None

    def field(self, name):
        if self.names and name in self.names:
            return self.fields[self.names.index(name)]
        return None

    def __repr__(self):
        return f"{self.tag}{self.fields}"


class Phi:
    """value that differs between merged paths and is not a scalar: alternatives by edge condition"""
    __slots__ = ("label", "alts")

    def __init__(self, label, alts):
        self.label = label
        self.alts = alts  # list of (cond, value)

    def __repr__(self):
        return f"<{self.label}>"


class Ref:
    __slots__ = ("place", "mutable")

    def __init__(self, place, mutable):
        self.place = place
        self.mutable = mutable

    def __repr__(self):
        return f"&{'mut ' if self.mutable else ''}{self.place}"


def is_term(v):
    return isinstance(v, z3.ExprRef)


def same(a, b):
    if a is b:
        return True
    if is_term(a) and is_term(b):
        return a.eq(b)
    if isinstance(a, Opaque) and isinstance(b, Opaque):
        return a.label == b.label
    if isinstance(a, Phi) and isinstance(b, Phi):
        return a.label == b.label
    if isinstance(a, Ref) and isinstance(b, Ref):
        return repr(a.place) == repr(b.place)
    if isinstance(a, Agg) and isinstance(b, Agg):
        return a.tag == b.tag and len(a.fields) == len(b.fields) and all(
            same(x, y) for x, y in zip(a.fields, b.fields))
    return False


def describe(v):
    if is_term(v):
        s = str(v)
        return s if len(s) < 60 else s[:57] + "..."
    if isinstance(v, (Opaque, Phi)):
        return v.label
    return repr(v)


def strip_ref(ty):
    ty = (ty or "").strip()
    m = re.match(r"^&(?:'\w+ )?(?:mut )?(.*)$", ty)
    if m:
        return m.group(1).strip()
    m = re.match(r"^\*(?:const|mut) (.*)$", ty)
    if m:
        return m.group(1).strip()
    for wrapper in ("std::sync::Arc<", "Arc<", "std::boxed::Box<", "Box<", "std::pin::Pin<", "Pin<"):
        if ty.startswith(wrapper) and ty.endswith(">"):
            return ty[len(wrapper):-1].strip()
    return ty


def short_callee(func):
    """`<A<B> as Tr<C>>::m::<D>` -> `Tr::m`;  `a::b::T::m::<X>` -> `T::m`"""
    s = func.strip()
    # remove generic argument lists
    out, depth = [], 0
    i = 0
    while i < len(s):
        c = s[i]
        if c == "<":
            depth += 1
        elif c == ">" and depth > 0 and s[i - 1] != "-":
            depth -= 1
        elif depth == 0:
            out.append(c)
        i += 1
    flat = "".join(out)
    m = re.match(r"^<(.*)>::(.*)$", s)
    if m and " as " in s:
        # trait method: take the trait's last segment
        inner = s[1:]
        # find top-level ' as '
        depth = 0
        k = -1
        for j in range(len(inner)):
            if inner[j] == "<":
                depth += 1
            elif inner[j] == ">" and inner[j - 1] != "-":
                if depth == 0:
                    break
                depth -= 1
            elif depth == 0 and inner.startswith(" as ", j):
                k = j
        if k >= 0:
            rest = inner[k + 4:]
            # rest = Trait<..>>::method...
            depth = 0
            for j in range(len(rest)):
                if rest[j] == "<":
                    depth += 1
                elif rest[j] == ">" and rest[j - 1] != "-":
                    if depth == 0:
                        trait = re.sub(r"<.*$", "", rest[:j]).split("::")[-1]
                        meth = re.sub(r"::<.*$", "", rest[j + 1:].lstrip(":"))
                        meth = re.sub(r"<.*$", "", meth)
                        return f"{trait}::{meth}"
                    depth -= 1
    flat = flat.replace("::::", "::").strip(":")
    segs = [x for x in flat.split("::") if x and x != "{impl}"]
    segs = [re.sub(r"^impl at .*$", "impl", x) for x in segs]
    return "::".join(segs[-2:]) if len(segs) >= 2 else (segs[0] if segs else s)


INT_INTRINSIC = re.compile(r"core::num::<impl ([iu](?:8|16|32|64|128|size))>::"
                           r"(saturating_add|saturating_sub|saturating_mul|wrapping_add|wrapping_sub|wrapping_mul|min|max|"
                           r"unsigned_abs|div_euclid|rem_euclid)$")
TRY_FROM_INT = re.compile(r"<([iu](?:8|16|32|64|128|size)) as TryFrom<([iu](?:8|16|32|64|128|size))>>::try_from$")
IDENTITY_CALLS = re.compile(
    r"(as Deref>::deref$|as DerefMut>::deref_mut$|as IntoFuture>::into_future$|Pin::<.*>::new_unchecked$|"
    r"Pin::<.*>::new$|as AsRef<.*>>::as_ref$|as Borrow<.*>>::borrow$|as Clone>::clone$|"
    r"Pin::<.*>::get_unchecked_mut$|as AsMut<.*>>::as_mut$|as Into<.*>>::into$|as From<.*>>::from$|"
    r"as std::convert::Into<.*>>::into$|Arc::<.*>::clone$|get_context$)")

LOGGING_CALLS = re.compile(r"^(tracing|tracing_core|log)::|<tracing|::__macro_support::|LevelFilter|"
                           r"DefaultCallsite|tracing::|Interest::")


class StructIndex:
    """field index -> field name, from the struct declarations in /repo/src (MIR prints
    field projections by index only)"""

    def __init__(self, repo_src):
        self.repo_src = repo_src
        self.cache = None
        self.enums = None

    def _load(self):
        import os
        self.cache = {}   # struct name -> list of (module path parts, [field names])
        pat = re.compile(r"\bstruct\s+(\w+)\s*(?:<[^>{]*>)?\s*\{(.*?)\n\}", re.S)
        for root, _, files in os.walk(self.repo_src):
            for f in files:
                if not f.endswith(".rs"):
                    continue
                full = os.path.join(root, f)
                try:
                    txt = open(full, errors="replace").read()
                except OSError:
                    continue
                rel = os.path.relpath(full, self.repo_src)[:-3].split(os.sep)
                if rel[-1] == "mod":
                    rel = rel[:-1]
                for m in pat.finditer(txt):
                    fields = []
                    for line in m.group(2).splitlines():
                        line = line.split("//")[0].strip()
                        mm = re.match(r"^(?:pub(?:\([^)]*\))?\s+)?(\w+)\s*:", line)
                        if mm and not line.startswith("#"):
                            fields.append(mm.group(1))
                    self.cache.setdefault(m.group(1), []).append((rel, fields))

    def _fields(self, type_str):
        if self.cache is None:
            self._load()
        t = re.sub(r"<.*$", "", strip_ref(type_str or "")).strip()
        parts = [p for p in t.split("::") if p]
        if not parts:
            return None
        cands = self.cache.get(parts[-1])
        if not cands:
            return None
        if len(cands) == 1:
            return cands[0][1]
        # several structs share the name: the one whose file path matches the type's module path
        best, score = None, -1
        for rel, fields in cands:
            sc = len(set(rel) & set(parts[:-1]))
            if sc > score:
                best, score = fields, sc
        ties = [1 for rel, fields in cands if len(set(rel) & set(parts[:-1])) == score]
        return best if len(ties) == 1 else None

    def variant_count(self, type_str):
        t = re.sub(r"^std::(option|result|task|task::poll|ops|ops::control_flow|cmp)::", "", strip_ref(type_str or "").strip())
        t = re.sub(r"^core::(option|result|task::poll|ops::control_flow)::", "", t)
        for name in ("Option<", "Result<", "Poll<", "ControlFlow<"):
            if t.startswith(name):
                return 2
        if self.enums is None:
            import os
            self.enums = {}
            pat = re.compile(r"\benum\s+(\w+)\s*(?:<[^>{]*>)?\s*\{(.*?)\n\}", re.S)
            for root, _, files in os.walk(self.repo_src):
                for f in files:
                    if f.endswith(".rs"):
                        try:
                            txt = open(os.path.join(root, f), errors="replace").read()
                        except OSError:
                            continue
                        for m in pat.finditer(txt):
                            body = re.sub(r"//[^\n]*", "", m.group(2))
                            # count top-level variants
                            depth, n, cur = 0, 0, ""
                            for ch in body:
                                if ch in "({[":
                                    depth += 1
                                elif ch in ")}]":
                                    depth -= 1
                                elif ch == "," and depth == 0:
                                    if re.search(r"\w", re.sub(r"#\[[^\]]*\]", "", cur)):
                                        n += 1
                                    cur = ""
                                    continue
                                cur += ch
                            if re.search(r"\w", re.sub(r"#\[[^\]]*\]", "", cur)):
                                n += 1
                            if m.group(1) in self.enums and self.enums[m.group(1)] != n:
                                self.enums[m.group(1)] = 0  # ambiguous name
                            else:
                                self.enums.setdefault(m.group(1), n)
        base = re.sub(r"<.*$", "", t).split("::")[-1].strip()
        return self.enums.get(base, 0)

    def variant_index(self, tag):
        """index of `Enum::Variant` in the declaration order of a repository enum (None if the
        enum is unknown or its name is declared twice with different variants)"""
        parts = [x for x in re.sub(r"<.*?>", "", tag).split("::") if x]
        if len(parts) < 2:
            return None
        enum, variant = parts[-2], parts[-1]
        if getattr(self, "enum_names", None) is None:
            import os
            self.enum_names = {}
            pat = re.compile(r"\benum\s+(\w+)\s*(?:<[^>{]*>)?\s*\{(.*?)\n\}", re.S)
            for root, _, files in os.walk(self.repo_src):
                for f in files:
                    if not f.endswith(".rs"):
                        continue
                    try:
                        txt = open(os.path.join(root, f), errors="replace").read()
                    except OSError:
                        continue
                    for m in pat.finditer(txt):
                        body = re.sub(r"//[^\n]*", "", m.group(2))
                        body = re.sub(r"#\[[^\]]*\]", "", body)
                        prev = None
                        while prev != body:
                            prev = body
                            body = re.sub(r"\([^()]*\)|\{[^{}]*\}", "", body)
                        names = [x.strip().split("=")[0].strip() for x in body.split(",")]
                        names = [n for n in names if re.match(r"^[A-Z]\w*$", n)]
                        if m.group(1) in self.enum_names and self.enum_names[m.group(1)] != names:
                            self.enum_names[m.group(1)] = None
                        else:
                            self.enum_names.setdefault(m.group(1), names)
        names = self.enum_names.get(enum)
        if names and variant in names:
            return names.index(variant)
        return None

    def name(self, type_str, idx):
        fields = self._fields(type_str)
        if fields and idx < len(fields):
            return fields[idx]
        return str(idx)


class Event:
    def __init__(self, node, bb, layer, func, short, site, args, arg_types, reach, env, span, dest_label):
        self.node = node
        self.bb = bb
        self.layer = layer
        self.func = func
        self.short = short
        self.site = site
        self.args = args
        self.arg_types = arg_types
        self.reach = reach
        self.env = env
        self.span = span
        self.dest_label = dest_label


class Evaluation:
    def __init__(self, fn, structs, k=2, ghosts=None, follow_panics=False, watch=None, counters=None):
        self.fn = fn
        self.structs = structs
        self.k = k
        self.ghosts = ghosts or {}  # name -> compiled regex on callee text
        # ghost counters: name -> f(event, evaluation) returning None (no match) or the condition
        # under which this call counts; env["#name"] is the number of counted calls on the path so far
        self.counters = counters or {}
        self.watch = set(watch or [])  # source variable names whose assignments become events
        self.events = []
        self.returns = []  # (node, reach, env)
        self.node_reach = {}
        self.node_env_out = {}
        self.order = []
        self.cut_back_edges = 0
        self.cut_conditions = []   # reach conditions of back edges that were cut (unwinding assertions)
        self.opaque_statements = 0
        self.sym_cache = {}
        self.site_counter = {}
        self.site_of_bb = {}
        self.await_counter = {}
        self.domain = {}  # discriminant symbol -> range constraint (number of enum variants)
        self.capture_names = {}
        for name, places in fn.debug.items():
            for txt in places:
                pl = mir.parse_place(txt)
                if pl is not None and pl.local in fn.args:
                    fields = [p for p in pl.projs if p[0] == "field"]
                    if len(fields) == 1:
                        self.capture_names.setdefault((pl.local, fields[0][1]), name)
        self.follow_panics = follow_panics
        self._number_sites()
        self._build_dag()
        self._evaluate()

    # ---------------------------------------------------------------- symbols
    def sym(self, label, ty):
        ty = (ty or "").strip()
        key = (label, ty)
        if key in self.sym_cache:
            return self.sym_cache[key]
        if ty == "bool":
            t = z3.Bool(label)
        elif ty in INT_BITS:
            t = z3.BitVec(label, INT_BITS[ty])
        else:
            t = None
        self.sym_cache[key] = t
        return t

    def to_term(self, v, ty):
        if is_term(v):
            return v
        if isinstance(v, Phi) and (ty in INT_BITS or ty == "bool"):
            # a scalar that differs between merged paths: ite over the edge conditions (the last
            # alternative is the default; the conditions are exhaustive at the merge point)
            cache = self.__dict__.setdefault("_phi_terms", {})
            key = (v.label, ty)
            if key not in cache:
                cache[key] = None          # cycle guard
                alts = [(c, self.to_term(x, ty)) for (c, x) in v.alts]
                if alts and all(t is not None for _, t in alts) and len({t.sort() for _, t in alts}) == 1:
                    term = alts[-1][1]
                    for c, t in reversed(alts[:-1]):
                        term = z3.If(c, t, term)
                    cache[key] = term
            if cache[key] is not None:
                return cache[key]
        if isinstance(v, (Opaque, Phi)):
            return self.sym(v.label, ty)
        return None

    # ---------------------------------------------------------------- structure
    def _number_sites(self):
        for idx in sorted(self.fn.blocks):
            t = self.fn.blocks[idx].term
            if t and t["kind"] == "call":
                sh = short_callee(t["func"])
                n = self.site_counter.get(sh, 0)
                self.site_counter[sh] = n + 1
                self.site_of_bb[idx] = f"{sh}#{n}"

    def _succ(self, idx):
        b = self.fn.blocks[idx]
        t = b.term
        if t is None:
            return []
        if t["kind"] == "yield":
            return []  # awaited future assumed ready: the Pending arm is cut
        return [x for (_, x) in t.get("targets", [])]

    def _build_dag(self):
        fn = self.fn
        # back edges by iterative DFS from bb0
        color = {}
        back = set()
        stack = [(0, iter(self._succ(0)))]
        color[0] = 1
        while stack:
            u, it = stack[-1]
            adv = False
            for v in it:
                if color.get(v, 0) == 0:
                    color[v] = 1
                    stack.append((v, iter(self._succ(v))))
                    adv = True
                    break
                elif color.get(v) == 1:
                    back.add((u, v))
            if not adv:
                color[u] = 2
                stack.pop()
        self.back_edges = back
        self.reachable_blocks = set(color)
        # DAG nodes (bb, layer); topological order by DFS post-order
        self.preds = {}
        order = []
        seen = set()
        stack = [((0, 0), None)]
        # iterative post-order
        visit = [((0, 0), 0)]
        succs_cache = {}

        def succs(node):
            if node in succs_cache:
                return succs_cache[node]
            bb, layer = node
            out = []
            for (label, v) in (self.fn.blocks[bb].term or {}).get("targets", []) if self.fn.blocks[bb].term and self.fn.blocks[bb].term["kind"] != "yield" else []:
                if (bb, v) in back:
                    if layer < self.k:
                        out.append((label, (v, layer + 1)))
                    else:
                        self.cut_back_edges += 1
                else:
                    out.append((label, (v, layer)))
            succs_cache[node] = out
            return out

        self._succs = succs
        state = {}
        st = [(0, 0)]
        itstack = []
        state[(0, 0)] = 1
        itstack.append(((0, 0), iter(succs((0, 0)))))
        while itstack:
            node, it = itstack[-1]
            adv = False
            for (_, nxt) in it:
                if nxt not in state:
                    state[nxt] = 1
                    itstack.append((nxt, iter(succs(nxt))))
                    adv = True
                    break
            if not adv:
                order.append(node)
                itstack.pop()
        order.reverse()
        self.order = order
        for node in order:
            for (label, nxt) in succs(node):
                self.preds.setdefault(nxt, []).append((node, label))

    # ---------------------------------------------------------------- values
    def const_value(self, text):
        t = text.strip()
        if t == "true":
            return z3.BoolVal(True)
        if t == "false":
            return z3.BoolVal(False)
        m = re.match(r"^(-?\d+)_(\w+)$", t)
        if m and m.group(2) in INT_BITS:
            return z3.BitVecVal(int(m.group(1)), INT_BITS[m.group(2)])
        m = re.match(r"^core::num::<impl ([iu](?:8|16|32|64|128|size))>::(MAX|MIN)$", t)
        if m:
            ty, which = m.group(1), m.group(2)
            bits = INT_BITS[ty]
            if ty in SIGNED:
                v = (1 << (bits - 1)) - 1 if which == "MAX" else -(1 << (bits - 1))
            else:
                v = (1 << bits) - 1 if which == "MAX" else 0
            return z3.BitVecVal(v, bits)
        m = re.match(r"^'(.)'$", t)
        if m:
            return z3.BitVecVal(ord(m.group(1)), 32)
        m = re.match(r"^((?:\w+::)+)([A-Z][A-Z0-9_]*)$", t)
        if m:
            cv = crate_consts().get((m.group(1).rstrip(":"), m.group(2)))
            if cv is not None:
                return z3.BitVecVal(cv[0], INT_BITS[cv[1]])
        if "Lazy<std::sync::Arc<shared::config::model::Settings>>" in t or "Lazy<Arc<Settings>>" in t:
            return Opaque("CONFIG")
        if t == "()":
            return Agg("tuple", [])
        return Opaque("const:" + re.sub(r"\s+", " ", t)[:160])

    def init_value(self, local):
        names = [n for n, places in self.fn.debug.items() if f"_{local}" in places]
        if local in self.fn.args:
            return Opaque("arg:" + (names[0] if names else f"_{local}"))
        return Opaque(f"uninit:_{local}")

    def read_place(self, env, place):
        v = env.get(place.local)
        ty = self.fn.types.get(place.local, "")
        if v is None:
            v = self.init_value(place.local)
        for p in place.projs:
            if p[0] == "deref":
                hops = 0
                while isinstance(v, Ref) and hops < 4:
                    v, _ = self.read_place(env, v.place)
                    hops += 1
                    break
                ty = strip_ref(ty)
            elif p[0] == "field":
                idx, fty = p[1], p[2]
                if isinstance(v, Agg) and idx < len(v.fields):
                    v = v.fields[idx]
                elif isinstance(v, Phi):
                    v = Opaque(f"{v.label}.{idx}")
                elif isinstance(v, Opaque):
                    cap = self.capture_names.get((place.local, idx)) if v.label == f"arg:_{place.local}" else None
                    if cap:
                        v = Opaque(f"cap:{cap}")
                    else:
                        v = Opaque(f"{v.label}.{self.structs.name(ty, idx)}")
                else:
                    v = Opaque(f"proj({describe(v)}).{idx}")
                ty = fty
            elif p[0] == "downcast":
                if isinstance(v, Phi):
                    v = Opaque(f"{v.label}:{p[1]}")
                elif isinstance(v, Opaque):
                    v = Opaque(f"{v.label}:{p[1]}")
                # Agg keeps its variant fields
            elif p[0] == "index":
                v = Opaque(f"{describe(v)}[{p[1]}]")
                ty = re.sub(r"^\[(.*?)(;.*)?\]$", r"\1", strip_ref(ty))
        return v, ty

    def write_place(self, env, place, value):
        if not place.projs:
            env[place.local] = value
            return
        base = env.get(place.local)
        if base is None:
            base = self.init_value(place.local)
        p0 = place.projs[0]
        if p0[0] == "deref" and isinstance(base, Ref):
            self.write_place(env, Place(base.place.local, base.place.projs + place.projs[1:]), value)
            return
        if p0[0] == "field" and len(place.projs) == 1:
            if isinstance(base, Agg) and p0[1] < len(base.fields):
                nf = list(base.fields)
                nf[p0[1]] = value
                env[place.local] = Agg(base.tag, nf)
                return
            if isinstance(base, Opaque) and base.label.startswith("uninit:"):
                fields = [Opaque(f"{base.label}.{i}") for i in range(p0[1] + 1)]
                fields[p0[1]] = value
                env[place.local] = Agg("partial", fields)
                return
            if isinstance(base, Agg) and base.tag == "partial":
                nf = list(base.fields) + [Opaque(f"uninit:_{place.local}.{i}") for i in
                                          range(len(base.fields), p0[1] + 1)]
                nf[p0[1]] = value
                env[place.local] = Agg("partial", nf)
                return
            # a field of an opaque struct value (call result, merged value) is overwritten: keep the other
            # fields as the same symbols a read of them would have produced
            if isinstance(base, (Opaque, Phi)) and not (isinstance(base, Opaque) and base.label.startswith("uninit:")):
                ty = strip_ref(self.fn.types.get(place.local, ""))
                names = self.structs._fields(ty)
                if names and p0[1] < len(names):
                    if isinstance(base, Phi):
                        fields = [Opaque(f"{base.label}.{i}") for i in range(len(names))]
                    else:
                        fields = [Opaque(f"{base.label}.{self.structs.name(ty, i)}") for i in range(len(names))]
                    fields[p0[1]] = value
                    env[place.local] = Agg(re.sub(r"<.*$", "", ty).split("::")[-1], fields, list(names))
                    return
        # unknown structure: the base becomes a fresh opaque value that keeps its name root, so
        # later reads of its fields are new symbols (sound) but still recognisable
        self.havoc_counter = getattr(self, "havoc_counter", 0) + 1
        root = base.label.split("~")[0] if isinstance(base, Opaque) else f"written:_{place.local}"
        env[place.local] = Opaque(f"{root}~{self.havoc_counter}")

    def read_operand(self, env, op):
        if op[0] in ("copy", "move"):
            return self.read_place(env, op[1])
        if op[0] == "const":
            v = self.const_value(op[1])
            ty = ""
            m = re.match(r"^-?\d+_(\w+)$", op[1].strip())
            m2 = re.match(r"^core::num::<impl (\w+)>::(MAX|MIN)$", op[1].strip())
            if m:
                ty = m.group(1)
            elif m2:
                ty = m2.group(1)
            elif op[1].strip() in ("true", "false"):
                ty = "bool"
            return v, ty
        return Opaque("raw:" + op[1][:80]), ""

    def try_from_int(self, func, arg, site):
        """<T as TryFrom<U>>::try_from on machine integers: Ok(value) iff the value is representable"""
        m = TRY_FROM_INT.search(func)
        to, frm = m.group(1), m.group(2)
        x = self.to_term(arg, frm)
        if x is None or not z3.is_bv(x):
            return None
        fb, tb = INT_BITS[frm], INT_BITS[to]
        fs, ts = frm in SIGNED, to in SIGNED
        lo = -(1 << (tb - 1)) if ts else 0
        hi = (1 << (tb - 1)) - 1 if ts else (1 << tb) - 1
        if fs:
            conds = [x >= z3.BitVecVal(max(lo, -(1 << (fb - 1))), fb)]
            if hi < (1 << (fb - 1)) - 1:
                conds.append(x <= z3.BitVecVal(hi, fb))
        else:
            conds = [z3.ULE(x, z3.BitVecVal(hi, fb))] if hi < (1 << fb) - 1 else []
        ok = z3.And(conds) if conds else z3.BoolVal(True)
        val = z3.Extract(tb - 1, 0, x) if tb <= fb else (z3.SignExt(tb - fb, x) if fs else z3.ZeroExt(tb - fb, x))
        return Phi(site, [(ok, Agg("Result::Ok", [val])), (z3.Not(ok), Agg("Result::Err", [Opaque(site + ":Err.0")]))])

    def result_ok(self, v):
        """Result::ok: Ok(v) -> Some(v), Err(_) -> None"""
        if isinstance(v, Agg) and v.tag.endswith("Ok"):
            return Agg("Option::Some", [v.fields[0]] if v.fields else [])
        if isinstance(v, Agg) and v.tag.endswith("Err"):
            return Agg("Option::None", [])
        if isinstance(v, Phi):
            alts = [(c, self.result_ok(x)) for c, x in v.alts]
            if all(a is not None for _, a in alts):
                return Phi(v.label + ".ok", alts)
        return None

    def int_intrinsic(self, func, args):
        """core::num::<impl T>::{saturating,wrapping}_{add,sub,mul} / min / max / unsigned_abs /
        div_euclid / rem_euclid on machine integers"""
        m = INT_INTRINSIC.search(func)
        ty, name = m.group(1), m.group(2)
        if name == "unsigned_abs":
            x = self.to_term(args[0], ty)
            if x is None or not z3.is_bv(x) or len(args) != 1:
                return None
            return z3.If(x < 0, -x, x) if ty in SIGNED else x
        if len(args) != 2:
            return None
        x, y = self.to_term(args[0], ty), self.to_term(args[1], ty)
        if x is None or y is None or not z3.is_bv(x) or not z3.is_bv(y) or x.size() != y.size():
            return None
        if name in ("div_euclid", "rem_euclid"):
            if ty not in SIGNED:
                return z3.UDiv(x, y) if name == "div_euclid" else z3.URem(x, y)
            q, r_ = x / y, z3.SRem(x, y)             # bvsdiv / bvsrem: truncating, like Rust's `/` and `%`
            if name == "rem_euclid":
                return z3.If(r_ < 0, z3.If(y < 0, r_ - y, r_ + y), r_)
            return z3.If(r_ < 0, z3.If(y > 0, q - 1, q + 1), q)
        bits, signed = INT_BITS[ty], ty in SIGNED
        ext = (lambda t: z3.SignExt(bits, t)) if signed else (lambda t: z3.ZeroExt(bits, t))
        hi = (1 << (bits - 1)) - 1 if signed else (1 << bits) - 1
        lo = -(1 << (bits - 1)) if signed else 0
        le = (lambda a, b: a <= b) if signed else z3.ULE
        if name in ("min", "max"):
            c = le(x, y)
            return z3.If(c, x, y) if name == "min" else z3.If(c, y, x)
        kind, op = name.split("_")
        if kind == "wrapping":
            return {"add": x + y, "sub": x - y, "mul": x * y}[op]
        wx, wy = ext(x), ext(y)
        wide = {"add": wx + wy, "sub": wx - wy, "mul": wx * wy}[op]
        H, L = z3.BitVecVal(hi, 2 * bits), z3.BitVecVal(lo, 2 * bits)
        if signed:
            sat = z3.If(wide > H, H, z3.If(wide < L, L, wide))     # signed compare on the 2x-wide value
        elif op == "sub":
            return z3.If(z3.ULT(x, y), z3.BitVecVal(0, bits), x - y)
        else:
            sat = z3.If(z3.UGT(wide, H), H, wide)
        return z3.simplify(z3.Extract(bits - 1, 0, sat))

    def binop(self, op, a, ta, b, tb, node):
        ty = ta if ta in INT_BITS or ta == "bool" else tb
        x, y = self.to_term(a, ty), self.to_term(b, ty)
        signed = ty in SIGNED
        base = op.replace("WithOverflow", "").replace("Unchecked", "").replace("Checked", "")
        if x is not None and y is not None and x.sort() == y.sort():
            try:
                if base == "Eq":
                    return x == y
                if base == "Ne":
                    return x != y
                if z3.is_bv(x):
                    if base == "Lt":
                        return (x < y) if signed else z3.ULT(x, y)
                    if base == "Le":
                        return (x <= y) if signed else z3.ULE(x, y)
                    if base == "Gt":
                        return (x > y) if signed else z3.UGT(x, y)
                    if base == "Ge":
                        return (x >= y) if signed else z3.UGE(x, y)
                    res = None
                    if base == "Add":
                        res = x + y
                        ovf = z3.Not(z3.BVAddNoOverflow(x, y, signed)) if not signed else z3.Or(
                            z3.Not(z3.BVAddNoOverflow(x, y, True)), z3.Not(z3.BVAddNoUnderflow(x, y)))
                    elif base == "Sub":
                        res = x - y
                        ovf = z3.Not(z3.BVSubNoUnderflow(x, y, signed)) if not signed else z3.Or(
                            z3.Not(z3.BVSubNoOverflow(x, y)), z3.Not(z3.BVSubNoUnderflow(x, y, True)))
                    elif base == "Mul":
                        res = x * y
                        ovf = z3.Not(z3.BVMulNoOverflow(x, y, signed))
                    elif base == "Div":
                        res = (x / y) if signed else z3.UDiv(x, y)
                    elif base == "Rem":
                        res = z3.SRem(x, y) if signed else z3.URem(x, y)
                    elif base == "BitAnd":
                        res = x & y
                    elif base == "BitOr":
                        res = x | y
                    elif base == "BitXor":
                        res = x ^ y
                    elif base == "Shl":
                        res = x << y
                    elif base == "Shr":
                        res = (x >> y) if signed else z3.LShR(x, y)
                    if res is not None:
                        if "WithOverflow" in op or op.startswith("Checked"):
                            return Agg("tuple", [res, ovf if base in ("Add", "Sub", "Mul") else z3.BoolVal(False)])
                        return res
                elif z3.is_bool(x):
                    if base == "BitAnd":
                        return z3.And(x, y)
                    if base == "BitOr":
                        return z3.Or(x, y)
                    if base == "BitXor":
                        return z3.Xor(x, y)
            except z3.Z3Exception:
                pass
        label = f"{op}({describe(a)},{describe(b)})"
        if "WithOverflow" in op or op.startswith("Checked"):
            return Agg("tuple", [Opaque(label), Opaque(label + ".ovf")])
        return Opaque(label)

    def discriminant(self, v, ty):
        if isinstance(v, Agg):
            tag = v.tag
            # variants of enums declared outside the repository (std, peg_runtime), by declaration order
            known = {"Some": 1, "None": 0, "Ok": 0, "Err": 1, "Ready": 0, "Pending": 1,
                     "Matched": 0, "Failed": 1, "Continue": 0, "Break": 1}
            last = re.sub(r"<.*?>", "", tag).split("::")[-1]
            if last in known:
                return z3.BitVecVal(known[last], 64)
            vi = self.structs.variant_index(tag)
            if vi is not None:
                return z3.BitVecVal(vi, 64)
            return Opaque(f"disc:{tag}")
        if isinstance(v, Opaque):
            d = z3.BitVec(f"disc({v.label})", 64)
            n = self.structs.variant_count(ty)
            if n:
                self.domain[f"disc({v.label})"] = z3.ULT(d, z3.BitVecVal(n, 64))
            return d
        if isinstance(v, Phi):
            ds = [(c, self.discriminant(x, ty)) for c, x in v.alts]
            if all(is_term(d) for _, d in ds):
                acc = ds[-1][1]
                for c, d in reversed(ds[:-1]):
                    acc = z3.If(c, d, acc)
                return acc
            return z3.BitVec(f"disc({v.label})", 64)
        return Opaque(f"disc({describe(v)})")

    def eval_rvalue(self, env, rv, dest_ty, node):
        k = rv[0]
        if k == "use":
            return self.read_operand(env, rv[1])[0]
        if k == "ref":
            # reborrow of a deref keeps pointing at the original target
            pl = rv[2]
            if pl.projs and pl.projs[-1][0] == "deref":
                inner = Place(pl.local, pl.projs[:-1])
                v, _ = self.read_place(env, inner)
                if isinstance(v, (Ref, Opaque)):
                    return v
            return Ref(pl, rv[1])
        if k == "binop":
            a, ta = self.read_operand(env, rv[2])
            b, tb = self.read_operand(env, rv[3])
            return self.binop(rv[1], a, ta, b, tb, node)
        if k == "unop":
            a, ta = self.read_operand(env, rv[2])
            t = self.to_term(a, ta)
            if rv[1] == "Not" and t is not None:
                return z3.Not(t) if z3.is_bool(t) else ~t
            if rv[1] == "Neg" and t is not None and z3.is_bv(t):
                return -t
            return Opaque(f"{rv[1]}({describe(a)})")
        if k == "discriminant":
            v, ty = self.read_place(env, rv[1])
            return self.discriminant(v, ty)
        if k == "cast":
            a, ta = self.read_operand(env, rv[1])
            t = self.to_term(a, ta)
            to = rv[2].strip()
            if t is not None and z3.is_bv(t) and to in INT_BITS:
                w, nw = t.size(), INT_BITS[to]
                if nw == w:
                    return t
                if nw < w:
                    return z3.Extract(nw - 1, 0, t)
                return z3.SignExt(nw - w, t) if ta in SIGNED else z3.ZeroExt(nw - w, t)
            if t is not None and z3.is_bool(t) and to in INT_BITS:
                return z3.If(t, z3.BitVecVal(1, INT_BITS[to]), z3.BitVecVal(0, INT_BITS[to]))
            # pointer / unsize casts keep the value
            if rv[3].startswith(("PointerCoercion", "Transmute", "PtrToPtr")) or "Unsize" in rv[3]:
                return a
            return Opaque(f"cast({describe(a)} as {to})")
        if k == "aggregate":
            return Agg(rv[1], [self.read_operand(env, o)[0] for o in rv[2]])
        if k == "aggregate_named":
            return Agg(rv[1], [self.read_operand(env, o)[0] for (_, o) in rv[2]], [n for (n, _) in rv[2]])
        if k == "len":
            v, _ = self.read_place(env, rv[1])
            return Opaque(f"len({describe(v)})")
        self.opaque_statements += 1
        txt = rv[1] if len(rv) > 1 and isinstance(rv[1], str) else str(rv)
        return Opaque(f"rv@bb{node[0]}:{re.sub(r'[^A-Za-z0-9_:@#.]+', ' ', txt)[:60]}")

    # ---------------------------------------------------------------- merging
    def merge(self, incoming, node):
        """incoming: list of (cond, env)"""
        if len(incoming) == 1:
            return dict(incoming[0][1])
        keys = set()
        for _, e in incoming:
            keys.update(e.keys())
        out = {}
        for key in keys:
            vals = [(c, e[key]) for c, e in incoming if key in e]
            first = vals[0][1]
            if all(same(first, v) for _, v in vals[1:]):
                out[key] = first
                continue
            kty = self.fn.types.get(key, "") if isinstance(key, int) else ""
            if (kty in INT_BITS or kty == "bool") and all(isinstance(v, Opaque) or is_term(v) for _, v in vals):
                # scalar local: opaque call results become symbols, so the merge is an ite with the
                # same condition structure as every other scalar merged at this node
                lifted = [(c, self.to_term(v, kty)) for c, v in vals]
                if all(t is not None for _, t in lifted) and len({t.sort() for _, t in lifted}) == 1:
                    vals = lifted
            out[key] = self.merge_values(vals, f"phi@bb{node[0]}.{node[1]}:{key}")
        return out

    def merge_values(self, vals, label):
        first = vals[0][1]
        if all(is_term(v) for _, v in vals) and all(v.sort() == first.sort() for _, v in vals):
            acc = vals[-1][1]
            for c, v in reversed(vals[:-1]):
                acc = z3.If(c, v, acc)
            return acc
        if all(isinstance(v, Agg) for _, v in vals) and all(
                v.tag == first.tag and len(v.fields) == len(first.fields) for _, v in vals):
            fields = []
            for i in range(len(first.fields)):
                sub = [(c, v.fields[i]) for c, v in vals]
                if all(same(sub[0][1], x) for _, x in sub[1:]):
                    fields.append(sub[0][1])
                else:
                    fields.append(self.merge_values(sub, f"{label}.{i}"))
            return Agg(first.tag, fields)
        # mixed opaque / term of a scalar type: lift opaques to symbols when the others are terms
        terms = [v for _, v in vals if is_term(v)]
        if terms:
            sort = terms[0].sort()
            lifted = []
            ok = True
            for c, v in vals:
                if is_term(v) and v.sort() == sort:
                    lifted.append((c, v))
                elif isinstance(v, Opaque):
                    if sort == z3.BoolSort():
                        lifted.append((c, z3.Bool(v.label)))
                    elif z3.is_bv_sort(sort):
                        lifted.append((c, z3.BitVec(v.label, sort.size())))
                    else:
                        ok = False
                else:
                    ok = False
            if ok:
                acc = lifted[-1][1]
                for c, v in reversed(lifted[:-1]):
                    acc = z3.If(c, v, acc)
                return acc
        flat = []
        for c, v in vals:
            if isinstance(v, Phi):
                flat.extend((z3.And(c, c2), v2) for c2, v2 in v.alts)
            else:
                flat.append((c, v))
        # alternatives carrying the same value are one alternative (disjunction of their conditions)
        grouped = []
        for c, v in flat:
            for g in grouped:
                if same(g[1], v):
                    g[0] = z3.Or(g[0], c)
                    break
            else:
                grouped.append([c, v])
        flat = [(c, v) for c, v in grouped]
        return Phi(label, flat[:16]) if len(flat) <= 16 else Opaque(label)

    # ---------------------------------------------------------------- evaluation
    def _evaluate(self):
        fn = self.fn
        out_edges = {}  # node -> list of (succ node, cond, env)
        for node in self.order:
            bb, layer = node
            if node == (0, 0):
                env = {}
                for g in self.ghosts:
                    env["@" + g] = z3.BoolVal(False)
                for g in self.counters:
                    env["#" + g] = z3.BitVecVal(0, 32)
                reach = z3.BoolVal(True)
            else:
                inc = []
                for (pred, label) in self.preds.get(node, []):
                    for (succ, cond, penv) in out_edges.get(pred, []):
                        if succ == node:
                            inc.append((cond, penv))
                if not inc:
                    continue
                reach = z3.simplify(z3.Or([c for c, _ in inc])) if len(inc) > 1 else inc[0][0]
                env = self.merge(inc, node)
            self.node_reach[node] = reach
            block = fn.blocks[bb]
            for st in block.stmts:
                if st[0] == "assign":
                    dest, rv = st[1], st[2]
                    dty = fn.types.get(dest.local, "") if not dest.projs else ""
                    val = self.eval_rvalue(env, rv, dty, node)
                    if rv[0] == "cast" and len(rv) > 3 and rv[3].startswith("IntToInt") and rv[2].strip() in INT_BITS:
                        # a narrowing integer cast (`x as u32`): an event, so that obligations can ask which values reach it
                        a_, ta_ = self.read_operand(env, rv[1])
                        t_ = self.to_term(a_, ta_)
                        if t_ is not None and z3.is_bv(t_) and t_.size() > INT_BITS[rv[2].strip()]:
                            self.events.append(Event(node, bb, layer, "narrowing_cast", "narrowing_cast", f"narrowing_cast@bb{bb}.{layer}",
                                                     [a_], [ta_, rv[2].strip()], reach, dict(env), st[3], ""))
                    if self.watch and not dest.projs:
                        for nm in self.local_names(dest.local):
                            if nm in self.watch:
                                old, _ = self.read_place(env, dest)
                                self.events.append(Event(node, bb, layer, f"assign({nm})", f"assign({nm})",
                                                         f"assign({nm})@bb{bb}", [val, old], [dty, dty], reach,
                                                         dict(env), st[3], ""))
                    if dest.projs and dest.projs[0][0] == "deref" and len(dest.projs) <= 2 and \
                            isinstance(env.get(dest.local, self.init_value(dest.local)), Opaque):
                        # store through a pointer (`*next_off = ..`, `self.current_log_id = ..`): visible as an event
                        base = env.get(dest.local, self.init_value(dest.local))
                        for nm in self.local_names(dest.local)[:1]:
                            fld = ""
                            if len(dest.projs) == 2 and dest.projs[1][0] == "field":
                                fld = "." + str(self.structs.name(self.fn.types.get(dest.local, ""), dest.projs[1][1]))
                            elif len(dest.projs) == 2:
                                continue
                            self.events.append(Event(node, bb, layer, f"store(*{nm}{fld})", f"store(*{nm}{fld})",
                                                     f"store(*{nm}{fld})@bb{bb}", [val, base], ["", ""], reach,
                                                     dict(env), st[3], ""))
                    self.write_place(env, dest, val)
                elif st[0] == "setdiscr":
                    if st[1] is not None:
                        self.write_place(env, Place(st[1].local), Opaque(f"setdiscr@bb{bb}"))
                elif st[0] == "raw":
                    self.opaque_statements += 1
            t = block.term
            edges = []
            if t is None:
                out_edges[node] = []
                continue
            kind = t["kind"]
            succs = dict()
            for (label, nxt) in self._succs(node):
                succs.setdefault(label, nxt)
            if kind == "goto":
                for label, nxt in succs.items():
                    edges.append((nxt, reach, env))
                if not succs and any((bb, tgt) in self.back_edges for (_l, tgt) in t.get("targets", [])):
                    self.cut_conditions.append(reach)
            elif kind == "switch":
                dv, dty = self.read_operand(env, t["discr"])
                term = self.to_term(dv, dty)
                if term is None:
                    term = z3.BitVec(f"switch@bb{bb}.{layer}", 64)
                    dv = None
                conds = {}
                explicit = []
                for (label, tgt) in t["targets"]:
                    if label == "otherwise":
                        continue
                    num = int(re.match(r"^-?\d+", label).group(0))
                    if z3.is_bool(term):
                        c = term if num != 0 else z3.Not(term)
                    else:
                        c = term == z3.BitVecVal(num, term.size())
                    explicit.append(c)
                    conds[label] = c
                if explicit:
                    conds["otherwise"] = z3.Not(z3.Or(explicit)) if len(explicit) > 1 else z3.Not(explicit[0])
                else:
                    conds["otherwise"] = z3.BoolVal(True)
                # edges (several labels may lead to the same block)
                per_target = {}
                for (label, tgt) in t["targets"]:
                    nxt = None
                    for (l2, n2) in self._succs(node):
                        if l2 == label and n2[0] == tgt:
                            nxt = n2
                            break
                    if nxt is None:
                        if (bb, tgt) in self.back_edges:
                            self.cut_conditions.append(z3.And(reach, conds[label]))   # unrolling bound reached here
                        continue
                    per_target.setdefault(nxt, []).append(conds[label])
                for nxt, cs in per_target.items():
                    c = z3.Or(cs) if len(cs) > 1 else cs[0]
                    edges.append((nxt, z3.simplify(z3.And(reach, c)), env))
            elif kind == "call":
                func = t["func"]
                site = self.site_of_bb.get(bb, f"call@bb{bb}")
                if layer:
                    site = f"{site}@L{layer}"
                args, tys = [], []
                for a in t["args"]:
                    v, ty = self.read_operand(env, a)
                    args.append(v)
                    tys.append(ty)
                ev = Event(node, bb, layer, func, short_callee(func), site, args, tys, reach, dict(env),
                           block.term_span, site)
                self.events.append(ev)
                env = dict(env)
                # havoc pointees of &mut arguments
                for i, v in enumerate(args):
                    if IDENTITY_CALLS.search(func):
                        break
                    if isinstance(v, Ref) and v.mutable:
                        self.write_place(env, v.place, Opaque(f"{site}.mut{i}"))
                # result
                if IDENTITY_CALLS.search(func) and args:
                    res = args[0]
                    if isinstance(res, Ref):
                        inner, _ = self.read_place(env, res.place)
                        if isinstance(inner, (Opaque, Ref)) or is_term(inner):
                            res = inner if func.rstrip().endswith(("deref", "deref_mut", "clone", "as_ref", "borrow")) else res
                    # keep a distinct identity for clones of plain data? labels suffice here
                elif re.search(r"FromResidual<.*>>::from_residual$", func) and args:
                    rt = re.sub(r"^std::(result|option)::", "", self.fn.types.get(0, ""))
                    if rt.startswith("Result<"):
                        res = Agg("Result::Err", [args[0]])
                    elif rt.startswith("Option<"):
                        res = Agg("Option::None", [])
                    else:
                        res = Opaque(site)
                elif re.search(r"as (?:std::ops::)?Try>::branch$", func) and args:
                    res = Opaque(f"try({describe(args[0])})")
                    # Continue (0) iff Ok / Some: link the ControlFlow discriminant to the operand's
                    a0 = args[0]
                    if isinstance(a0, Ref):
                        a0, _ = self.read_place(ev.env, a0.place)
                    da = self.discriminant(a0, "Option<()>") if isinstance(a0, (Opaque, Agg, Phi)) else None
                    if da is not None and is_term(da):
                        dr = z3.BitVec(f"disc({res.label})", 64)
                        is_option = re.search(r"<(?:std::option::)?Option<", func) is not None
                        self.domain[f"link({res.label})@{site}"] = (dr == z3.BitVecVal(1, 64) - da) if is_option else (dr == da)
                elif INT_INTRINSIC.search(func) and len(args) in (1, 2) and self.int_intrinsic(func, args) is not None:
                    res = self.int_intrinsic(func, args)
                elif TRY_FROM_INT.search(func) and len(args) == 1 and self.try_from_int(func, args[0], site) is not None:
                    res = self.try_from_int(func, args[0], site)
                elif re.search(r"Result::<.*>::ok$", func) and len(args) == 1 and self.result_ok(args[0]) is not None:
                    res = self.result_ok(args[0])
                elif re.search(r"Future>::poll$", func) and args:
                    m = re.search(r"\{async fn body of ([^}]*?)\(\)\}", func)
                    if m:
                        base = m.group(1)
                    else:
                        fut = args[0]
                        if isinstance(fut, Ref):
                            fut, _ = self.read_place(ev.env, fut.place)
                        base = describe(fut)
                    n = self.await_counter.get(base, 0)
                    self.await_counter[base] = n + 1
                    res = Opaque(f"poll({base}#{n})" + (f"@L{layer}" if layer else ""))
                else:
                    res = Opaque(site)
                    # adaptors that keep or flip the success / failure of their argument: link the discriminants
                    rel = None
                    if args:
                        if re.search(r"Result::<.*>::(map_err|map|inspect|inspect_err)(::<.*>)?$|Option::<.*>::(map|inspect)(::<.*>)?$", func):
                            rel = "same"
                        elif re.search(r"Option::<.*>::(ok_or_else|ok_or)(::<.*>)?$|Result::<.*>::(ok|err)$", func):
                            rel = "flip" if not func.rstrip().endswith("::err") else "same"
                    if rel is not None:
                        a0 = args[0]
                        if isinstance(a0, Ref):
                            a0, _ = self.read_place(ev.env, a0.place)
                        da = self.discriminant(a0, "Option<()>") if isinstance(a0, (Opaque, Agg, Phi)) else None
                        if da is not None and is_term(da):
                            dr = z3.BitVec(f"disc({site})", 64)
                            one = z3.BitVecVal(1, 64)
                            self.domain[f"link({site})"] = (dr == da) if rel == "same" else (dr == one - da)
                self.write_place(env, t["dest"], res)
                for g, rx in self.ghosts.items():
                    if rx(ev, self):
                        env["@" + g] = z3.BoolVal(True)
                for g, fcount in self.counters.items():
                    c = fcount(ev, self)
                    if c is not None:
                        ev.counts_before = dict(getattr(ev, "counts_before", {}), **{g: env["#" + g]})
                        env["#" + g] = z3.If(c, env["#" + g] + 1, env["#" + g]) if not z3.is_true(c) else env["#" + g] + 1
                for label, nxt in succs.items():
                    edges.append((nxt, reach, env))
            elif kind == "drop":
                pl = t.get("place")
                if pl is not None and not pl.projs:
                    names = [n for n, places in fn.debug.items() if f"_{pl.local}" in places]
                    if names:
                        ev = Event(node, bb, layer, f"drop({names[0]})", f"drop({names[0]})",
                                   f"drop({names[0]})@bb{bb}", [], [], reach, dict(env), block.term_span, "")
                        self.events.append(ev)
                        env = dict(env)
                        for g, rx in self.ghosts.items():
                            if rx(ev, self):
                                env["@" + g] = z3.BoolVal(True)
                for label, nxt in succs.items():
                    edges.append((nxt, reach, env))
            elif kind == "assert":
                cv, cty = self.read_operand(env, t["cond"])
                term = self.to_term(cv, "bool")
                c = reach
                if term is not None and z3.is_bool(term):
                    ok = term if t["expected"] else z3.Not(term)
                    c = z3.simplify(z3.And(reach, ok))
                ev = Event(node, bb, layer, "assert", "assert", f"assert@bb{bb}", [cv], [cty], reach,
                           dict(env), block.term_span, "assert")
                ev.assert_ok = (term if t["expected"] else z3.Not(term)) if (term is not None and z3.is_bool(term)) else None
                ev.msg = t.get("msg", "")
                self.events.append(ev)
                for label, nxt in succs.items():
                    edges.append((nxt, c, env))
            elif kind == "return":
                self.returns.append((node, reach, dict(env)))
            elif kind == "yield":
                pass
            else:
                pass
            out_edges[node] = edges
            self.node_env_out[node] = env

    # ---------------------------------------------------------------- helpers for obligations
    def var(self, env, name, occurrence=0):
        """value of the source variable `name` (from the `debug name => place` lines)"""
        places = self.fn.debug.get(name)
        if not places:
            return None, None
        txt = places[min(occurrence, len(places) - 1)]
        if txt.startswith("const "):
            return self.const_value(txt[6:]), ""
        pl = mir.parse_place(txt)
        if pl is None:
            return None, None
        return self.read_place(env, pl)

    def var_term(self, env, name, occurrence=0):
        v, ty = self.var(env, name, occurrence)
        if v is None:
            return None
        return self.to_term(v, ty)

    def local_names(self, local):
        return [n for n, places in self.fn.debug.items() if f"_{local}" in places]

    def trace(self, value, env, depth=8):
        """labels and source-variable names a value derives from (call result <- its arguments,
        references <- their targets)"""
        seen, out = set(), set()
        by_site = {e.site: e for e in self.events if e.site}
        work = [(value, env, 0)]
        while work:
            v, en, d = work.pop()
            if d > depth:
                continue
            if isinstance(v, Ref):
                out.update("var:" + n for n in self.local_names(v.place.local))
                key = ("ref", repr(v.place), id(en))
                if key in seen:
                    continue
                seen.add(key)
                inner, _ = self.read_place(en, v.place)
                work.append((inner, en, d + 1))
            elif isinstance(v, (Opaque, Phi)):
                lab = v.label
                out.add(lab)
                if lab in seen:
                    continue
                seen.add(lab)
                if isinstance(v, Phi):
                    for _, x in v.alts:
                        work.append((x, en, d + 1))
                # `?` results and awaited results are named after their operand
                m = re.match(r"^(?:try|poll)\((.*)\)(?:@L\d+)?(?:[:.][A-Za-z0-9_.:]+)?$", lab)
                if m:
                    work.append((Opaque(m.group(1)), en, d + 1))
                base = re.split(r"[:.](?=[A-Za-z0-9_]+)", lab)[0] if lab not in by_site else lab
                for cand in (lab, re.sub(r"(:[A-Za-z]+|\.[A-Za-z0-9_]+)+$", "", lab), re.sub(r"\.mut\d+$", "", lab)):
                    e = by_site.get(cand)
                    if e is not None:
                        for a in e.args:
                            work.append((a, e.env, d + 1))
                        break
            elif isinstance(v, Agg):
                for x in v.fields:
                    work.append((x, en, d + 1))
        return out

    def disc_term(self, v):
        d = self.discriminant(v, "")
        return d if is_term(d) else None

    def path_of_model(self, model):
        out = []
        for node in self.order:
            r = self.node_reach.get(node)
            if r is None:
                continue
            if z3.is_true(model.eval(r, model_completion=True)):
                b = self.fn.blocks[node[0]]
                span = b.term_span
                t = b.term
                desc = t["kind"]
                if t["kind"] == "call":
                    desc = "call " + short_callee(t["func"])
                if span is None or not span[0].startswith("src/"):
                    continue  # blocks expanded from macros of other crates (logging)
                out.append({"bb": node[0], "layer": node[1], "term": desc,
                            "span": f"{span[0]}:{span[1]}"})
        return out
