"""C13 - no data command runs without authentication and the required permission."""
import re

import z3

from .. import oblig, sym
from ..oblig import Result
from .flushspec import Builder, ghost

FILTERS = []

HANDLERS = [
    # (id, body needle, label, permission call, effect regex, auth manager is Option?)
    ("B-2s", "handlers-store-handle-{closure#0}.", "store::handle", r"AuthManager::can_write$",
     r"ShardManager::get_shard$|Sender::<.*ShardMessage.*>::send$", True),
    ("B-2q", "handlers-query-handler-{impl#0}-handle-{closure#0}.", "QueryCommandHandler::handle",
     r"AuthManager::can_read$", r"QueryExecutionPipeline::new$|QueryExecutionPipeline::<.*>::new$", True),
    ("B-2d", "handlers-define-handle-{closure#0}.", "define::handle", r"AuthManager::is_admin$",
     r"define_schema$|RwLock::<.*SchemaRegistry>::write$", True),
    ("B-2p", "handlers-permissions-handle-{closure#0}.", "permissions::handle", r"AuthManager::is_admin$",
     r"AuthManager::(grant_permission|revoke_permission|get_permissions)$", False),
    ("B-2a", "handlers-auth-handle-{closure#0}.", "auth::handle", r"AuthManager::is_admin$",
     r"AuthManager::(create_user|create_user_with_roles|revoke_key|list_users)$", False),
]


def strip_some(label):
    return re.sub(r":Some\.0$", "", label)


def gate(ctx, oid, needle, label, perm_rx, effect_rx, auth_is_option):
    b = Builder(ctx, needle, label, {})
    E, q = b.E, ctx.q
    r = b.mk(oid, f"{label}: the data / management effect is reachable only when authentication is off "
                  f"(no auth manager) or an authenticated user id is present and either is the reserved bypass id "
                  f"or the permission call returned true")
    if not r:
        return list(b.results.values())
    chk = oblig.events(E, perm_rx)
    eff = oblig.events(E, effect_rx)
    if not oblig.need_anchor(r, chk, f"permission call {perm_rx}") or not oblig.need_anchor(r, eff, f"effect {effect_rx}"):
        return list(b.results.values())
    c = chk[0]
    uid_arg = c.args[1] if len(c.args) > 1 else None
    mgr_arg = c.args[0] if c.args else None
    uid_label = strip_some(sym.describe(uid_arg)) if uid_arg is not None else ""
    mgr_label = strip_some(sym.describe(mgr_arg)) if mgr_arg is not None else ""
    # the awaited result of the permission call
    res_label = None
    for e2 in E.events:
        if re.search(r"Future>::poll$", e2.func) and re.search(perm_rx.rstrip("$"), e2.func):
            res_label = sym.describe(E.node_env_out[e2.node].get(E.fn.blocks[e2.bb].term["dest"].local))
    ne = [e for e in E.events if re.search(r"PartialEq<.*>>::ne$|PartialEq>::ne$", e.func)
          and any("var:uid" in t or "var:admin_id" in t or "var:authenticated_user_id" in t
                  for t in E.trace(e.args[0], e.env, depth=3))]
    if res_label is None or not ne:
        r.status = "inconclusive"
        r.notes.append("permission result or bypass comparison not found in the MIR")
        return list(b.results.values())
    can = z3.Bool(res_label + ":Ready.0")
    ne_sym = E.sym(ne[0].site, "bool")
    uid_disc = z3.BitVec(f"disc({uid_label})", 64)
    r.notes.append(f"guard symbols: uid={uid_label} mgr={mgr_label} result={res_label}:Ready.0 bypass-test={ne[0].site}")

    def phi(ev):
        allowed = z3.And(uid_disc == 1, z3.Or(z3.Not(ne_sym), can))
        if auth_is_option:
            mgr_disc = z3.BitVec(f"disc({mgr_label})", 64)
            return z3.Or(mgr_disc == 0, allowed)
        return allowed
    oblig.guarded(r, E, q, eff, phi, "effect reachable without authentication / permission")
    # the permission is asked for the command's own event type / the authenticated user
    if r.status == "holds" and len(c.args) > 2:
        et = sym.describe(c.args[2])
        if not re.search(r"event_type|cap:cmd:(Store|Query)\.0|cap:self\.command", et) and "event_type" not in " ".join(
                E.trace(c.args[2], c.env, depth=4)):
            r.notes.append(f"permission queried for: {et}")
    return list(b.results.values())


def summaries(ctx):
    out = []
    for oid, meth in (("B-1r", "can_read"), ("B-1w", "can_write")):
        b = Builder(ctx, f"auth-types-{{impl#2}}-{meth}.", f"PermissionCache::{meth}", {})
        E, q = b.E, ctx.q
        r = b.mk(oid, f"PermissionCache::{meth} (loop-free): returns true only for an admin, an explicit grant, or - "
                      f"when no entry overrides it - a role that includes the access; an entry with neither read "
                      f"nor write (REVOKE) denies regardless of role unless admin")
        out.append(r if r else list(b.results.values())[0])
        if not r:
            continue
        sets = {}
        for e in oblig.events(E, r"HashSet::<.*>::contains"):
            lab = sym.describe(e.args[0]) if e.args else ""
            fld = None
            if isinstance(e.args[0], sym.Ref):
                v, _ = E.read_place(e.env, e.args[0].place)
                lab = sym.describe(v)
            m = re.search(r"\.(admin_users|read_only_users|editor_users|write_only_users)$", lab)
            if m:
                sets[m.group(1)] = E.sym(e.site, "bool")
        gets = oblig.events(E, r"HashMap::<.*>::get")
        if len(gets) < 2 or "admin_users" not in sets:
            r.status = "inconclusive"
            r.notes.append(f"lookups not recognised (sets={sorted(sets)}, gets={len(gets)})")
            continue
        g1 = z3.BitVec(f"disc({gets[0].site})", 64) == 1
        g2 = z3.BitVec(f"disc({gets[1].site})", 64) == 1
        entry = z3.And(g1, g2)
        perm = f"{gets[1].site}:Some.0"
        rd, wr = z3.Bool(perm + ".read"), z3.Bool(perm + ".write")
        admin = sets["admin_users"]
        ro = sets.get("read_only_users", z3.BoolVal(False))
        ed = sets.get("editor_users", z3.BoolVal(False))
        wo = sets.get("write_only_users", z3.BoolVal(False))
        r.nontrivial = True
        for (node, reach, env) in E.returns:
            ret = E.to_term(env.get(0), "bool")
            if ret is None:
                r.status = "inconclusive"
                r.notes.append("return value not resolved")
                break
            if meth == "can_read":
                allowed = z3.Or(admin, z3.And(entry, rd), z3.And(z3.Not(z3.And(entry, z3.Not(rd), z3.Not(wr))), z3.Or(ro, ed)))
                revoked = z3.And(z3.Not(admin), entry, z3.Not(rd), z3.Not(wr))
            else:
                allowed = z3.Or(admin, z3.And(entry, wr), z3.And(z3.Not(entry), z3.Or(ed, wo)))
                revoked = z3.And(z3.Not(admin), entry, z3.Not(wr))
            res, model = q.check(reach, ret, z3.Not(allowed), domain=E.domain)
            r.queries += 1
            if res == z3.sat:
                r.status = "violated"
                r.witness = {"what": f"{meth} returns true without admin / grant / applicable role", "span": None,
                             "call": meth, "path": E.path_of_model(model), "model": oblig.model_summary(E, model)}
                break
            res, model = q.check(reach, ret, revoked, domain=E.domain)
            r.queries += 1
            if res == z3.sat:
                r.status = "violated"
                r.witness = {"what": f"{meth} returns true although the entry was revoked", "span": None,
                             "call": meth, "path": E.path_of_model(model), "model": oblig.model_summary(E, model)}
                break
            # completeness direction (grants are honoured)
            res, model = q.check(reach, z3.Not(ret), z3.Or(admin, z3.And(entry, rd if meth == "can_read" else wr)), domain=E.domain)
            r.queries += 1
            if res == z3.sat:
                r.status = "violated"
                r.witness = {"what": f"{meth} returns false for an admin / explicit grant", "span": None,
                             "call": meth, "path": E.path_of_model(model), "model": oblig.model_summary(E, model)}
                break
    return out


DATA_ARMS = [
    # (obligation id suffix, callee regex in dispatch_command, what it reaches)
    ("replay", r"handlers::replay::handle", "REPLAY"),
    ("show", r"handlers::show::handle|show::handler::handle|show::handle", "SHOW"),
    ("remember", r"handlers::remember::handle", "REMEMBER QUERY"),
    ("compare", r"ComparisonCommandHandler::<.*>::new|ComparisonCommandHandler::new", "comparison queries"),
    ("store", r"handlers::store::handle", "STORE"),
    ("define", r"handlers::define::handle", "DEFINE"),
    ("query", r"QueryCommandHandler::<.*>::new|QueryCommandHandler::new", "QUERY"),
]


def dispatcher(ctx):
    b = Builder(ctx, "command-dispatcher-dispatch_command-{closure#0}.", "dispatch_command", {})
    E = b.E
    out = []
    for suffix, rx, what in DATA_ARMS:
        r = b.mk(f"B-3{suffix}", f"dispatch_command hands the authenticated identity (auth manager and user id) to the "
                               f"{what} handler, so the handler can check the permission")
        out.append(b.results[f"B-3{suffix}"])
        if not r:
            continue
        evs = oblig.events(E, rx)
        if not oblig.need_anchor(r, evs, f"{what} arm of dispatch_command"):
            continue
        ev = evs[0]
        r.anchors.append(f"{ev.short}@bb{ev.bb}")
        r.nontrivial = True
        labels = set()
        for a in ev.args:
            labels |= E.trace(a, ev.env, depth=3)
        has_uid = any(re.search(r"cap:user_id", x) for x in labels)
        has_mgr = any(re.search(r"cap:auth_manager", x) for x in labels)
        if not (has_uid and has_mgr):
            r.status = "violated"
            r.witness = {"what": f"{what} is dispatched without the user identity: handler `{ev.short}` receives no "
                                 f"auth manager / user id, so no per-type permission check is possible",
                         "span": f"{ev.span[0]}:{ev.span[1]}" if ev.span else None, "call": ev.func[:160],
                         "path": [], "model": {}, "arm": suffix}
    return out


def permission_updates(ctx):
    """GRANT / REVOKE <perm> rebuild the user record: everything except the permission map must be
    carried over from the stored record - in particular `active` (a revoked key stays revoked)"""
    out = []
    for oid, fn_name in (("B-4g", "grant_permission"), ("B-4r", "revoke_permission")):
        b = Builder(ctx, f"auth-permission_ops-{fn_name}-{{closure#0}}.", f"permission_ops::{fn_name}", {})
        E = b.E
        r = b.mk(oid, f"{fn_name}: the user record that is persisted (store_user_in_db) and cached (update_caches) keeps "
                      f"the stored record's `active` flag and secret key - changing permissions never re-activates a "
                      f"revoked user")
        out.append(b.results[oid])
        if not r:
            continue
        sinks = oblig.events(E, r"store_user_in_db$") + oblig.events(E, r"update_caches$")
        if not oblig.need_anchor(r, sinks, "store_user_in_db / update_caches"):
            continue
        r.nontrivial = True
        for ev in sinks:
            r.anchors.append(f"{ev.short}@bb{ev.bb}")
            rec = None
            for a in ev.args:
                v = a
                if isinstance(v, sym.Ref):
                    v, _ = E.read_place(ev.env, v.place)
                if isinstance(v, sym.Agg) and v.names and "active" in v.names:
                    rec = v
            if rec is None:
                r.status = "inconclusive"
                r.notes.append(f"user record passed to {ev.short} not resolved to a struct literal")
                break
            act = rec.field("active")
            uk, _ = E.var(ev.env, "user_key")
            src = E.trace(act, ev.env, depth=3) if not sym.is_term(act) else set()
            ok = (not sym.is_term(act) or not (z3.is_true(act) or z3.is_false(act))) and uk is not None and \
                any(x.startswith(sym.describe(uk)) and re.search(r"\.(active|2)$", x) for x in ({sym.describe(act)} | src))
            sk = rec.field("secret_key")
            sk_ok = sk is None or any(sym.describe(uk) in x for x in E.trace(sk, ev.env, depth=4) | {sym.describe(sk)})
            if not ok or not sk_ok:
                r.status = "violated"
                r.witness = {"what": f"the record handed to {ev.short} does not carry over the stored `active` flag / key "
                                     f"(active = {sym.describe(act)})",
                             "span": f"{ev.span[0]}:{ev.span[1]}" if ev.span else None, "call": ev.func[:100],
                             "path": [], "model": {}}
                break
    return out


def key_revocation(ctx):
    """REVOKE KEY: the record that is persisted and the one that is cached are both inactive"""
    b = Builder(ctx, "auth-user_ops-revoke_key-{closure#0}.", "user_ops::revoke_key", {})
    E = b.E
    r = b.mk("B-4k", "revoke_key: the user record written to the auth store (store_user_in_db) and the one put into the user cache "
                     "both have `active` = false, and the store write happens (with `?`) before the cache is updated - a revoked "
                     "key stays revoked after the users are reloaded from the store")
    out = [b.results["B-4k"]]
    if not r:
        return out
    st = oblig.events(E, r"store_user_in_db$")
    ca = oblig.events(E, r"UserCache::insert$")
    if not oblig.need_anchor(r, st, "store_user_in_db") or not oblig.need_anchor(r, ca, "UserCache::insert"):
        return out
    r.nontrivial = True
    for ev in st + ca:
        r.anchors.append(f"{ev.short}@bb{ev.bb}")
        rec = None
        for a in ev.args:
            v = a
            if isinstance(v, sym.Ref):
                v, _ = E.read_place(ev.env, v.place)
            if isinstance(v, sym.Agg) and v.names and "active" in v.names:
                rec = v
        if rec is None:
            r.status = "inconclusive"
            r.notes.append(f"user record passed to {ev.short} not resolved to a struct value")
            return out
        act = rec.field("active")
        if not (sym.is_term(act) and z3.is_false(z3.simplify(act))):
            r.status = "violated"
            r.witness = {"what": f"the record handed to {ev.short} is not inactive (active = {sym.describe(act)}): "
                                 + ("the revocation is lost when users are reloaded from the store" if ev in st else "the cached key stays usable"),
                         "span": f"{ev.span[0]}:{ev.span[1]}" if ev.span else None, "call": ev.func[:100], "path": [], "model": {}}
            return out
    # the cache is updated only after the store write succeeded
    tries = [z3.BitVec(f"disc(try({sym.describe(e.args[0])}))", 64) == 0 for e in E.events
             if re.search(r"Try>::branch$", e.func) and e.args and "store_user_in_db" in sym.describe(e.args[0])]
    for ev in ca:
        res, model = ctx.q.check(ev.reach, z3.Not(z3.Or(tries)) if tries else z3.BoolVal(True), domain=E.domain)
        r.queries += 1
        if res == z3.sat:
            oblig.violated(r, E, ctx.q, ev, model, "the user cache is updated although the store write failed / was not awaited with `?`")
            return out
    return out


def revoke_loop(ctx):
    """REVOKE ... ON t1, t2 FROM u stores a record for every named event type"""
    b = Builder(ctx, "handlers-permissions-handle-{closure#0}.", "permissions::handle (REVOKE arm)", {})
    E, q = b.E, ctx.q
    r = b.mk("B-5", "permissions::handle, REVOKE: for every event type named in the command the reduced permission set is stored "
                    "(AuthManager::grant_permission with that event type) before the loop moves on or the OK answer is written - "
                    "also when the set is all-false, which is the explicit denial that overrides a role")
    out = [b.results["B-5"]]
    if not r:
        return out
    grants = [e for e in oblig.events(E, r"AuthManager::grant_permission$") if e.args and "RevokePermission" in " ".join(sym.describe(a) for a in e.args[:2])]
    if not oblig.need_anchor(r, grants, "grant_permission in the REVOKE arm"):
        return out
    r.nontrivial = True
    # the loop's own iterator: the `next` whose item is the event type handed to grant_permission
    by_layer = {}
    for g in grants:
        m = re.match(r"(Iterator::next#\d+)", sym.describe(g.args[2])) if len(g.args) > 2 else None
        if not m:
            r.status = "inconclusive"
            r.notes.append("the event type stored is not the loop's current item")
            return out
        by_layer[g.layer] = (g, m.group(1))
    nexts = {}
    for e in E.events:
        if re.search(r"Iterator>::next$", e.func):
            base = re.sub(r"@L\d+$", "", e.site)
            if any(base == it for (_g, it) in by_layer.values()):
                nexts[e.layer] = e
    oks = [e for e in oblig.events(E, r"Response::ok_lines$") if e.span and any(abs(e.span[1] - g.span[1]) < 60 and e.span[1] > g.span[1] for g in grants if g.span)]
    for L, (g, _it) in sorted(by_layer.items()):
        n = nexts.get(L)
        if n is None:
            continue
        took = z3.And(n.reach, z3.BitVec(f"disc({n.site})", 64) == 1)
        goals = []
        if L + 1 in nexts:
            goals.append(("moves on to the next event type", nexts[L + 1].reach))
        for o in oks:
            goals.append(("answers OK", o.reach))
        for what, goal in goals:
            res, model = q.check(took, goal, z3.Not(g.reach), domain=E.domain)
            r.queries += 1
            if res == z3.sat:
                oblig.violated(r, E, q, n, model, f"REVOKE {what} without having stored the reduced permissions of an event type "
                                                   "(e.g. when nothing changes numerically: the explicit denial that overrides a role is never recorded)")
                return out
        # what is stored: read = existing.read && !revoke_read (same for write) - at least: a PermissionSet built here
        ps = g.args[3] if len(g.args) > 3 else None
        if not isinstance(ps, sym.Agg) or not ps.names or set(ps.names) != {"read", "write"}:
            r.status = "inconclusive"
            r.notes.append("the stored permission set is not a visible struct literal")
            return out
    return out


def grant_loop(ctx):
    """GRANT p ON t1, t2 TO u: what is stored for t2 is (what u already holds on t2) or p - nothing u holds on t1"""
    b = Builder(ctx, "handlers-permissions-handle-{closure#0}.", "permissions::handle (GRANT / REVOKE arms)", {})
    E, q = b.E, ctx.q
    r = b.mk("B-6", "permissions::handle, GRANT / REVOKE over several event types: the permission set stored for one event type "
                    "does not depend on the permissions the user holds on the other event types of the same command (each is "
                    "merged with its own existing set only) - otherwise a right held on one type leaks to the next")
    out = [b.results["B-6"]]
    if not r:
        return out
    grants = [e for e in oblig.events(E, r"AuthManager::grant_permission$") if e.layer >= 1 and len(e.args) > 3]
    if not oblig.need_anchor(r, grants, "AuthManager::grant_permission in a second loop iteration"):
        return out
    r.nontrivial = True
    r.bounds = f"loops unrolled {ctx.k}x (event types 2..{ctx.k + 1} of one command); semantic dependence decided by renaming the other iterations' existing-permission symbols"
    for ev in grants:
        a = ev.args[3]
        if isinstance(a, sym.Ref):           # `set.clone()`: the stored value is the referenced local at this point
            a, _ty = E.read_place(ev.env, a.place)
        fields = getattr(a, "fields", None)
        if fields:
            fields = [E.to_term(f, "bool") if not sym.is_term(f) else f for f in fields]
        if not fields or not all(f is not None and sym.is_term(f) for f in fields):
            r.status = "inconclusive"
            r.notes.append("the stored PermissionSet is not resolved to terms")
            return out
        mine = "@L%d" % ev.layer
        for name, t in zip(getattr(a, "names", None) or ["read", "write"], fields):
            other = sorted(s_ for s_ in oblig.free_symbols(t) | oblig.free_symbols(ev.reach)
                           if re.search(r"unwrap_or_else#\d+(@L\d+)?\.(read|write)$", s_)
                           and not re.search(re.escape(mine) + r"\.(read|write)$", s_))
            if not other:
                continue
            subs = [(z3.Bool(o), z3.Bool(o + "'")) for o in other]
            t2, reach2 = z3.substitute(t, *subs), z3.substitute(ev.reach, *subs)
            res, model = q.check(ev.reach, reach2, t != t2, domain=E.domain)
            r.queries += 1
            if res == z3.sat:
                dep = [o for o in other if z3.is_true(model.eval(z3.Bool(o), model_completion=True)) != z3.is_true(model.eval(z3.Bool(o + "'"), model_completion=True))]
                r.status = "violated"
                r.witness = {"what": f"the `{name}` right stored for event type #{ev.layer + 1} of the command changes with what the user holds on "
                                     f"another event type of the same command ({', '.join(dep) or ', '.join(other)}): a right leaks from one type to the next",
                             "span": f"{ev.span[0]}:{ev.span[1]}" if ev.span else None, "call": "AuthManager::grant_permission",
                             "path": E.path_of_model(model)[-10:], "model": {"differs_in": dep}}
                return out
            if res != z3.unsat:
                r.status = "inconclusive"
                r.notes.append("solver returned unknown")
                return out
    return out


def obligations(ctx):
    out = []
    out += summaries(ctx)
    out += permission_updates(ctx)
    out += key_revocation(ctx)
    out += revoke_loop(ctx)
    out += grant_loop(ctx)
    for (oid, needle, label, perm, eff, opt) in HANDLERS:
        out += gate(ctx, oid, needle, label, perm, eff, opt)
    out += dispatcher(ctx)
    return out
