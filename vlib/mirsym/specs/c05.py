"""C05 - compaction changes layout, never content: the hand-over's ordering facts."""
from . import allocspec, handovercrash, handoverspec, indexkeyspec
from ._util import pick

FILTERS = []


def obligations(ctx):
    ho = handoverspec.commit_batch(ctx)
    out = pick(ho, [("B-1", "exists-before-index"), ("B-2", "index-before-livelist"),
                     ("B-2b", "index-under-flush-lock"), ("B-2c", "retire-before-insert"), ("B-2d", "ok-means-live"),
                     ("B-3", "drained-only")])
    out += pick(indexkeyspec.key_agreement(ctx), [("B-4", "retire-key")])
    out += pick(allocspec.plan_output_ids(ctx), [("B-5", "fresh-output-id")])
    out += pick(handovercrash.crash_consistency(ctx), [("B-6", "handover-crash")])
    out += cursor_inputs(ctx)
    out += merge_keeps_rows(ctx)
    return out


def merge_keeps_rows(ctx):
    """the k-way merge moves rows from the input cursors to the output zones: a row taken from a cursor is never dropped"""
    import re
    import z3
    from .. import oblig, sym
    from .flushspec import Builder
    b = Builder(ctx, "zone-zone_merger-{impl#0}-next_zone.", "ZoneMerger::next_zone", {})
    E, q = b.E, ctx.q
    r = b.mk("B-8", "ZoneMerger::next_zone: every row a cursor hands out (ZoneCursor::next_row = Some(row)) is pushed onto the "
                    "output batch before the function returns or takes the next row - compaction writes each input row exactly "
                    "once, whatever its context / event id looks like (no de-duplication, no filter)")
    out = [b.results["B-8"]]
    if not r:
        return out
    rows = oblig.events(E, r"ZoneCursor(::<.*>)?::next_row$")
    pushes = [e for e in oblig.events(E, r"Vec::<.*>::push$|Vec::push$") if len(e.args) > 1]
    if not oblig.need_anchor(r, rows, "ZoneCursor::next_row") or not oblig.need_anchor(r, pushes, "batch.push"):
        return out
    r.nontrivial = True
    r.bounds = f"merge loop unrolled {ctx.k}x (rows 1..{ctx.k + 1} of a call); heap and cursors opaque"
    for e in rows:
        mine = [p for p in pushes if re.search(re.escape(e.dest_label) + r":Some\.0$", sym.describe(p.args[1]))]
        pushed = z3.Or([p.reach for p in mine]) if mine else z3.BoolVal(False)
        d = z3.BitVec(f"disc({e.site})", 64)
        for (_n, reach, _env) in E.returns:
            res, model = q.check(reach, e.reach, d == 1, z3.Not(pushed), domain=E.domain)
            r.queries += 1
            if res == z3.sat:
                r.status = "violated"
                r.witness = {"what": f"a row taken from an input cursor (iteration {e.layer + 1}) is not written to the output zone on some path: "
                                     "the hand-over retires the inputs, so the event is gone after compaction",
                             "span": f"{e.span[0]}:{e.span[1]}" if e.span else None, "call": "ZoneCursor::next_row",
                             "path": E.path_of_model(model)[-10:], "model": oblig.model_summary(E, model)}
                return out
            if res != z3.unsat:
                r.status = "inconclusive"
                r.notes.append("solver returned unknown")
                return out
    return out


def cursor_inputs(ctx):
    """the merge reads every input segment or fails: it never goes on with fewer inputs"""
    import re
    import z3
    from .. import oblig, sym
    from .flushspec import Builder
    b = Builder(ctx, "zone-zone_cursor_loader-{impl#0}-load_all-{closure#0}.", "ZoneCursorLoader::load_all", {})
    E, q = b.E, ctx.q
    r = b.mk("B-7", "ZoneCursorLoader::load_all: if the zone metadata of an input segment cannot be loaded the whole load fails (Err) - it "
                    "never moves on to the next segment or returns Ok without that segment's zones, because the hand-over afterwards "
                    "retires the event type from every input label, read or not")
    out = [b.results["B-7"]]
    if not r:
        return out
    zl = oblig.events(E, r"ZoneMeta::load$")
    if not oblig.need_anchor(r, zl, "ZoneMeta::load"):
        return out
    r.nontrivial = True
    rets = [(reach, E.disc_term(env.get(0))) for (_n, reach, env) in E.returns]
    for z_ in zl:
        d = z3.BitVec(f"disc({z_.site})", 64)
        nxt = [e for e in zl if e.layer == z_.layer + 1]
        goals = [("moves on to the next input segment", n_.reach) for n_ in nxt]
        goals += [("returns Ok", z3.And(reach, dd == 0)) for reach, dd in rets if dd is not None]
        for what, g in goals:
            res, model = q.check(z_.reach, d == 1, g, domain=E.domain)
            r.queries += 1
            if res == z3.sat:
                oblig.violated(r, E, q, z_, model, f"load_all {what} although ZoneMeta::load failed for an input segment: the merge output lacks "
                                                   "that segment's events, and the hand-over then retires and reclaims the unread input")
                return out
    return out
