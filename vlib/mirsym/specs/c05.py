"""C05 - compaction changes layout, never content: the hand-over's ordering facts."""
from . import allocspec, handovercrash, handoverspec, indexkeyspec
from ._util import pick

FILTERS = []


def obligations(ctx):
    ho = handoverspec.commit_batch(ctx)
    out = pick(ho, [("B-1", "exists-before-index"), ("B-2", "index-before-livelist"),
                     ("B-2b", "index-under-flush-lock"), ("B-2c", "retire-before-insert"), ("B-2d", "ok-means-live"),
                     ("B-3", "drained-only")])
    out += pick(indexkeyspec.key_agreement(ctx), [("B-4", "retire-key")])
    out += pick(allocspec.plan_output_ids(ctx), [("B-5", "fresh-output-id")])
    out += pick(handovercrash.crash_consistency(ctx), [("B-6", "handover-crash")])
    out += cursor_inputs(ctx)
    return out


def cursor_inputs(ctx):
    """the merge reads every input segment or fails: it never goes on with fewer inputs"""
    import re
    import z3
    from .. import oblig, sym
    from .flushspec import Builder
    b = Builder(ctx, "zone-zone_cursor_loader-{impl#0}-load_all-{closure#0}.", "ZoneCursorLoader::load_all", {})
    E, q = b.E, ctx.q
    r = b.mk("B-7", "ZoneCursorLoader::load_all: if the zone metadata of an input segment cannot be loaded the whole load fails (Err) - it "
                    "never moves on to the next segment or returns Ok without that segment's zones, because the hand-over afterwards "
                    "retires the event type from every input label, read or not")
    out = [b.results["B-7"]]
    if not r:
        return out
    zl = oblig.events(E, r"ZoneMeta::load$")
    if not oblig.need_anchor(r, zl, "ZoneMeta::load"):
        return out
    r.nontrivial = True
    rets = [(reach, E.disc_term(env.get(0))) for (_n, reach, env) in E.returns]
    for z_ in zl:
        d = z3.BitVec(f"disc({z_.site})", 64)
        nxt = [e for e in zl if e.layer == z_.layer + 1]
        goals = [("moves on to the next input segment", n_.reach) for n_ in nxt]
        goals += [("returns Ok", z3.And(reach, dd == 0)) for reach, dd in rets if dd is not None]
        for what, g in goals:
            res, model = q.check(z_.reach, d == 1, g, domain=E.domain)
            r.queries += 1
            if res == z3.sat:
                oblig.violated(r, E, q, z_, model, f"load_all {what} although ZoneMeta::load failed for an input segment: the merge output lacks "
                                                   "that segment's events, and the hand-over then retires and reclaims the unread input")
                return out
    return out
