"""C05 - compaction changes layout, never content: the hand-over's ordering facts."""
from . import allocspec, handovercrash, handoverspec, indexkeyspec
from ._util import pick

FILTERS = []


def obligations(ctx):
    ho = handoverspec.commit_batch(ctx)
    out = pick(ho, [("B-1", "exists-before-index"), ("B-2", "index-before-livelist"),
                     ("B-2b", "index-under-flush-lock"), ("B-2c", "retire-before-insert"), ("B-2d", "ok-means-live"),
                     ("B-3", "drained-only")])
    out += pick(indexkeyspec.key_agreement(ctx), [("B-4", "retire-key")])
    out += pick(allocspec.plan_output_ids(ctx), [("B-5", "fresh-output-id")])
    out += pick(handovercrash.crash_consistency(ctx), [("B-6", "handover-crash")])
    return out
