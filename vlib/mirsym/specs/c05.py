"""C05 - compaction changes layout, never content: the hand-over's ordering facts."""
from . import handoverspec
from ._util import pick

FILTERS = []


def obligations(ctx):
    ho = handoverspec.commit_batch(ctx)
    return pick(ho, [("B-1", "exists-before-index"), ("B-2", "index-before-livelist"),
                     ("B-2b", "index-under-flush-lock"), ("B-2c", "retire-before-insert"),
                     ("B-3", "drained-only")])
