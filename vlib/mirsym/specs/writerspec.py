"""QueryResponseWriter::try_accept_row (C03 dedup, C10 offset / limit): loop-free summary."""
import re

import z3

from .. import oblig, sym
from .flushspec import Builder, ghost


def accept_row(ctx):
    ghosts = {"recorded": ghost(r"HashSet::<u64>::insert$|HashSet::<.*>::insert$")}
    b = Builder(ctx, "query-streaming-response_writer-{impl#0}-try_accept_row.", "QueryResponseWriter::try_accept_row", ghosts)
    E, q = b.E, ctx.q
    out = {}
    r = b.mk("dedup-records-every-row", "try_accept_row: a row that carries an event id is recorded in the seen-set on every "
             "path (also when it is consumed by OFFSET or cut by LIMIT), and is accepted only if its id was not seen before")
    out["dedup"] = b.results["dedup-records-every-row"]
    r2 = b.mk("offset-limit-window", "try_accept_row: a row is accepted only after `offset` earlier rows were skipped and "
              "while fewer than `limit` rows were emitted; each accepted row advances `emitted` by one and each skipped "
              "row `skipped` by one")
    out["window"] = b.results["offset-limit-window"]
    if not r:
        return out
    ins = oblig.events(E, r"HashSet::<.*>::insert$")
    if not oblig.need_anchor(r, ins, "seen_ids.insert(id)") or not E.returns:
        r2.status = "inconclusive"
        r2.notes.append("anchors missing")
        return out
    r.nontrivial = True
    r2.nontrivial = True
    id_some = z3.BitVec("disc(arg:event_id)", 64) == 1
    fresh = E.sym(ins[0].site, "bool")
    for (node, reach, env) in E.returns:
        ret = E.to_term(env.get(0), "bool")
        g = env.get("@recorded")
        if ret is None or g is None:
            r.status = "inconclusive"
            r.notes.append("return value not resolved")
            break
        res, model = q.check(reach, id_some, z3.Not(g), domain=E.domain)
        r.queries += 1
        if res == z3.sat:
            r.status = "violated"
            r.witness = {"what": "a row with an event id can leave try_accept_row without having been recorded in the seen-set "
                                 "(e.g. rows consumed by OFFSET): a second copy of the event is later emitted as new",
                         "span": None, "call": "return", "path": E.path_of_model(model), "model": oblig.model_summary(E, model)}
            break
        res, model = q.check(reach, ret, id_some, z3.Not(fresh), domain=E.domain)
        r.queries += 1
        if res == z3.sat:
            r.status = "violated"
            r.witness = {"what": "a row whose id was already seen can be accepted", "span": None, "call": "return",
                         "path": E.path_of_model(model), "model": oblig.model_summary(E, model)}
            break
        # window: accepted => not in the offset prefix and below the limit
        def find(rx, ty="usize"):
            for (lab, t) in list(E.sym_cache):
                if re.search(rx, lab) and E.sym_cache[(lab, t)] is not None:
                    return E.sym_cache[(lab, t)]
            return None
        skipped = find(r"^arg:self(~\d+)?\.skipped$")
        emitted = find(r"^arg:self(~\d+)?\.emitted$")
        off = find(r"^arg:self(~\d+)?\.offset:Some\.0$")
        lim = find(r"^arg:self(~\d+)?\.limit:Some\.0$")
        if any(x is None for x in (skipped, emitted, off, lim)):
            r2.status = "inconclusive"
            r2.notes.append("offset / limit / skipped / emitted not all read by the function as encoded")
            break
        off_lab = [lab for (lab, t) in E.sym_cache if re.search(r"\.offset:Some\.0$", lab)][0][:-len(":Some.0")]
        lim_lab = [lab for (lab, t) in E.sym_cache if re.search(r"\.limit:Some\.0$", lab)][0][:-len(":Some.0")]
        off_some = z3.BitVec(f"disc({off_lab})", 64) == 1
        lim_some = z3.BitVec(f"disc({lim_lab})", 64) == 1
        window = z3.And(z3.Implies(off_some, z3.UGE(skipped, off)), z3.Implies(lim_some, z3.ULT(emitted, lim)))
        res, model = q.check(reach, ret, z3.Not(window), domain=E.domain)
        r2.queries += 1
        if res == z3.sat:
            r2.status = "violated"
            r2.witness = {"what": "a row can be accepted inside the OFFSET prefix or at/after the LIMIT", "span": None,
                          "call": "return", "path": E.path_of_model(model), "model": oblig.model_summary(E, model)}
            break
        res, model = q.check(reach, z3.Not(ret), z3.Or(z3.Not(id_some), fresh), window, domain=E.domain)
        r2.queries += 1
        if res == z3.sat:
            r2.status = "violated"
            r2.witness = {"what": "a fresh row inside the window can be rejected", "span": None,
                          "call": "return", "path": E.path_of_model(model), "model": oblig.model_summary(E, model)}
            break
    return out
