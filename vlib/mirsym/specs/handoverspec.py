"""Obligations over CompactionHandover::commit_batch (C05, C11)."""
import re

import z3

from .. import oblig, sym
from ..oblig import Result
from .flushspec import Builder, ghost

HO = "handover-{impl#5}-commit_batch-{closure#0}."


def commit_batch(ctx):
    ghosts = {
        "locked": ghost(r"Mutex::<\(\)>::lock$"),
        "guard_dropped": ghost(r"^drop\(_guard\)$"),
        "loaded": ghost(r"SegmentIndex::load$"),
        "saved": ghost(r"SegmentIndex::save$"),
        "inserted": ghost(r"SegmentIndex::insert_entry$"),
        "retired": ghost(r"SegmentIndex::retire_uid_from_labels"),
        "livelist": ghost(r"RwLock::<.*Vec<.*String>>::write$"),
    }
    b = Builder(ctx, HO, "CompactionHandover::commit_batch", ghosts)
    E, q = b.E, ctx.q
    saves = oblig.events(E, r"SegmentIndex::save$") if E else []
    inserts = oblig.events(E, r"SegmentIndex::insert_entry$") if E else []
    exists = oblig.events(E, r"Path::exists$") if E else []

    r = b.mk("exists-before-index", "the segment index is updated (insert_entry / save) only if every output "
             "segment directory checked with Path::exists was present: a missing output aborts before the index changes")
    if r and oblig.need_anchor(r, saves + inserts, "SegmentIndex::insert_entry / save") and \
            oblig.need_anchor(r, exists, "Path::exists on the output segment directory"):
        def phi(ev):
            cs = []
            for e2 in exists:
                cs.append(z3.Implies(e2.reach, E.sym(e2.site, "bool")))
            return z3.And(cs)
        oblig.guarded(r, E, q, saves + inserts, phi, "index updated although an output directory is missing")
        # the directory checked is <shard_dir>/<SegmentId(entry.id).dir_name()>
        ok = any("var:output_segment_dir" in E.trace(e2.args[0], e2.env) or
                 any(re.search(r"Path::join", x) for x in E.trace(e2.args[0], e2.env)) for e2 in exists if e2.args)
        if not ok and r.status == "holds":
            r.status = "inconclusive"
            r.notes.append("could not relate Path::exists to the output segment directory")

    r = b.mk("index-under-flush-lock", "SegmentIndex::load, the retire / insert steps and SegmentIndex::save all run "
             "while the shard's flush lock is held (acquired before load, guard not dropped before save returns)")
    if r:
        loads = oblig.events(E, r"SegmentIndex::load$")
        locks = oblig.events(E, r"Mutex::<\(\)>::lock$")
        if oblig.need_anchor(r, loads, "SegmentIndex::load") and oblig.need_anchor(r, locks, "flush_lock.lock()"):
            if not any("cap:self.flush_lock" in " ".join(E.trace(a, e.env)) for e in locks for a in e.args):
                r.status = "inconclusive"
                r.notes.append("the awaited lock is not self.flush_lock")
            else:
                def phi(ev):
                    a, d = ev.env.get("@locked"), ev.env.get("@guard_dropped")
                    if a is None or d is None:
                        return None
                    return z3.And(a, z3.Not(d))
                oblig.guarded(r, E, q, loads + inserts + saves + oblig.events(E, r"retire_uid_from_labels"), phi,
                              "index section reachable without the flush lock held")

    r = b.mk("index-before-livelist", "the in-memory live segment list is updated only after the new index was "
             "saved successfully (`save(...).await?`)")
    wl = oblig.events(E, r"RwLock::<.*Vec<.*String>>::write$") if E else []
    if r and oblig.need_anchor(r, wl, "segment_ids.write() in commit_batch"):
        def phi(ev):
            g = ev.env.get("@saved")
            tries = [z3.BitVec(f"disc(try({sym.describe(e2.args[0])}))", 64) == 0
                     for e2 in E.events if re.search(r"Try>::branch$", e2.func) and e2.args
                     and "SegmentIndex::save" in sym.describe(e2.args[0])]
            if g is None:
                return None
            if not tries:
                return z3.BoolVal(False)
            return z3.And(g, z3.Or(tries))
        oblig.guarded(r, E, q, wl, phi, "live list updated before / without a successful index save")

    r = b.mk("ok-means-live", "commit_batch returns Ok only after the live segment list was updated (write guard taken, drained inputs "
             "removed, the new output labels added): an output that is in the saved index is also visible to reads")
    if r and oblig.need_anchor(r, wl, "segment_ids.write() in commit_batch"):
        r.nontrivial = True
        pushes_ = [e for e in E.events if re.search(r"Vec::<.*String>::push$", e.func) and len(e.args) > 1
                   and any("dir_name" in x for x in E.trace(e.args[1], e.env, depth=6))]
        added = wl
        if not pushes_:
            r.status = "inconclusive"
            r.notes.append("anchor not found: the new labels (SegmentId::dir_name of the new entries) being pushed to the live list")
        else:
            for (_n, reach, env) in E.returns:
                d = E.disc_term(env.get(0))
                if d is None:
                    continue
                res, model = q.check(reach, d == 0, z3.Not(z3.Or([e.reach for e in added])), domain=E.domain)
                r.queries += 1
                if res == z3.sat:
                    r.status = "violated"
                    r.witness = {"what": "commit_batch can return Ok although the output labels were never added to the live segment list "
                                         "(the saved index lists the output, reads never open it)",
                                 "span": f"{added[0].span[0]}:{added[0].span[1]}" if added[0].span else None,
                                 "call": "CompactionHandover::commit_batch", "path": E.path_of_model(model)[-10:], "model": {}}
                    break

    r = b.mk("retire-before-insert", "inputs are retired from the index before the output entries are inserted "
             "(no path inserts an output entry and retires inputs afterwards)")
    ret = oblig.events(E, r"retire_uid_from_labels") if E else []
    if r and oblig.need_anchor(r, ret, "SegmentIndex::retire_uid_from_labels"):
        oblig.never(r, E, q, ret, lambda ev: ev.env.get("@inserted"), "retire_uid_from_labels reachable after insert_entry")

    r = b.mk("drained-only", "only the labels the index reported as drained are removed from the live list and "
             "invalidated (the set passed on derives from retire_uid_from_labels' result)")
    inv = oblig.events(E, r"CompactionHandover::invalidate_caches$") if E else []
    if r and oblig.need_anchor(r, inv, "CompactionHandover::invalidate_caches"):
        r.nontrivial = True
        # static data flow: the deepest unrolling shows the whole chain; shallower ones (loops that
        # ran fewer times) must use the same call sites
        strip = lambda x: re.sub(r"@L\d+", "", x)
        traces = []
        for ev in inv:
            r.anchors.append(f"{ev.short}@bb{ev.bb}.{ev.layer}")
            traces.append((ev, E.trace(ev.args[1], ev.env, depth=20) if len(ev.args) > 1 else set()))
        traces.sort(key=lambda t: -len(t[1]))
        full = {strip(x) for x in traces[0][1]}
        ok = "var:all_drained" in full and any("retire_uid_from_labels" in x for x in full)
        for ev, tr in traces[1:]:
            sites = {strip(x) for x in tr if not x.startswith(("phi@", "var:"))}
            if not sites <= full:
                ok = False
        if not ok:
            ev = traces[0][0]
            r.status = "violated"
            r.witness = {"what": "labels passed to invalidate_caches do not derive from the drained entries",
                         "span": f"{ev.span[0]}:{ev.span[1]}" if ev.span else None, "call": ev.func[:120],
                         "path": [], "model": {}, "trace": sorted(full)[:40]}
        rt = oblig.events(E, r"Vec::<.*String>::retain")
        if r.status == "holds" and not rt:
            r.status = "inconclusive"
            r.notes.append("anchor not found: Vec::retain on the live list")
        elif r.status == "holds":
            # the set the retain closure tests against must derive from the drained entries too
            rtr = []
            for ev in rt:
                tr = E.trace(ev.args[1], ev.env, depth=24) if len(ev.args) > 1 else set()
                rtr.append((ev, {strip(x) for x in tr}))
            rtr.sort(key=lambda t: -len(t[1]))
            fullr = rtr[0][1]
            if not ("var:all_drained" in fullr or any("retire_uid_from_labels" in x for x in fullr)) or \
                    ("var:drained_labels" not in fullr):
                ev = rtr[0][0]
                r.status = "violated"
                r.witness = {"what": "the labels removed from the live segment list (Vec::retain) do not derive from the drained entries",
                             "span": f"{ev.span[0]}:{ev.span[1]}" if ev.span else None, "call": ev.func[:120],
                             "path": [], "model": {}, "trace": sorted(fullr)[:40]}
    return b.results
