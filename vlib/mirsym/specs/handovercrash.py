"""C05 - a compaction run that is cut short (kill, or a later batch failing) must not change the
answers after restart: every event stays readable from exactly one segment.

Facts (each read from the MIR of the function that owns it):
  startup   ShardContext::new builds the live segment list from SegmentIdLoader::load alone
  loader    SegmentIdLoader::load lists every all-digit directory name (no look at segments.idx)
  read      QueryPlan::segment_maybe_contains_uid decides by catalog / in-flight marker / existence
            of `<uid>.zones` in the directory (no look at segments.idx)
  order     CompactionWorker: output written (`MultiUidCompactor::run().await?`) before
            `commit_batch(..).await?`, inputs reclaimed only after every batch committed
Model: one batch, inputs I1 I2 fully drained into output O, crash point c symbolic in
{before output, output written, index committed, inputs reclaimed}; after restart the live list
and the per-segment read decision follow the facts; z3 looks for a crash point at which an event
is readable from two segments or from none. The crash point "index committed, inputs not yet
reclaimed" is replayed on the real engine (two flushed segments, a real background compaction,
the input directories put back, restart, COUNT)."""
import json
import os
import re
import shutil
import tempfile

import z3

from .. import oblig, sym
from ..oblig import Result
from .flushspec import Builder
from .c17 import native_binary


def facts(ctx, notes):
    out = {}
    b = Builder(ctx, "shard-context-{impl#0}-new.", "ShardContext::new", {})
    if b.E is None:
        notes.append(b.err)
        return None
    E = b.E
    loads = oblig.events(E, r"SegmentIdLoader::load$")
    locks = [e for e in E.events if re.search(r"RwLock::<Vec<.*String>>::new$|RwLock::<.*Vec<.*String>>::new$", e.func)]
    idx = [e for e in E.events if re.search(r"SegmentIndex::", e.func)]
    if not loads or not locks:
        notes.append("ShardContext::new: SegmentIdLoader::load / RwLock::new(live list) not found")
        return None
    from_loader = any(any("SegmentIdLoader::load" in x for x in E.trace(l.args[0], l.env, depth=6) | {sym.describe(l.args[0])}) for l in locks if l.args)
    out["startup"] = "dirs" if from_loader and not idx else "other"

    b = Builder(ctx, "segment_id_loader-{impl#0}-load.", "SegmentIdLoader::load", {})
    if b.E is None:
        notes.append(b.err)
        return None
    E = b.E
    pushes = [e for e in E.events if re.search(r"Vec::<.*String>::push$", e.func)]
    digit = [e for e in E.events if re.search(r"Iterator>::all|::all::<", e.func)]
    idx = [e for e in E.events if re.search(r"SegmentIndex::", e.func)]
    if not pushes or not digit:
        notes.append("SegmentIdLoader::load: push / all-digit test not found")
        return None
    guarded = True
    for p_ in pushes:
        if p_.layer:
            continue
        dsym = E.sym(digit[0].site, "bool")
        r1, _ = ctx.q.check(p_.reach, z3.Not(dsym), domain=E.domain)
        guarded = guarded and r1 == z3.unsat
    out["loader"] = "numeric-dirs" if guarded and not idx else "other"

    b = Builder(ctx, "read-query_plan-{impl#0}-segment_maybe_contains_uid.", "QueryPlan::segment_maybe_contains_uid", {})
    if b.E is None:
        notes.append(b.err)
        return None
    E = b.E
    meta = [e for e in E.events if re.search(r"fs::metadata", e.func)]
    idx = [e for e in E.events if re.search(r"SegmentIndex::|segment_index", e.func)]
    out["read"] = "files" if meta and not idx else "other"

    b = Builder(ctx, "compaction-compaction_worker-{impl#0}-process_batch-{closure#0}.", "CompactionWorker::process_batch", {})
    if b.E is None:
        notes.append(b.err)
        return None
    E = b.E
    runs = oblig.events(E, r"MultiUidCompactor::run$")
    commits = oblig.events(E, r"CompactionHandover::commit_batch$")
    if not runs or not commits:
        notes.append("process_batch: MultiUidCompactor::run / commit_batch not found")
        return None
    # commit only after the output was written successfully
    tries = [z3.BitVec(f"disc(try({sym.describe(e.args[0])}))", 64) == 0 for e in E.events
             if re.search(r"Try>::branch$", e.func) and e.args and "MultiUidCompactor::run" in " ".join(E.trace(e.args[0], e.env, depth=6) | {sym.describe(e.args[0])})]
    ok = bool(tries)
    for c_ in commits:
        r1, _ = ctx.q.check(c_.reach, z3.Not(z3.Or(tries)) if tries else z3.BoolVal(True), domain=E.domain)
        ok = ok and r1 == z3.unsat
    out["output_before_commit"] = ok

    b = Builder(ctx, "compaction-compaction_worker-{impl#0}-run-{closure#0}.", "CompactionWorker::run", {})
    if b.E is None:
        notes.append(b.err)
        return None
    E = b.E
    rec = oblig.events(E, r"CompactionHandover::schedule_reclaim$")
    pb = oblig.events(E, r"CompactionWorker::process_batch$")
    tr = [e for e in E.events if re.search(r"Try>::branch$", e.func) and e.args and "process_batch" in sym.describe(e.args[0])]
    ok = bool(rec) and bool(pb) and bool(tr)
    for r_ in rec:
        failed = z3.Or([z3.And(t_.reach, z3.BitVec(f"disc(try({sym.describe(t_.args[0])}))", 64) == 1) for t_ in tr]) if tr else z3.BoolVal(True)
        r1, _ = ctx.q.check(r_.reach, failed, domain=E.domain)
        ok = ok and r1 == z3.unsat
    out["reclaim_after_commit"] = ok
    return out


def model(f):
    """crash point c: 0 nothing done, 1 output directory written, 2 index committed (inputs retired,
    output inserted), 3 inputs reclaimed. Returns (preconditions, violation, c)."""
    c = z3.Int("crash_point")
    pre = [c >= 0, c <= 3]
    if not f["output_before_commit"] or not f["reclaim_after_commit"]:
        return None
    dir_in, dir_out = c < 3, c >= 1
    idx_in, idx_out = c < 2, c >= 2
    live_in = dir_in if f["startup"] == "dirs" else z3.And(dir_in, idx_in)
    live_out = dir_out if f["startup"] == "dirs" else z3.And(dir_out, idx_out)
    read_in = z3.And(live_in, dir_in if f["read"] == "files" else idx_in)
    read_out = z3.And(live_out, dir_out if f["read"] == "files" else idx_out)
    copies = z3.If(read_in, 1, 0) + z3.If(read_out, 1, 0)
    return pre, copies != 1, c, copies


def replay(ctx):
    """crash point 2 on the real engine: (reproduced, text)"""
    from vlib import history
    binary = native_binary(ctx.log)
    if binary is None:
        return False, "native replay program did not build"
    root = tempfile.mkdtemp(prefix="verif-hist-")

    def counts(out):
        rows, cnt = [], []
        for _i, o in out:
            if not isinstance(o, str):
                continue
            for line in o.splitlines():
                try:
                    j = json.loads(line)
                except ValueError:
                    continue
                if j.get("type") == "batch":
                    (cnt if '"name":"count"' in o else rows).extend([x[-1] for x in j["rows"]])
        return sorted(rows), cnt
    try:
        store = lambda k: 'STORE ev FOR c1 PAYLOAD {"n": %d}' % k
        history.write_config(root, capacity=2, shards=1)
        l1 = ['DEFINE ev FIELDS { "n": "int" }', store(1), store(2), "!wait", "!sleep 300", store(3), store(4), "!wait", "!sleep 300",
              "QUERY ev COUNT", "!kill"]
        rc, out, _ = history.run_lifetime(binary, root, "; ".join(l1))
        before = counts(out)[1]
        sd = os.path.join(root, "cols", "shard-0")
        inputs = sorted(x for x in os.listdir(sd) if x.isdigit())
        for l in inputs:
            shutil.copytree(os.path.join(sd, l), os.path.join(root, "save", l))
        comp = {r"^compaction_interval\s*=.*$": "compaction_interval = 1", r"^segments_per_merge\s*=.*$": "segments_per_merge = 2",
                r"^sys_io_threshold\s*=.*$": "sys_io_threshold = 100000000", r"^sys_memory_threshold_mb\s*=.*$": 'sys_memory_threshold_mb = "1MB"'}
        history.write_config(root, capacity=2, shards=1, extra=comp)
        mid, after_dirs = [], []
        for _attempt in range(4):          # the compactor wakes up once a second and skips a round under I/O pressure
            rc, out, _ = history.run_lifetime(binary, root, "!sleep 5000; QUERY ev COUNT; !kill", timeout=90)
            mid = counts(out)[1]
            after_dirs = sorted(x for x in os.listdir(sd) if x.isdigit())
            if after_dirs and not (set(inputs) & set(after_dirs)):
                break
        if set(inputs) & set(after_dirs) or not after_dirs:
            return False, f"the background compaction did not merge the inputs within 20 s (directories: {after_dirs})"
        for l in inputs:
            shutil.copytree(os.path.join(root, "save", l), os.path.join(sd, l))
        history.write_config(root, capacity=2, shards=1)
        rc, out, _ = history.run_lifetime(binary, root, "QUERY ev; QUERY ev COUNT")
        rows, cnt = counts(out)
        text = (f"4 events in segments {inputs}: COUNT = {before}; a background compaction merges them into {after_dirs}: COUNT = {mid}; "
                f"state of a process that died after the hand-over was committed and before the inputs were reclaimed (input directories "
                f"{inputs} still on disk next to {after_dirs}); after restart QUERY returns n={rows}, COUNT = {cnt}")
        return bool(cnt) and cnt[0] != 4, text
    finally:
        shutil.rmtree(root, ignore_errors=True)


def crash_consistency(ctx):
    notes = []
    r = Result("handover-crash", "a compaction run cut short at any step boundary (before / after the output directory is written, after the "
               "index was committed, after the inputs were reclaimed) leaves, after restart, every event readable from exactly one "
               "segment: the live list a new process builds and its per-segment read decision never admit an input and its output together")
    r.functions = ["ShardContext::new", "SegmentIdLoader::load", "QueryPlan::segment_maybe_contains_uid",
                   "CompactionWorker::process_batch", "CompactionWorker::run"]
    r.bounds = "one batch with fully drained inputs, one event type; crash point symbolic over the four step boundaries"
    out = {"handover-crash": r}
    f = facts(ctx, notes)
    if f is None or "other" in (f.get("startup"), f.get("loader"), f.get("read")):
        r.status = "inconclusive"
        r.notes.extend(notes)
        r.notes.append(f"facts not understood: {f}")
        return out
    r.notes.append("facts: " + json.dumps(f))
    m = model(f)
    if m is None:
        r.status = "inconclusive"
        r.notes.append("the worker does not order output / commit / reclaim as modelled")
        return out
    pre, bad, c, copies = m
    r.nontrivial = True
    s = z3.Solver()
    s.add(*pre)
    s.add(bad)
    res = s.check()
    r.queries += 1
    ctx.q.queries += 1
    if res == z3.unsat:
        return out
    if res != z3.sat:
        r.status = "inconclusive"
        r.notes.append("solver returned unknown")
        return out
    pts = []
    for k in range(4):
        s2 = z3.Solver()
        s2.add(*pre)
        s2.add(bad, c == k)
        if s2.check() == z3.sat:
            pts.append((k, s2.model().eval(copies, model_completion=True).as_long()))
    names = {0: "before the output is written", 1: "output written, index not yet committed", 2: "index committed, inputs not yet reclaimed",
             3: "inputs reclaimed"}
    ok, text = replay(ctx) if any(k == 2 for k, _ in pts) else (False, "no native replay for this crash point")
    r.witness = {"what": "after a compaction run that stopped " + " / ".join(f"[{names[k]}: each event readable from {n} segments]" for k, n in pts)
                         + ": the next process lists every numeric directory as live and reads a segment whenever its .zones file exists, "
                           "whatever segments.idx says - " + text,
                 "span": None, "call": "ShardContext::new / SegmentIdLoader::load", "path": [],
                 "model": {"crash_points": [list(p_) for p_ in pts], "facts": f}, "native": text}
    r.status = "violated" if ok else "inconclusive"
    if not ok:
        r.notes.append("counterexample did not reproduce on the real engine: " + text)
    return out
