"""C19 - WAL files are deleted only after a complete, lossless archive exists.
Anchored in WalCleaner::cleanup_up_to (src/engine/core/wal/wal_cleaner.rs)."""
import re

import z3

from .. import oblig, sym
from ..oblig import Result

FILTERS = []
BODY = "wal_cleaner-{impl#0}-cleanup_up_to."


def obligations(ctx):
    out = []
    ghosts = {"archived": lambda ev, E: bool(re.search(r"WalArchiver::archive_logs_up_to", ev.func))}
    E, err = ctx.load(BODY, ghosts=ghosts)
    bounds = f"loops unrolled {ctx.k}x (directory-entry loop), calls opaque, unwind edges not followed"
    fns = ["WalCleaner::cleanup_up_to"]

    def mk(oid, desc):
        r = Result(oid, desc)
        r.functions = fns
        r.bounds = bounds
        out.append(r)
        if E is None:
            r.status = "inconclusive"
            r.notes.append(err)
            return None
        return r

    q = ctx.q
    # B-1: no deletion after a failed archive
    r = mk("B-1", "conservative mode: std::fs::remove_file is reachable only when failure_count == 0 "
                  "(no feasible path deletes a log after any archive failed)")
    if r:
        evs = oblig.events(E, r"fs::remove_file")
        if oblig.need_anchor(r, evs, "std::fs::remove_file in cleanup_up_to"):
            def phi(ev):
                c = E.var_term(ev.env, "conservative_mode")
                f = E.var_term(ev.env, "failure_count")
                if c is None or f is None:
                    return None
                return z3.Implies(c, f == z3.BitVecVal(0, f.size()))
            oblig.guarded(r, E, q, evs, phi, "remove_file reachable with conservative_mode and failure_count > 0")

    # B-1b: failure_count really counts the Err results of the archiver
    r = mk("B-1b", "failure_count is `archive_results.iter().filter(|r| r.is_err()).count()`: the counter "
                   "compared with 0 is fed by a closure that calls Result::is_err on the archiver's results")
    if r:
        cnt = [ev for ev in oblig.events(E, r"as Iterator>::count")]
        target = None
        for ev in cnt:
            # destination local of this call is the one `failure_count` names
            dest = E.fn.blocks[ev.bb].term["dest"]
            if f"_{dest.local}" in E.fn.debug.get("failure_count", []):
                target = ev
        if target is None:
            r.status = "inconclusive"
            r.notes.append("anchor not found: Iterator::count() assigned to failure_count")
        else:
            r.anchors.append(f"{target.short}@bb{target.bb}")
            m = re.search(r"\{closure@([^\}]+)\}", target.func)
            ok = False
            if m:
                span = m.group(1)
                for f in ctx.find("cleanup_up_to-{closure#"):
                    txt = open(f).read()
                    head = txt[:600]
                    if span.split(":")[0] in head and re.search(re.escape(span.split(" ")[0]), head):
                        if re.search(r"Result::<[^\n]*>::is_err\(", txt) and not re.search(r"Result::<[^\n]*>::is_ok\(", txt):
                            ok = True
                            r.notes.append(f"closure {span} calls Result::is_err")
            # the iterator must range over the archiver's result vector
            src_ok = any(re.search(r"WalArchiver::archive_logs_up_to", e.func) for e in E.events)
            r.nontrivial = True
            if not (ok and src_ok):
                r.status = "violated"
                r.witness = {"what": "failure_count is not the number of Err archive results",
                             "span": f"{target.span[0]}:{target.span[1]}" if target.span else None,
                             "call": target.func[:200], "path": [], "model": {}}

    # B-2: archive first, same cut-off
    r = mk("B-2", "conservative mode: the directory listing that drives deletion is reached only after "
                  "WalArchiver::archive_logs_up_to was called, and the archiver gets the same cut-off as the deletion guard")
    if r:
        evs = oblig.events(E, r"fs::read_dir")
        if oblig.need_anchor(r, evs, "std::fs::read_dir in cleanup_up_to"):
            def phi(ev):
                c = E.var_term(ev.env, "conservative_mode")
                g = ev.env.get("@archived")
                if c is None or g is None:
                    return None
                return z3.Implies(c, g)
            oblig.guarded(r, E, q, evs, phi, "read_dir reachable in conservative mode before archiving")
        arch = oblig.events(E, r"WalArchiver::archive_logs_up_to")
        if r.status == "holds" and oblig.need_anchor(r, arch, "WalArchiver::archive_logs_up_to"):
            for ev in arch:
                a = E.to_term(ev.args[1], "u64") if len(ev.args) > 1 else None
                k = E.var_term(ev.env, "keep_from_log_id")
                if a is None or k is None:
                    r.status = "inconclusive"
                    r.notes.append("cut-off argument not resolved")
                    continue
                res, model = q.check(ev.reach, a != k, domain=E.domain)
                r.queries += 1
                if res == z3.sat:
                    oblig.violated(r, E, q, ev, model, "archive cut-off differs from keep_from_log_id")

    # B-3: deletion guard id < keep_from_log_id
    r = mk("B-3", "only logs with id < keep_from_log_id are deleted: remove_file is guarded by the parsed file "
                  "number being below the cut-off (unsigned)")
    if r:
        evs = oblig.events(E, r"fs::remove_file")
        if oblig.need_anchor(r, evs, "std::fs::remove_file"):
            def phi(ev):
                i = E.var_term(ev.env, "id")
                k = E.var_term(ev.env, "keep_from_log_id")
                if i is None or k is None:
                    return None
                return z3.ULT(i, k)
            oblig.guarded(r, E, q, evs, phi, "remove_file reachable with id >= keep_from_log_id")
    out += archive_write(ctx)
    out += archive_results(ctx)
    out += archive_entries(ctx)
    return out


def archive_entries(ctx):
    """every record of the log that parses ends up in the archive"""
    from .flushspec import Builder
    b = Builder(ctx, "wal-wal_archive-{impl#0}-from_wal_file.", "WalArchive::from_wal_file", {})
    E, q = b.E, ctx.q
    r = b.mk("B-6", "WalArchive::from_wal_file walks the lines of the opened log file themselves (BufRead::lines, numbered with enumerate: no "
                    "line is dropped, skipped or cut off beforehand - WAL recovery reads the same lines) and adds every line that parses "
                    "as a WAL entry to the archive's entries")
    out = [b.results["B-6"]]
    if not r:
        return out
    parses = [e for e in E.events if re.search(r"serde_json::from_str", e.func)]
    pushes = [e for e in E.events if re.search(r"Vec::<.*WalEntry>::push$", e.func)]
    iters = [e for e in E.events if re.search(r"IntoIterator>::into_iter$", e.func) and e.span and e.span[0].endswith("wal_archive.rs")]
    if not oblig.need_anchor(r, parses, "serde_json::from_str::<WalEntry>") or not oblig.need_anchor(r, pushes, "entries.push") \
            or not oblig.need_anchor(r, iters, "the loop over the log's lines"):
        return out
    r.nontrivial = True
    # (1) the sequence walked is the file's own line iterator
    loop_it = min(iters, key=lambda e: e.span[1])
    chain = E.trace(loop_it.args[0], loop_it.env, depth=16) | {sym.describe(loop_it.args[0])} if loop_it.args else set()
    removal = [e for e in E.events if re.search(r"::(pop|truncate|remove|drain|skip|take|step_by|filter|rev|split_last|split_off|dedup)(::<.*>)?$", e.func)
               and e.span and e.span[0].endswith("wal_archive.rs") and e.span[1] <= loop_it.span[1]]
    span = f"{loop_it.span[0]}:{loop_it.span[1]}"
    if not any("BufRead::lines" in x for x in chain):
        if removal:
            r.status = "violated"
            r.witness = {"what": f"the lines that are archived are not the file's own line iterator: a {removal[0].short} is applied to them "
                                 "first, so a record WAL recovery would replay (e.g. a complete last record without a trailing newline) is missing "
                                 "from the archive while archive_log still returns Ok and the log is deleted",
                         "span": f"{removal[0].span[0]}:{removal[0].span[1]}", "call": removal[0].func[:80], "path": [], "model": {}}
        else:
            r.status = "inconclusive"
            r.notes.append(f"the loop does not walk BufRead::lines directly (derives from {sorted(x for x in chain if '::' in x)[:5]})")
        return out
    if not any("File::open" in x for x in chain):
        r.status = "inconclusive"
        r.notes.append("the line iterator is not over the opened log file")
        return out
    # (2) a line that parses is added
    for p_ in parses:
        mine = [x for x in pushes if x.layer == p_.layer and len(x.args) > 1 and sym.describe(x.args[1]).startswith(p_.site)]
        pushed = z3.Or([x.reach for x in mine]) if mine else z3.BoolVal(False)
        res, model = q.check(p_.reach, z3.BitVec(f"disc({p_.site})", 64) == 0, z3.Not(pushed), domain=E.domain)
        r.queries += 1
        if res == z3.sat:
            oblig.violated(r, E, q, p_, model, "a line that parses as a WAL entry is not added to the archive's entries")
            return out
    return out


def archive_results(ctx):
    """the archiver reports every log it tried: a failed archive is an Err in the returned vector"""
    from .flushspec import Builder
    b = Builder(ctx, "wal-wal_archiver-{impl#0}-archive_logs_up_to.", "WalArchiver::archive_logs_up_to", {})
    E, q = b.E, ctx.q
    r = b.mk("B-5", "WalArchiver::archive_logs_up_to: the result of every archive_log call - Ok or Err - is appended to the returned "
                    "vector before the loop moves on or the function returns (the cleaner skips deletion only if it sees an Err "
                    "there), and only logs below the cut-off are archived")
    out = [b.results["B-5"]]
    if not r:
        return out
    arch = oblig.events(E, r"WalArchiver::archive_log$")
    pushes = [e for e in E.events if re.search(r"Vec::<.*>::push$", e.func) and len(e.args) > 1]
    nexts = [e for e in E.events if re.search(r"Iterator>::next$", e.func) and e.span and e.span[0].startswith("src/")
             and not sym.LOGGING_CALLS.search(e.func) and "tracing" not in e.func]
    if not oblig.need_anchor(r, arch, "WalArchiver::archive_log") or not oblig.need_anchor(r, pushes, "results.push"):
        return out
    r.nontrivial = True
    rets = [reach for (_n, reach, _env) in E.returns]
    for a in arch:
        r.anchors.append(f"{a.short}@bb{a.bb}.{a.layer}")
        mine = [p_ for p_ in pushes if a.site in {sym.describe(p_.args[1])} | set(E.trace(p_.args[1], p_.env, depth=4))]
        pushed = z3.Or([p_.reach for p_ in mine]) if mine else z3.BoolVal(False)
        # whatever the outcome, the result is recorded as it is
        for p_ in mine:
            dp = E.disc_term(p_.args[1])
            da = z3.BitVec(f"disc({a.site})", 64)
            if dp is None:
                continue
            res, model = q.check(p_.reach, dp != da, domain=E.domain)
            r.queries += 1
            if res == z3.sat:
                oblig.violated(r, E, q, p_, model, "the value appended for a log does not carry the outcome of its archive_log call")
                return out
        goals = [("returns", z3.Or(rets))] if rets else []
        nxt = [e for e in nexts if e.layer == a.layer + 1]
        if nxt:
            goals.append(("moves on to the next directory entry", nxt[0].reach))
        for what, g in goals:
            for outcome, cond in (("failed", z3.BitVec(f"disc({a.site})", 64) == 1), ("succeeded", z3.BitVec(f"disc({a.site})", 64) == 0)):
                res, model = q.check(a.reach, cond, g, z3.Not(pushed), domain=E.domain)
                r.queries += 1
                if res == z3.sat:
                    oblig.violated(r, E, q, a, model, f"archive_logs_up_to {what} although the result of an archive_log call that {outcome} "
                                                      "was not appended: the cleaner sees no failure and deletes the logs")
                    return out
        i = E.var_term(a.env, "id")
        k = E.var_term(a.env, "keep_from_log_id")
        if i is not None and k is not None:
            res, model = q.check(a.reach, z3.UGE(i, k), domain=E.domain)
            r.queries += 1
            if res == z3.sat:
                oblig.violated(r, E, q, a, model, "a log at or above the cut-off is archived")
                return out
    return out


def archive_write(ctx):
    """WalArchive::write_to_file and WalArchiver::archive_log: an Ok result means a complete,
    freshly written archive file"""
    from .flushspec import Builder, ghost
    res = []
    ghosts = {"written": ghost(r"Write>::write_all$"), "synced": ghost(r"File::sync_all$"),
              "created": ghost(r"File::create")}
    b = Builder(ctx, "wal-wal_archive-{impl#1}-write_to_file.", "WalArchive::write_to_file", ghosts)
    E, q = b.E, ctx.q
    r = b.mk("B-4", "WalArchive::write_to_file returns Ok only after the compressed archive was written with write_all "
                    "and fsynced, both successfully, into a file opened by File::create (truncating any pre-existing "
                    "archive of the same name)")
    res.append(b.results["B-4"])
    if r:
        if not E.returns:
            r.status = "inconclusive"
            r.notes.append("no return found")
        r.nontrivial = True
        for (node, reach, env) in E.returns:
            ret = env.get(0)
            d = E.discriminant(ret, E.fn.types.get(0, "")) if ret is not None else None
            gs = [env.get("@written"), env.get("@synced"), env.get("@created")]
            if d is None or not sym.is_term(d) or any(g is None for g in gs):
                r.status = "inconclusive"
                r.notes.append("return value / ghosts not resolved")
                continue
            tries = {}
            for e2 in E.events:
                if re.search(r"Try>::branch$", e2.func) and e2.args:
                    m = re.match(r"^(File::create|Write::write_all|File::sync_all|WalArchive::to_compressed_bytes)#",
                                 sym.describe(e2.args[0]))
                    if m:
                        tries[m.group(1)] = z3.BitVec(f"disc(try({sym.describe(e2.args[0])}))", 64) == 0
            # File::create == OpenOptions write+create+truncate; an explicit OpenOptions chain with
            # truncate(true) or create_new(true) is accepted as well
            if "File::create" not in tries:
                trunc = any(re.search(r"OpenOptions::(truncate|create_new)$", e2.func) and len(e2.args) > 1
                            and sym.describe(e2.args[1]) == "True" for e2 in E.events)
                for e2 in E.events:
                    if trunc and re.search(r"Try>::branch$", e2.func) and e2.args and \
                            sym.describe(e2.args[0]).startswith("OpenOptions::open#"):
                        tries["File::create"] = z3.BitVec(f"disc(try({sym.describe(e2.args[0])}))", 64) == 0
                        gs[2] = z3.BoolVal(True)
            need = ("File::create", "Write::write_all", "File::sync_all")
            if any(n not in tries for n in need):
                good = z3.BoolVal(False)
                r.notes.append("a step's Result is not propagated with `?` (or the file is not opened with File::create): "
                               + ", ".join(n for n in need if n not in tries))
            else:
                good = z3.And(*gs, *tries.values())
            rr, model = q.check(reach, d == 0, z3.Not(good), domain=E.domain)
            r.queries += 1
            if rr == z3.sat:
                r.status = "violated"
                r.witness = {"what": "write_to_file can return Ok without create(truncate) + write_all + sync_all all succeeding",
                             "span": None, "call": "return", "path": E.path_of_model(model),
                             "model": oblig.model_summary(E, model)}
                break
        # the file written is the one created at <archive_dir>/<generate_filename()>
        if r.status == "holds":
            wa = oblig.events(E, r"Write>::write_all$")
            cr = oblig.events(E, r"File::create") + oblig.events(E, r"OpenOptions::open")
            if not wa or not cr:
                r.status = "inconclusive"
                r.notes.append("anchor not found: write_all / File::create")
            else:
                tr = E.trace(wa[0].args[0], wa[0].env, depth=6)
                if not any("File::create" in x or "OpenOptions::open" in x for x in tr):
                    r.status = "violated"
                    r.witness = {"what": "the handle written is not the one returned by File::create", "span": None,
                                 "call": wa[0].func[:100], "path": [], "model": {}, "trace": sorted(tr)[:10]}
    b2 = Builder(ctx, "wal-wal_archiver-{impl#0}-archive_log.", "WalArchiver::archive_log",
                 {"built": ghost(r"WalArchive::from_wal_file$"), "stored": ghost(r"WalArchive::write_to_file$")})
    E2 = b2.E
    r = b2.mk("B-5", "WalArchiver::archive_log returns Ok only if the archive was built from the WAL file and written "
                     "to the archive directory, both successfully")
    res.append(b2.results["B-5"])
    if r:
        r.nontrivial = True
        for (node, reach, env) in E2.returns:
            ret = env.get(0)
            d = E2.discriminant(ret, E2.fn.types.get(0, "")) if ret is not None else None
            gs = [env.get("@built"), env.get("@stored")]
            if d is None or not sym.is_term(d) or any(g is None for g in gs):
                r.status = "inconclusive"
                r.notes.append("return value / ghosts not resolved")
                continue
            tries = [z3.BitVec(f"disc(try({sym.describe(e2.args[0])}))", 64) == 0 for e2 in E2.events
                     if re.search(r"Try>::branch$", e2.func) and e2.args and
                     re.match(r"^(WalArchive::from_wal_file|WalArchive::write_to_file)#", sym.describe(e2.args[0]))]
            good = z3.And(*gs, *tries) if len(tries) >= 2 else z3.BoolVal(False)
            rr, model = q.check(reach, d == 0, z3.Not(good), domain=E2.domain)
            r.queries += 1
            if rr == z3.sat:
                r.status = "violated"
                r.witness = {"what": "archive_log can return Ok without a successful from_wal_file + write_to_file",
                             "span": None, "call": "return", "path": E2.path_of_model(model),
                             "model": oblig.model_summary(E2, model)}
                break
    return res
