"""C19 - WAL files are deleted only after a complete, lossless archive exists.
Anchored in WalCleaner::cleanup_up_to (src/engine/core/wal/wal_cleaner.rs)."""
import re

import z3

from .. import oblig
from ..oblig import Result

FILTERS = []
BODY = "wal_cleaner-{impl#0}-cleanup_up_to."


def obligations(ctx):
    out = []
    ghosts = {"archived": lambda ev, E: bool(re.search(r"WalArchiver::archive_logs_up_to", ev.func))}
    E, err = ctx.load(BODY, ghosts=ghosts)
    bounds = f"loops unrolled {ctx.k}x (directory-entry loop), calls opaque, unwind edges not followed"
    fns = ["WalCleaner::cleanup_up_to"]

    def mk(oid, desc):
        r = Result(oid, desc)
        r.functions = fns
        r.bounds = bounds
        out.append(r)
        if E is None:
            r.status = "inconclusive"
            r.notes.append(err)
            return None
        return r

    q = ctx.q
    # B-1: no deletion after a failed archive
    r = mk("B-1", "conservative mode: std::fs::remove_file is reachable only when failure_count == 0 "
                  "(no feasible path deletes a log after any archive failed)")
    if r:
        evs = oblig.events(E, r"fs::remove_file")
        if oblig.need_anchor(r, evs, "std::fs::remove_file in cleanup_up_to"):
            def phi(ev):
                c = E.var_term(ev.env, "conservative_mode")
                f = E.var_term(ev.env, "failure_count")
                if c is None or f is None:
                    return None
                return z3.Implies(c, f == z3.BitVecVal(0, f.size()))
            oblig.guarded(r, E, q, evs, phi, "remove_file reachable with conservative_mode and failure_count > 0")

    # B-1b: failure_count really counts the Err results of the archiver
    r = mk("B-1b", "failure_count is `archive_results.iter().filter(|r| r.is_err()).count()`: the counter "
                   "compared with 0 is fed by a closure that calls Result::is_err on the archiver's results")
    if r:
        cnt = [ev for ev in oblig.events(E, r"as Iterator>::count")]
        target = None
        for ev in cnt:
            # destination local of this call is the one `failure_count` names
            dest = E.fn.blocks[ev.bb].term["dest"]
            if f"_{dest.local}" in E.fn.debug.get("failure_count", []):
                target = ev
        if target is None:
            r.status = "inconclusive"
            r.notes.append("anchor not found: Iterator::count() assigned to failure_count")
        else:
            r.anchors.append(f"{target.short}@bb{target.bb}")
            m = re.search(r"\{closure@([^\}]+)\}", target.func)
            ok = False
            if m:
                span = m.group(1)
                for f in ctx.find("cleanup_up_to-{closure#"):
                    txt = open(f).read()
                    head = txt[:600]
                    if span.split(":")[0] in head and re.search(re.escape(span.split(" ")[0]), head):
                        if re.search(r"Result::<[^\n]*>::is_err\(", txt) and not re.search(r"Result::<[^\n]*>::is_ok\(", txt):
                            ok = True
                            r.notes.append(f"closure {span} calls Result::is_err")
            # the iterator must range over the archiver's result vector
            src_ok = any(re.search(r"WalArchiver::archive_logs_up_to", e.func) for e in E.events)
            r.nontrivial = True
            if not (ok and src_ok):
                r.status = "violated"
                r.witness = {"what": "failure_count is not the number of Err archive results",
                             "span": f"{target.span[0]}:{target.span[1]}" if target.span else None,
                             "call": target.func[:200], "path": [], "model": {}}

    # B-2: archive first, same cut-off
    r = mk("B-2", "conservative mode: the directory listing that drives deletion is reached only after "
                  "WalArchiver::archive_logs_up_to was called, and the archiver gets the same cut-off as the deletion guard")
    if r:
        evs = oblig.events(E, r"fs::read_dir")
        if oblig.need_anchor(r, evs, "std::fs::read_dir in cleanup_up_to"):
            def phi(ev):
                c = E.var_term(ev.env, "conservative_mode")
                g = ev.env.get("@archived")
                if c is None or g is None:
                    return None
                return z3.Implies(c, g)
            oblig.guarded(r, E, q, evs, phi, "read_dir reachable in conservative mode before archiving")
        arch = oblig.events(E, r"WalArchiver::archive_logs_up_to")
        if r.status == "holds" and oblig.need_anchor(r, arch, "WalArchiver::archive_logs_up_to"):
            for ev in arch:
                a = E.to_term(ev.args[1], "u64") if len(ev.args) > 1 else None
                k = E.var_term(ev.env, "keep_from_log_id")
                if a is None or k is None:
                    r.status = "inconclusive"
                    r.notes.append("cut-off argument not resolved")
                    continue
                res, model = q.check(ev.reach, a != k, domain=E.domain)
                r.queries += 1
                if res == z3.sat:
                    oblig.violated(r, E, q, ev, model, "archive cut-off differs from keep_from_log_id")

    # B-3: deletion guard id < keep_from_log_id
    r = mk("B-3", "only logs with id < keep_from_log_id are deleted: remove_file is guarded by the parsed file "
                  "number being below the cut-off (unsigned)")
    if r:
        evs = oblig.events(E, r"fs::remove_file")
        if oblig.need_anchor(r, evs, "std::fs::remove_file"):
            def phi(ev):
                i = E.var_term(ev.env, "id")
                k = E.var_term(ev.env, "keep_from_log_id")
                if i is None or k is None:
                    return None
                return z3.ULT(i, k)
            oblig.guarded(r, E, q, evs, phi, "remove_file reachable with id >= keep_from_log_id")
    return out
