"""C09 (Engine B part) - the segment-tier aggregators read every integer physical type.
`Sum/Avg/Min/Max::update(row, columns)` fetch the cell with `ColumnValues::get_i64_at`, which
answers None for a typed u64 column; the memory tier holds the same field as Int64 and counts it."""
import re

import z3

from .. import oblig, sym
from .flushspec import Builder, ghost
from .c17 import native_binary, run_native

FILTERS = []


def obligations(ctx):
    out = []
    native_done = None
    for oid, ty in (("B-1s", "Sum"), ("B-1a", "Avg"), ("B-1n", "Min"), ("B-1x", "Max")):
        needle = "aggregate-ops-{impl#0}-update."
        def reads_u64(ev, E_):
            if re.search(r"ColumnValues::get_u64_at$", ev.func):
                return True
            # `get_i64_at(..).or_else(|| col.get_u64_at(..))`: the fallback lives in the closure
            m = re.search(r"Option::<.*>::or_else::<\{closure@([^\}]+)\}", ev.func)
            if m:
                span = m.group(1).split(" ")[0]
                for f in ctx.find("aggregate-ops-"):
                    if "{closure#" in f:
                        txt = open(f, errors="replace").read()
                        if span in txt[:800] and re.search(r"ColumnValues::get_u64_at\(", txt):
                            return True
            return False
        ghosts = {"u64": reads_u64}
        b = Builder(ctx, needle, f"aggregate::ops::{ty}::update", ghosts, self_type=ty)
        E, q = b.E, ctx.q
        r = b.mk(oid, f"{ty}::update (segment tier): when ColumnValues::get_i64_at has no value for the row, the unsigned "
                      f"view (get_u64_at) is consulted before the row is skipped - a u64 field contributes to the metric "
                      f"exactly as it does on the memory tier")
        out.append(b.results[oid])
        if not r:
            continue
        g64 = oblig.events(E, r"ColumnValues::get_i64_at$")
        helper = [e for e in E.events if re.search(r"aggregate::ops::\w+$|ops::integer_at$|^integer_at$|::integer_at$", e.func)
                  and not re.search(r"ColumnValues::", e.func)]
        if not g64 and helper:
            # the cell read was factored into a helper of this module: decide the obligation there
            hname = helper[0].short.split("::")[-1]
            hb = Builder(ctx, f"aggregate-ops-{hname}.", f"aggregate::ops::{hname}", ghosts)
            if hb.E is None:
                r.status = "inconclusive"
                r.notes.append(f"helper {hname} not found in the dump: {hb.err}")
                continue
            E = hb.E
            r.functions.append(f"aggregate::ops::{hname} (callee)")
            g64 = oblig.events(E, r"ColumnValues::get_i64_at$")
        if not oblig.need_anchor(r, g64, "ColumnValues::get_i64_at"):
            continue
        r.nontrivial = True
        d = z3.BitVec(f"disc({g64[0].site})", 64)
        for (node, reach, env) in E.returns:
            res, model = q.check(reach, g64[0].reach, d == 0, z3.Not(env.get("@u64")), domain=E.domain)
            r.queries += 1
            if res == z3.sat:
                r.status = "violated"
                r.witness = {"what": f"{ty}::update skips the row when get_i64_at is None without trying get_u64_at: typed u64 "
                                     f"columns contribute nothing on the segment tier",
                             "span": f"{g64[0].span[0]}:{g64[0].span[1]}" if g64[0].span else None,
                             "call": g64[0].func[:80], "path": E.path_of_model(model), "model": oblig.model_summary(E, model)}
                if native_done is None:
                    binary = native_binary(ctx.log)
                    native_done = run_native(binary, ["aggu64", "41"]) if binary else (None, "native program did not build")
                r.witness["native"] = native_done[1]
                if native_done[0] != 3:
                    r.status = "inconclusive"
                    r.notes.append("native demonstration did not reproduce: " + str(native_done[1]))
                break
    out += simd_tail(ctx)
    return out


def simd_tail(ctx):
    """Sum / Avg::update_column_simd: in the scalar tail (rows after the last full SIMD chunk) a
    row contributes to sum and count only if its validity flag is set, as in the SIMD body"""
    res = []
    for oid, ty in (("B-2s", "Sum"), ("B-2a", "Avg")):
        b = Builder(ctx, "aggregate-ops-{impl#0}-update_column_simd.", f"aggregate::ops::{ty}::update_column_simd", {},
                    self_type=ty)
        # re-load with watched assignments
        if b.E is not None:
            E, err = ctx.load("aggregate-ops-{impl#0}-update_column_simd.", self_type=ty, watch=["count", "sum"])
            b.E = E
        E, q = b.E, ctx.q
        r = b.mk(oid, f"{ty}::update_column_simd, scalar tail: `sum` and `count` are advanced for a row only when "
                      f"`valid[i]` is true - NULL cells never reach the partial state")
        res.append(b.results[oid])
        if not r:
            continue
        idx = [e for e in E.events if re.search(r"Index<.*>>::index$", e.func) and e.args
               and isinstance(e.args[0], sym.Ref) and "valid" in E.local_names(e.args[0].place.local)
               and "Range" not in sym.describe(e.args[1])]
        tail = [e for e in E.events if e.func.startswith("assign(") and len(e.args) == 2
                and "reduce_sum" not in sym.describe(e.args[0]).replace(sym.describe(e.args[1]), "")
                and not (sym.is_term(e.args[0]) and z3.is_bv_value(e.args[0]))
                and any(i.layer == e.layer and i.bb < e.bb for i in idx)]
        if not oblig.need_anchor(r, idx, "valid[i] in the scalar tail") or not oblig.need_anchor(r, tail, "sum / count updates in the scalar tail"):
            continue
        r.nontrivial = True
        for ev in tail:
            r.anchors.append(f"{ev.short}@bb{ev.bb}.{ev.layer}")
            v = [i for i in idx if i.layer == ev.layer][-1]
            flag = E.sym(v.site, "bool")
            rr, model = q.check(ev.reach, z3.Not(flag), domain=E.domain)
            r.queries += 1
            if rr == z3.sat:
                oblig.violated(r, E, q, ev, model, f"{ev.short} in the scalar tail is reachable for a row whose validity flag is false")
                break
    return res
