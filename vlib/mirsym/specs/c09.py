"""C09 (Engine B part) - the segment-tier aggregators read every integer physical type.
`Sum/Avg/Min/Max::update(row, columns)` fetch the cell with `ColumnValues::get_i64_at`, which
answers None for a typed u64 column; the memory tier holds the same field as Int64 and counts it."""
import re

import z3

from .. import oblig, sym
from .flushspec import Builder, ghost
from .c17 import native_binary, run_native

FILTERS = []


def _scalar_alts(v, cond=None):
    """[(condition, kind, value)] of a ScalarValue built from aggregates / merges; kind 'call:<site>' for an opaque call"""
    cond = z3.BoolVal(True) if cond is None else cond
    if isinstance(v, sym.Agg):
        if re.search(r"Result::.*Ok$|::Ok$", v.tag) and v.fields:
            return _scalar_alts(v.fields[0], cond)
        m = re.search(r"ScalarValue::(\w+)$", v.tag)
        if m:
            return [(cond, m.group(1), v)]
        return [(cond, "other", v)]
    if isinstance(v, sym.Phi):
        out = []
        for c, x in v.alts:
            out += _scalar_alts(x, z3.And(cond, c))
        return out
    if isinstance(v, sym.Opaque):
        return [(cond, "call:" + v.label, v)]
    return [(cond, "other", v)]


def replay_memory_scope(ctx):
    """aggregates over two event types held in memory, then after FLUSH, on the real engine"""
    import json
    import shutil
    import tempfile
    from vlib import history
    binary = native_binary(ctx.log)
    if binary is None:
        return False, "native replay program did not build"
    root = tempfile.mkdtemp(prefix="verif-hist-")
    try:
        history.write_config(root, capacity=10, shards=1)
        qs = "QUERY a COUNT; QUERY a FOR c1 COUNT; QUERY a FOR c1 TOTAL n"
        script = ('DEFINE a FIELDS { "n": "int" }; DEFINE b FIELDS { "n": "int" }; STORE a FOR c1 PAYLOAD {"n": 1}; '
                  'STORE a FOR c2 PAYLOAD {"n": 2}; STORE b FOR c1 PAYLOAD {"n": 10}; !sleep 200; ' + qs +
                  '; FLUSH; !wait; !sleep 400; ' + qs)
        rc, out, err = history.run_lifetime(binary, root, script)
        vals = []
        for _i, o in out:
            if isinstance(o, str) and '"type":"end"' in o:
                for line in o.splitlines():
                    try:
                        j = json.loads(line)
                    except ValueError:
                        continue
                    if j.get("type") == "batch":
                        vals.append(j["rows"][0][-1])
        if len(vals) < 6:
            return False, f"aggregate answers not read ({vals})"
        text = (f"events a(c1, n=1), a(c2, n=2), b(c1, n=10). In memory: QUERY a COUNT = {vals[0]} (2 events of type a), QUERY a FOR c1 COUNT = "
                f"{vals[1]} (1 selected), QUERY a FOR c1 TOTAL n = {vals[2]} (sum 1). After FLUSH: {vals[3]}, {vals[4]}, {vals[5]}")
        return tuple(vals[:3]) != (2, 1, 1) or tuple(vals[3:6]) != (2, 1, 1), text
    finally:
        shutil.rmtree(root, ignore_errors=True)


def memory_scope(ctx):
    """the evaluator the memory tier builds must keep the query's event type / context / time conditions"""
    out = []
    r = oblig.Result("B-4", "the row filter built from a query plan (used by the memtable scan and by the segment runners) always contains "
                            "the query's own scope conditions - event type, FOR <context>, SINCE - also for aggregate queries: without "
                            "them COUNT / TOTAL / ... fold over events the query did not select (a memtable holds every event type and "
                            "context of the shard, a zone every context)")
    r.functions = []
    r.bounds = "every path of the builder function(s) the memtable sources call"
    out.append(r)
    q = ctx.q
    callers = [("operators-memtable_source-{impl#2}-run-{closure#0}.", "MemTableSource::run"),
               ("read-memtable_query-{impl#0}-", "MemTableQueryRunner")]
    builders = set()
    for needle, label in callers:
        for f in ctx.find(needle):
            try:
                txt = open(f).read()
            except OSError:
                continue
            for m in re.finditer(r"ConditionEvaluatorBuilder::(\w+)\(", txt):
                if m.group(1) not in ("new", "into_evaluator"):
                    builders.add(m.group(1))
    if not builders:
        r.status = "inconclusive"
        r.notes.append("the memtable sources do not build a ConditionEvaluator through ConditionEvaluatorBuilder")
        return out
    r.nontrivial = True
    for name in sorted(builders):
        b = Builder(ctx, f"filter-condition_evaluator_builder-{{impl#0}}-{name}.", f"ConditionEvaluatorBuilder::{name}", {})
        r.functions.append(f"ConditionEvaluatorBuilder::{name}")
        if b.E is None:
            r.status = "inconclusive"
            r.notes.append(b.err)
            return out
        E = b.E
        done = oblig.events(E, r"ConditionEvaluatorBuilder::into_evaluator$")
        special = oblig.events(E, r"ConditionEvaluatorBuilder::add_special_fields$")
        if not done:
            continue
        sp = z3.Or([e.reach for e in special]) if special else z3.BoolVal(False)
        for d in done:
            res, model = q.check(d.reach, z3.Not(sp), domain=E.domain)
            r.queries += 1
            if res == z3.sat:
                ok, text = replay_memory_scope(ctx)
                r.witness = {"what": f"ConditionEvaluatorBuilder::{name}, which the memtable scan uses, finishes without add_special_fields on some path "
                                     "(aggregation plans): aggregates then fold over events of other contexts / times, and in memory of other event types - " + text,
                             "span": f"{d.span[0]}:{d.span[1]}" if d.span else None, "call": f"ConditionEvaluatorBuilder::{name}",
                             "path": E.path_of_model(model)[-8:], "model": {}, "native": text}
                r.status = "violated" if ok else "inconclusive"
                if not ok:
                    r.notes.append("the scope conditions can be skipped but the end-to-end replay shows correct aggregates: " + text)
                return out
    return out


def merged_min_max(ctx):
    """the coordinator's finalisation of a merged MIN / MAX state prefers the number, like Min / Max::finalize"""
    needle = "merge-aggregate_stream-{impl#0}-agg_state_to_scalar."
    b = Builder(ctx, needle, "AggregateStreamMerger::agg_state_to_scalar", {})
    E, q = b.E, ctx.q
    r = b.mk("B-3", "AggregateStreamMerger::agg_state_to_scalar: a merged MIN / MAX state that holds a numeric extreme is reported as that "
                    "number, whether or not it also holds a string extreme (flows that saw only nulls contribute an empty string) - "
                    "the same precedence Min / Max::finalize use, so the answer does not depend on how the events were split")
    out = [b.results["B-3"]]
    if not r:
        return out
    if not E.returns:
        r.status = "inconclusive"
        r.notes.append("no return")
        return out
    r.nontrivial = True
    alts = []
    for (_n, reach, env) in E.returns:
        alts += _scalar_alts(env.get(0), reach)
    seen_arms = set()
    state_disc = z3.BitVec("disc(arg:state)", 64)
    for arm in ("Min", "Max"):
        num = z3.BitVec(f"disc(arg:state:{arm}.0)", 64)
        vi = E.structs.variant_index(f"AggState::{arm}")
        if vi is None:
            r.status = "inconclusive"
            r.notes.append("AggState variants not found in the source")
            return out
        in_arm = state_disc == vi
        st = []
        for (c, k, v) in alts:
            res, _ = q.check(c, in_arm, domain=E.domain)
            r.queries += 1
            if res == z3.sat and k != "other":
                st.append((z3.And(c, in_arm), k, v))
        for c, k, v in st:
            seen_arms.add(arm)
            if k.startswith("call:"):
                # finalisation delegated to a helper of the same impl: decide it there
                site = k[5:]
                call = [e for e in E.events if e.site == site]
                name = re.sub(r"#\d+.*$", "", site).split("::")[-1]
                hb = Builder(ctx, f"merge-aggregate_stream-{{impl#0}}-{name}.", f"AggregateStreamMerger::{name}", {})
                if hb.E is None or not call or not hb.E.returns:
                    r.status = "inconclusive"
                    r.notes.append(f"{arm}: finalisation delegated to {name}, whose body was not found")
                    return out
                a0 = sym.describe(call[0].args[0]) if call[0].args else ""
                if f"arg:state:{arm}.0" not in a0 and not re.search(rf"'{arm}'\)\('field', 0", a0) \
                        and f"{arm.lower()}_num" not in " ".join(E.trace(call[0].args[0], call[0].env, depth=4)):
                    r.status = "inconclusive"
                    r.notes.append(f"{arm}: first argument of {name} is not the numeric extreme ({a0[:60]})")
                    return out
                H = hb.E
                first = [n for n in H.fn.debug if f"_{H.fn.args[0]}" in H.fn.debug[n]] if H.fn.args else []
                hnum = z3.BitVec(f"disc(arg:{first[0] if first else 'num'})", 64)
                halts = []
                for (_n2, reach2, env2) in H.returns:
                    halts += _scalar_alts(env2.get(0), reach2)
                for c2, k2, _v2 in halts:
                    if k2 != "Int64":
                        res, model = q.check(c2, hnum == 1, domain=H.domain)
                        r.queries += 1
                        if res == z3.sat:
                            r.status = "violated"
                            r.witness = {"what": f"{arm}: {name} reports a {k2} value although the merged state holds a numeric extreme "
                                                 "(e.g. one flow saw only nulls and contributed an empty string): the answer depends on the split",
                                         "span": None, "call": f"AggregateStreamMerger::{name}", "path": [], "model": {}}
                            return out
                continue
            if k != "Int64":
                res, model = q.check(c, num == 1, domain=E.domain)
                r.queries += 1
                if res == z3.sat:
                    r.status = "violated"
                    r.witness = {"what": f"{arm}: a {k} value is reported although the merged state holds a numeric extreme",
                                 "span": None, "call": "agg_state_to_scalar", "path": E.path_of_model(model)[-8:], "model": {}}
                    return out
            else:
                # the number reported is the state's numeric extreme
                src = E.trace(v.fields[0], E.returns[0][2], depth=4) | {sym.describe(v.fields[0])} if v.fields else set()
                if not any(f"arg:state:{arm}.0" in x for x in src):
                    r.status = "violated"
                    r.witness = {"what": f"{arm}: the number reported is not the state's numeric extreme ({sorted(src)[:3]})",
                                 "span": None, "call": "agg_state_to_scalar", "path": [], "model": {}}
                    return out
    if seen_arms != {"Min", "Max"}:
        r.status = "inconclusive"
        r.notes.append(f"MIN / MAX arms not both recognised: {sorted(seen_arms)}")
    return out


GETTER = r"(ColumnValues::get_(?:u64|i64|f64|str|bool)_at#\d+(?:@L\d+)?)"


def prehash_nulls(ctx):
    """the columnar grouped path partitions rows by this prehash alone: a null cell must not hash like a value"""
    b = Builder(ctx, "sink-aggregate-group_key-{impl#2}-compute_prehash_from_columns.", "GroupKey::compute_prehash_from_columns", {})
    E, q = b.E, ctx.q
    r = b.mk("B-5", "GroupKey::compute_prehash_from_columns: whatever is hashed for a group-by cell is the payload of a Some(..) "
                    "answer of one of the column's typed getters, hashed only on paths on which that getter answered Some; a cell "
                    "for which every getter answered None is hashed as the None marker - so a NULL cell never shares a prehash "
                    "(and with it a group) with a stored value such as 0")
    out = [b.results["B-5"]]
    if not r:
        return out
    hashes = [e for e in oblig.events(E, r"Hash>?::hash(::<.*>)?$") if e.args]
    getters = oblig.events(E, r"ColumnValues::get_(u64|i64|f64|str|bool)_at$")
    if not oblig.need_anchor(r, hashes, "Hash::hash calls") or not oblig.need_anchor(r, getters, "typed getters"):
        return out
    loop_getters = {g.dest_label for g in getters if g.args and "row_idx" in sym.describe(g.args[-1])}
    checked = 0
    for e in hashes:
        v = e.args[0]
        if isinstance(v, sym.Ref):
            v, _ty = E.read_place(e.env, v.place)
        text = " ".join(E.trace(v, e.env, depth=8) | {sym.describe(v)})
        if "bucket_of" in text or re.search(r"const:.*None|Option::<i64>::None", text) or not re.search(r"get_\w+_at|unwrap", text):
            continue                       # the time bucket / the explicit None marker / hasher plumbing
        used = set(re.findall(GETTER + r":Some\.0", text))
        loose = re.search(r"unwrap_or|unwrap_or_default|unwrap_or_else", text)
        if loose or not used:
            r.status = "violated"
            r.witness = {"what": "a group-by cell is hashed from a getter result with a default substituted for None "
                                 f"({loose.group(0) if loose else 'no Some(..) payload'}): a NULL cell gets the prehash of the default value and "
                                 "the columnar grouped path merges the two groups",
                         "span": f"{e.span[0]}:{e.span[1]}" if e.span else None, "call": "Hash::hash", "path": [], "model": {}}
            return out
        for g in used:
            res, model = q.check(e.reach, z3.BitVec(f"disc({g})", 64) == 0, domain=E.domain)
            r.queries += 1
            checked += 1
            if res == z3.sat:
                r.status = "violated"
                r.witness = {"what": f"a payload of {g} is hashed on a path on which that getter answered None",
                             "span": f"{e.span[0]}:{e.span[1]}" if e.span else None, "call": "Hash::hash",
                             "path": E.path_of_model(model)[-8:], "model": {}}
                return out
    r.nontrivial = checked >= 3
    if checked < 3:
        r.status = "inconclusive"
        r.notes.append(f"only {checked} hashed getter payloads recognised")
    return out


def bucket_restore(ctx):
    """shards send partial aggregate rows; the coordinator restores the PER bucket of each row with scalar_to_u64 before
    merging - a bucket that is not restored becomes the NULL group"""
    b = Builder(ctx, "merge-aggregate_stream-{impl#0}-scalar_to_u64.", "AggregateStreamMerger::scalar_to_u64", {})
    E, q = b.E, ctx.q
    r = b.mk("B-6", "AggregateStreamMerger::scalar_to_u64 (restores the PER bucket of a shard's partial row at the coordinator): every "
                    "non-negative Int64 / Timestamp - including 0, the first bucket since the epoch - is returned as Some(that value); "
                    "None only for negative numbers")
    out = [b.results["B-6"]]
    if not r:
        return out
    if not E.returns:
        r.status = "inconclusive"
        r.notes.append("no return")
        return out
    r.nontrivial = True
    vd = z3.BitVec("disc(arg:value)", 64)
    for variant in ("Int64", "Timestamp"):
        vi = E.structs.variant_index(f"ScalarValue::{variant}")
        x = E.sym(f"arg:value:{variant}.0", "i64")
        if vi is None or x is None:
            r.status = "inconclusive"
            r.notes.append(f"ScalarValue::{variant} not resolved")
            return out
        seen = False
        for (_n, reach, env) in E.returns:
            d = E.disc_term(env.get(0))
            if d is None:
                r.status = "inconclusive"
                r.notes.append("return discriminant not resolved")
                return out
            res, model = q.check(reach, vd == vi, x >= 0, d == 0, domain=E.domain)
            r.queries += 1
            if res == z3.sat:
                val = model.eval(x, model_completion=True).as_signed_long()
                r.status = "violated"
                r.witness = {"what": f"scalar_to_u64({variant}({val})) is None: the partial rows of that PER bucket are merged into the NULL-bucket group "
                                     "at the coordinator",
                             "span": None, "call": "scalar_to_u64", "path": E.path_of_model(model)[-6:], "model": {"value": str(val)}}
                return out
            res2, _ = q.check(reach, vd == vi, x >= 0, d == 1, domain=E.domain)
            r.queries += 1
            seen = seen or res2 == z3.sat
        if not seen:
            r.status = "inconclusive"
            r.notes.append(f"no Some(..) return reachable for {variant}")
            return out
    return out


def obligations(ctx):
    out = []
    out += bucket_restore(ctx)
    out += prehash_nulls(ctx)
    native_done = None
    for oid, ty in (("B-1s", "Sum"), ("B-1a", "Avg"), ("B-1n", "Min"), ("B-1x", "Max")):
        needle = "aggregate-ops-{impl#0}-update."
        def reads_u64(ev, E_):
            if re.search(r"ColumnValues::get_u64_at$", ev.func):
                return True
            # `get_i64_at(..).or_else(|| col.get_u64_at(..))`: the fallback lives in the closure
            m = re.search(r"Option::<.*>::or_else::<\{closure@([^\}]+)\}", ev.func)
            if m:
                span = m.group(1).split(" ")[0]
                for f in ctx.find("aggregate-ops-"):
                    if "{closure#" in f:
                        txt = open(f, errors="replace").read()
                        if span in txt[:800] and re.search(r"ColumnValues::get_u64_at\(", txt):
                            return True
            return False
        ghosts = {"u64": reads_u64}
        b = Builder(ctx, needle, f"aggregate::ops::{ty}::update", ghosts, self_type=ty)
        E, q = b.E, ctx.q
        r = b.mk(oid, f"{ty}::update (segment tier): when ColumnValues::get_i64_at has no value for the row, the unsigned "
                      f"view (get_u64_at) is consulted before the row is skipped - a u64 field contributes to the metric "
                      f"exactly as it does on the memory tier")
        out.append(b.results[oid])
        if not r:
            continue
        g64 = oblig.events(E, r"ColumnValues::get_i64_at$")
        helper = [e for e in E.events if re.search(r"aggregate::ops::\w+$|ops::integer_at$|^integer_at$|::integer_at$", e.func)
                  and not re.search(r"ColumnValues::", e.func)]
        if not g64 and helper:
            # the cell read was factored into a helper of this module: decide the obligation there
            hname = helper[0].short.split("::")[-1]
            hb = Builder(ctx, f"aggregate-ops-{hname}.", f"aggregate::ops::{hname}", ghosts)
            if hb.E is None:
                r.status = "inconclusive"
                r.notes.append(f"helper {hname} not found in the dump: {hb.err}")
                continue
            E = hb.E
            r.functions.append(f"aggregate::ops::{hname} (callee)")
            g64 = oblig.events(E, r"ColumnValues::get_i64_at$")
        if not oblig.need_anchor(r, g64, "ColumnValues::get_i64_at"):
            continue
        r.nontrivial = True
        d = z3.BitVec(f"disc({g64[0].site})", 64)
        for (node, reach, env) in E.returns:
            res, model = q.check(reach, g64[0].reach, d == 0, z3.Not(env.get("@u64")), domain=E.domain)
            r.queries += 1
            if res == z3.sat:
                r.status = "violated"
                r.witness = {"what": f"{ty}::update skips the row when get_i64_at is None without trying get_u64_at: typed u64 "
                                     f"columns contribute nothing on the segment tier",
                             "span": f"{g64[0].span[0]}:{g64[0].span[1]}" if g64[0].span else None,
                             "call": g64[0].func[:80], "path": E.path_of_model(model), "model": oblig.model_summary(E, model)}
                if native_done is None:
                    binary = native_binary(ctx.log)
                    native_done = run_native(binary, ["aggu64", "41"]) if binary else (None, "native program did not build")
                r.witness["native"] = native_done[1]
                if native_done[0] != 3:
                    r.status = "inconclusive"
                    r.notes.append("native demonstration did not reproduce: " + str(native_done[1]))
                break
    out += simd_tail(ctx)
    out += merged_min_max(ctx)
    out += memory_scope(ctx)
    return out


def simd_tail(ctx):
    """Sum / Avg::update_column_simd: in the scalar tail (rows after the last full SIMD chunk) a
    row contributes to sum and count only if its validity flag is set, as in the SIMD body"""
    res = []
    for oid, ty in (("B-2s", "Sum"), ("B-2a", "Avg")):
        b = Builder(ctx, "aggregate-ops-{impl#0}-update_column_simd.", f"aggregate::ops::{ty}::update_column_simd", {},
                    self_type=ty)
        # re-load with watched assignments
        if b.E is not None:
            E, err = ctx.load("aggregate-ops-{impl#0}-update_column_simd.", self_type=ty, watch=["count", "sum"])
            b.E = E
        E, q = b.E, ctx.q
        r = b.mk(oid, f"{ty}::update_column_simd, scalar tail: `sum` and `count` are advanced for a row only when "
                      f"`valid[i]` is true - NULL cells never reach the partial state")
        res.append(b.results[oid])
        if not r:
            continue
        idx = [e for e in E.events if re.search(r"Index<.*>>::index$", e.func) and e.args
               and isinstance(e.args[0], sym.Ref) and "valid" in E.local_names(e.args[0].place.local)
               and "Range" not in sym.describe(e.args[1])]
        tail = [e for e in E.events if e.func.startswith("assign(") and len(e.args) == 2
                and "reduce_sum" not in sym.describe(e.args[0]).replace(sym.describe(e.args[1]), "")
                and not (sym.is_term(e.args[0]) and z3.is_bv_value(e.args[0]))
                and any(i.layer == e.layer and i.bb < e.bb for i in idx)]
        if not oblig.need_anchor(r, idx, "valid[i] in the scalar tail") or not oblig.need_anchor(r, tail, "sum / count updates in the scalar tail"):
            continue
        r.nontrivial = True
        for ev in tail:
            r.anchors.append(f"{ev.short}@bb{ev.bb}.{ev.layer}")
            v = [i for i in idx if i.layer == ev.layer][-1]
            flag = E.sym(v.site, "bool")
            rr, model = q.check(ev.reach, z3.Not(flag), domain=E.domain)
            r.queries += 1
            if rr == z3.sat:
                oblig.violated(r, E, q, ev, model, f"{ev.short} in the scalar tail is reachable for a row whose validity flag is false")
                break
    return res
