"""Obligations over segment-id allocation (C05, C11): the compaction policy gives every merge plan
its own freshly allocated output id, and RangeAllocator::next_for_level hands out, per level,
strictly increasing ids inside that level's range."""
import re

import z3

from .. import oblig, sym
from ..oblig import Result
from .flushspec import Builder
from .c17 import native_binary, run_native
from .indexkeyspec import _free_vars, _summary, SLV

PLAN = "compaction-policy-{impl#1}-plan."
NFL = "range_allocator-{impl#1}-next_for_level."


def plan_output_ids(ctx):
    b = Builder(ctx, PLAN, "KWayCountPolicy::plan", {})
    E, q = b.E, ctx.q
    r = b.mk("fresh-output-id", "every MergePlan the policy emits carries an output_segment_id that is the direct result of "
             "its own RangeAllocator::next_for_level call for the plan's level_to (no two plans share one allocation, "
             "none reuses a stored id), and level_to = level_from + 1")
    if not r:
        return b.results
    pushes = oblig.events(E, r"Vec::<.*MergePlan>::push$")
    allocs = {e.site: e for e in oblig.events(E, r"RangeAllocator::next_for_level$")}
    if not oblig.need_anchor(r, pushes, "Vec<MergePlan>::push in KWayCountPolicy::plan"):
        return b.results
    r.nontrivial = True
    used = {}
    for ev in pushes:
        r.anchors.append(f"{ev.short}@bb{ev.bb}.{ev.layer}")
        plan = ev.args[1] if len(ev.args) > 1 else None
        span = f"{ev.span[0]}:{ev.span[1]}" if ev.span else None
        out = plan.field("output_segment_id") if isinstance(plan, sym.Agg) else None
        if out is None:
            r.status = "inconclusive"
            r.notes.append("pushed MergePlan is not a visible aggregate")
            return b.results
        if not isinstance(out, sym.Opaque) or out.label not in allocs:
            r.status = "violated"
            r.witness = {"what": "a merge plan's output_segment_id is not the direct result of a RangeAllocator::next_for_level "
                                 f"call made for this plan: {sym.describe(out)[:120]} (derives from: "
                                 f"{sorted(E.trace(out, ev.env, depth=12))[:8]})",
                         "span": span, "call": ev.func[:120], "path": [], "model": {}}
            return b.results
        if out.label in used:
            r.status = "violated"
            r.witness = {"what": f"two merge plans share one allocation {out.label}", "span": span, "call": ev.func[:120],
                         "path": [], "model": {}}
            return b.results
        used[out.label] = ev
        al = allocs[out.label]
        lt = E.to_term(plan.field("level_to"), "u32")
        lf = E.to_term(plan.field("level_from"), "u32")
        la = E.to_term(al.args[1], "u32") if len(al.args) > 1 else None
        if lt is None or lf is None or la is None:
            r.status = "inconclusive"
            r.notes.append("plan levels are not integer terms")
            return b.results
        # first without the path condition (the terms are usually equal outright), then under it
        res, model = q.check(z3.Or(lt != la, lt != lf + 1))
        r.queries += 1
        if res != z3.unsat:
            res, model = q.check(ev.reach, z3.Or(lt != la, lt != lf + 1))
            r.queries += 1
        if res == z3.sat:
            r.status = "violated"
            r.witness = {"what": "a merge plan's output id is allocated for a level other than its level_to, or level_to != level_from + 1",
                         "span": span, "call": ev.func[:120], "path": [],
                         "model": {}}
            return b.results
        if res != z3.unsat:
            r.status = "inconclusive"
            r.notes.append("solver returned unknown")
            return b.results
    return b.results


def allocator_step(ctx):
    """one step of next_for_level from an arbitrary allocator state"""
    b = Builder(ctx, NFL, "RangeAllocator::next_for_level", {})
    E, q = b.E, ctx.q
    r = b.mk("allocator-step", "RangeAllocator::next_for_level(level) from any state with stored offset o < LEVEL_SPAN - 1: returns an id "
             "whose level is `level`, stores a strictly larger offset for that same level, so the next id of the level is "
             "strictly larger and still distinct from every id of another level")
    if not r:
        return b.results
    r.bounds = "loop-free; level < 2^32 / LEVEL_SPAN - 1 (no saturation), offset symbolic over u32; machine arithmetic decided through the mod-2^32 integer encoding; HashMap::entry / or_insert opaque (the slot of `level`)"
    ent = oblig.events(E, r"HashMap::<u32, u32>::entry$")
    slot = oblig.events(E, r"Entry::<'_, u32, u32>::or_insert$|Entry::or_insert$")
    st = oblig.events(E, r"^store\(\*next_off\)$")
    sl = _summary(ctx, SLV, "SegmentId::level")
    if not (oblig.need_anchor(r, ent, "HashMap::entry(level)") and oblig.need_anchor(r, slot, "Entry::or_insert(0)")
            and oblig.need_anchor(r, st, "store through next_off")) or sl is None or not E.returns:
        if r.status == "holds":
            r.status = "inconclusive"
            r.notes.append("summary of SegmentId::level not available")
        return b.results
    r.nontrivial = True
    level = E.sym("arg:level", "u32")
    if sym.describe(ent[0].args[1]) != "arg:level" or sym.describe(slot[0].args[0]) != "HashMap::entry#0":
        r.status = "violated"
        r.witness = {"what": "the offset slot used is not the entry of the requested level", "span": None,
                     "call": "RangeAllocator::next_for_level", "path": [], "model": {}}
        return b.results
    old = E.sym(slot[0].site, "u32")
    ret = E.to_term(E.returns[0][2].get(0), "u32")
    new = E.to_term(st[0].args[0], "u32")
    ptr_ok = sym.describe(st[0].args[1]) == slot[0].site
    fv = _free_vars(sl[1])
    if ret is None or new is None or not ptr_ok or len(fv) != 1:
        r.status = "inconclusive"
        r.notes.append("return value / stored offset are not closed integer terms of (level, old offset)")
        return b.results
    idv = list(fv.values())[0]
    lvl_of = lambda t: z3.substitute(sl[1], (idv, t))
    span_c = sym.crate_consts().get(("engine::core::segment::segment_id", "LEVEL_SPAN"))
    if span_c is None:
        r.status = "inconclusive"
        r.notes.append("LEVEL_SPAN not found in the source")
        return b.results
    SPAN = z3.BitVecVal(span_c[0], 32)
    maxlvl = z3.BitVecVal((1 << 32) // span_c[0] - 1, 32)
    pre = [z3.ULT(level, maxlvl), z3.ULT(old, SPAN - 1)]
    ret2 = z3.substitute(ret, (old, new))            # the id the next call for this level returns
    bad = z3.Or(lvl_of(ret) != level, z3.Not(z3.UGT(new, old)), z3.Not(z3.UGT(ret2, ret)), lvl_of(ret2) != level)
    res, model = oblig.int_check(q, *pre, bad)
    r.queries += 1
    if res == z3.sat:
        r.status = "violated"
        lv, ov = model.get(str(level), 0), model.get(str(old), 0)
        r.witness = {"what": f"next_for_level({lv}) with stored offset {ov} returns id {oblig.eval_bv(ret, model)} "
                             f"(level {oblig.eval_bv(lvl_of(ret), model)}) and stores offset {oblig.eval_bv(new, model)}",
                     "span": f"{st[0].span[0]}:{st[0].span[1]}" if st[0].span else None,
                     "call": "RangeAllocator::next_for_level", "path": [], "model": {"level": str(lv), "offset": str(ov)}}
        binary = native_binary(ctx.log)
        rc, line = run_native(binary, ["allocstep", str(lv), str(ov)]) if binary else (2, "native replay program did not build")
        r.witness["native"] = line
        if rc != 3:
            r.status = "inconclusive"
            r.notes.append("counterexample did not reproduce on the real RangeAllocator: " + line)
    elif res != z3.unsat:
        r.status = "inconclusive"
        r.notes.append("solver returned unknown")

    # the level's range is finite: offset LEVEL_SPAN - 1 is the last id of the level; the id after it belongs to the
    # next level. This is the region carved out above; decided separately so that it is reported, not hidden.
    r2 = b.mk("allocator-range", "the id next_for_level(level) returns stays inside the level's range [level*LEVEL_SPAN, (level+1)*LEVEL_SPAN) "
              "for every stored offset, i.e. a level never hands out an id that belongs to the next level")
    r2.bounds = r.bounds.replace("offset symbolic over u32", "offset symbolic over the full u32 range")
    r2.nontrivial = True
    res, model = oblig.int_check(q, z3.ULT(level, maxlvl), lvl_of(ret) != level)
    r2.queries += 1
    if res == z3.sat:
        # smallest offset that leaves the range, for level 0 (the flush path)
        res0, m0 = oblig.int_check(q, level == 0, lvl_of(ret) != level, z3.ULE(old, SPAN))
        r2.queries += 1
        if res0 == z3.sat:
            model = m0
        lv, ov = model.get(str(level), 0), model.get(str(old), 0)
        r2.status = "violated"
        r2.witness = {"what": f"after {ov} allocations at level {lv}, next_for_level({lv}) returns id {oblig.eval_bv(ret, model)}, "
                              f"which is the id range of level {oblig.eval_bv(lvl_of(ret), model)}: a flush (level 0) or merge output "
                              "can be given the id of an existing segment of the next level",
                      "span": f"{st[0].span[0]}:{st[0].span[1]}" if st[0].span else None,
                      "call": "RangeAllocator::next_for_level", "path": [], "model": {"level": str(lv), "offset": str(ov)}}
        binary = native_binary(ctx.log)
        rc, line = run_native(binary, ["allocstep", str(lv), str(ov)]) if binary else (2, "native replay program did not build")
        r2.witness["native"] = line
        if rc != 3:
            r2.status = "inconclusive"
            r2.notes.append("counterexample did not reproduce on the real RangeAllocator: " + line)
    elif res != z3.unsat:
        r2.status = "inconclusive"
        r2.notes.append("solver returned unknown")
    return b.results


def allocator_seed(ctx):
    """from_existing_ids: after a directory name was processed, the stored next offset of its level
    is above that name's offset - so the first id handed out after a restart is new"""
    b = Builder(ctx, "range_allocator-{impl#1}-from_existing_ids.", "RangeAllocator::from_existing_ids", {})
    E, q = b.E, ctx.q
    r = b.mk("allocator-seed", "RangeAllocator::from_existing_ids: for every directory name it is given, the next offset stored for the "
             "name's level ends up greater than the name's own offset (it is raised to offset + 1 unless it is already larger), so "
             "next_for_level never returns an id that already exists at start-up")
    if not r:
        return b.results
    r.bounds = f"one loop iteration from an arbitrary map state (loop unrolled {ctx.k}x, each iteration checked); HashMap get / insert opaque"
    ins = oblig.events(E, r"HashMap::<u32, u32>::insert$")
    gets = oblig.events(E, r"HashMap::<u32, u32>::get|HashMap::get")
    unw = oblig.events(E, r"Option::<u32>::unwrap_or$|Option::unwrap_or$")
    parses = oblig.events(E, r"SegmentId::from_str$")
    if not (oblig.need_anchor(r, ins, "HashMap::insert") and oblig.need_anchor(r, unw, "get(..).copied().unwrap_or(0)")
            and oblig.need_anchor(r, parses, "SegmentId::from_str")):
        return b.results
    span_c = sym.crate_consts().get(("engine::core::segment::segment_id", "LEVEL_SPAN"))
    if span_c is None:
        r.status = "inconclusive"
        r.notes.append("LEVEL_SPAN not found")
        return b.results
    r.nontrivial = True
    for ev in ins:
        same = [u for u in unw if u.layer == ev.layer]
        par = [p_ for p_ in parses if p_.layer == ev.layer]
        if not same or not par or len(ev.args) < 3:
            r.status = "inconclusive"
            r.notes.append("iteration structure not recognised")
            return b.results
        nxt = E.sym(same[0].site, "u32")
        idv = E.sym(par[0].site + ":Some.0.id", "u32")
        cand = E.to_term(ev.args[2], "u32")
        lvl = sym.describe(ev.args[1])
        if cand is None or not re.match(r"SegmentId::level#\d+", lvl) or sym.describe(same[0].args[1]) != "0":
            r.status = "violated"
            r.witness = {"what": "the value stored is not keyed by the name's level / the default offset is not 0",
                         "span": f"{ev.span[0]}:{ev.span[1]}" if ev.span else None, "call": ev.func[:80], "path": [], "model": {}}
            return b.results
        # head of this iteration = the parse succeeded
        head = z3.And(par[0].reach, z3.BitVec(f"disc({par[0].site})", 64) == 1)
        off = z3.URem(idv, z3.BitVecVal(span_c[0], 32))
        try:
            # (a) what is inserted is offset + 1; (b) afterwards the stored offset exceeds the name's offset
            res, model = oblig.int_check(q, ev.reach, cand != off + 1)
            r.queries += 1
            after = z3.If(ev.reach, cand, nxt)
            res2, model2 = oblig.int_check(q, head, z3.ULE(after, off))
            r.queries += 1
        except oblig.IntEncodingError as e:
            r.status = "inconclusive"
            r.notes.append(f"not encodable: {e}")
            return b.results
        for rs, md, what in ((res, model, "the offset stored for a name is not its own offset + 1"),
                             (res2, model2, "after a name was processed the stored next offset of its level is not above the name's offset: "
                                            "next_for_level can hand out an id that already exists")):
            if rs == z3.sat:
                r.status = "violated"
                r.witness = {"what": what + f" (id {md.get(str(idv), 0)}, stored before {md.get(str(nxt), 0)})",
                             "span": f"{ev.span[0]}:{ev.span[1]}" if ev.span else None, "call": ev.func[:80], "path": [],
                             "model": {k: str(v) for k, v in md.items() if "disc(" not in k}}
                return b.results
            if rs != z3.unsat:
                r.status = "inconclusive"
                r.notes.append("solver returned unknown")
                return b.results
    return b.results



def allocator_seed_input(ctx):
    """ShardContext::new: the restart allocator is seeded from the whole directory scan - every level keeps its own
    counter, so every existing id has to be seen, not just the largest name"""
    b = Builder(ctx, "shard-context-{impl#0}-new.", "ShardContext::new", {})
    E, q = b.E, ctx.q
    r = b.mk("allocator-seed-input", "ShardContext::new: RangeAllocator::from_existing_ids is fed an iteration over the complete list "
             "SegmentIdLoader::load returned (every level has its own counter) - not a single element (last / first / max) or a "
             "filtered part of it, which would leave the counters of the other levels at 0 and hand out ids of published segments")
    if not r:
        return b.results
    seeds = oblig.events(E, r"RangeAllocator::from_existing_ids")
    loads = oblig.events(E, r"SegmentIdLoader::load$")
    if not oblig.need_anchor(r, seeds, "RangeAllocator::from_existing_ids in ShardContext::new") or \
            not oblig.need_anchor(r, loads, "SegmentIdLoader::load"):
        return b.results
    r.nontrivial = True
    for e in seeds:
        res, _ = q.check(e.reach, domain=E.domain)
        r.queries += 1
        if res != z3.sat:
            continue
        src = " ".join(E.trace(e.args[0], e.env, depth=12) | {sym.describe(e.args[0])}) if e.args else ""
        narrowed = re.search(r"::(last|first|get|max|min|max_by\w*|min_by\w*|pop|nth|take|skip|filter\w*|find\w*|split_\w+|as_deref)\b", src)
        whole = re.search(r"slice::iter|IntoIterator::into_iter|Vec::(<.*>::)?iter", src) and "SegmentIdLoader::load" in " ".join(
            E.trace(e.args[0], e.env, depth=16)) if e.args else False
        if narrowed or not whole:
            r.status = "violated"
            r.witness = {"what": "the restart allocator is seeded from " + (f"one part of the directory scan (`{narrowed.group(1)}`)" if narrowed else
                                 "something other than an iteration over the directory scan")
                                 + ": levels whose ids are not in it restart at offset 0 and the next flush / compaction at that level "
                                   "is handed the id of a published segment",
                         "span": f"{e.span[0]}:{e.span[1]}" if e.span else None, "call": "RangeAllocator::from_existing_ids", "path": [], "model": {}}
            return b.results
    return b.results
