"""C12 - all events of a context live on one shard; unscoped reads cover all shards.
The guard / data-flow facts of routing and fan-out that Engine B can state."""
import re

import z3

from .. import oblig, sym
from .flushspec import Builder, ghost

FILTERS = []


def obligations(ctx):
    out = []
    q = ctx.q
    # ---- B-1 routing function
    b = Builder(ctx, "shard-manager-{impl#0}-get_shard.", "ShardManager::get_shard", {})
    E = b.E
    r = b.mk("B-1", "get_shard: the shard index is `hash(context_id) % shards.len()` where the hasher is "
                    "DefaultHasher::new() (fixed keys: the same context id hashes identically in every process lifetime) "
                    "and nothing but the context id is fed to it")
    out.append(b.results["B-1"])
    if r:
        new = oblig.events(E, r"DefaultHasher::new$")
        fin = oblig.events(E, r"Hasher>::finish$|DefaultHasher::finish$")
        hashed = oblig.events(E, r"as Hash>::hash::<|Hash>::hash")
        idx = oblig.events(E, r"Index<.*>>::index$|index::<")
        lens = oblig.events(E, r"Vec::<.*>::len$")
        if oblig.need_anchor(r, new, "DefaultHasher::new") and oblig.need_anchor(r, fin, "Hasher::finish") and \
                oblig.need_anchor(r, hashed, "Hash::hash(context_id)") and oblig.need_anchor(r, lens, "shards.len()"):
            r.nontrivial = True
            bad = [e for e in E.events if re.search(r"RandomState|thread_rng|SystemTime|Instant::now", e.func)]
            if bad:
                r.status = "violated"
                r.witness = {"what": f"routing depends on a per-process / time-dependent source: {bad[0].short}", "span": None,
                             "call": bad[0].func[:100], "path": [], "model": {}}
            elif len(hashed) != 1 or "arg:context_id" not in " ".join(E.trace(hashed[0].args[0], hashed[0].env, depth=3) | {sym.describe(hashed[0].args[0])}):
                r.status = "violated"
                r.witness = {"what": "the hasher is not fed exactly the context id", "span": None,
                             "call": ";".join(sym.describe(h.args[0]) for h in hashed)[:200], "path": [], "model": {}}
            else:
                # the index used: finish() as usize % len
                f = E.sym(fin[0].site, "u64")
                ln = E.sym(lens[0].site, "usize")
                target = None
                for e in E.events:
                    if re.search(r"index", e.func, re.I) and len(e.args) > 1 and sym.is_term(e.args[1]):
                        target = e
                if target is None:
                    # indexing of a Vec by usize lowers to a bounds-checked projection: find the Rem result
                    rem = None
                    for (node, reach, env) in E.returns:
                        v = E.var_term(env, "shard_id")
                        rem = v if v is not None else rem
                    if rem is None:
                        r.status = "inconclusive"
                        r.notes.append("shard index not resolved")
                    else:
                        res, model = q.check(ln != 0, rem != z3.URem(f, ln), domain=E.domain)
                        r.queries += 1
                        if res == z3.sat:
                            r.status = "violated"
                            r.witness = {"what": "shard index is not finish() % shards.len()", "span": None,
                                         "call": "get_shard", "path": [], "model": oblig.model_summary(E, model)}
                else:
                    res, model = q.check(ln != 0, target.args[1] != z3.URem(f, ln), domain=E.domain)
                    r.queries += 1
                    if res == z3.sat:
                        r.status = "violated"
                        r.witness = {"what": "shard index is not finish() % shards.len()", "span": None,
                                     "call": "get_shard", "path": [], "model": oblig.model_summary(E, model)}

    # ---- B-2 STORE routes by the command's context id; the event carries the same id
    b = Builder(ctx, "handlers-store-handle-{closure#0}.", "store::handle", {})
    E = b.E
    r = b.mk("B-2", "store::handle routes by the context id of the command (get_shard(context_id)) and the event that is "
                    "sent to that shard carries the same context id")
    out.append(b.results["B-2"])
    if r:
        gs = oblig.events(E, r"ShardManager::get_shard$")
        if oblig.need_anchor(r, gs, "ShardManager::get_shard"):
            r.nontrivial = True
            src = E.trace(gs[0].args[1], gs[0].env, depth=4) | {sym.describe(gs[0].args[1])}
            if not any(re.search(r"cap:cmd:Store\.1", x) for x in src):
                r.status = "violated"
                r.witness = {"what": f"get_shard is not called with the STORE's context id ({sorted(src)[:4]})", "span": None,
                             "call": gs[0].func[:80], "path": [], "model": {}}
            else:
                ev_val, _ = E.var(gs[0].env, "event")
                for e2 in E.events:
                    if re.search(r"Event::set_payload_json$", e2.func):
                        ev_val, _ = E.var(e2.env, "event")
                ok = isinstance(ev_val, sym.Agg) and ev_val.names and "context_id" in ev_val.names and \
                    any(re.search(r"cap:cmd:Store\.1", x) for x in E.trace(ev_val.field("context_id"), gs[0].env, depth=4))
                if not ok:
                    r.status = "inconclusive"
                    r.notes.append("event literal / its context_id not resolved")

    # ---- B-3 the event id carries the id of the shard that applies the event
    b = Builder(ctx, "shard-context-{impl#0}-next_event_id.", "ShardContext::next_event_id", {})
    E = b.E
    r = b.mk("B-3", "ShardContext::next_event_id passes the shard's own id to EventIdGenerator::next (C18 A-1 shows the id's "
                    "shard component equals that argument & 0x3FF)")
    out.append(b.results["B-3"])
    if r:
        nx = oblig.events(E, r"EventIdGenerator::next$")
        if oblig.need_anchor(r, nx, "EventIdGenerator::next"):
            r.nontrivial = True
            a = nx[0].args[1] if len(nx[0].args) > 1 else None
            src = (E.trace(a, nx[0].env, depth=3) | {sym.describe(a)}) if a is not None else set()
            if not any(re.search(r"arg:self\.id|self~?\d*\.id", x) for x in src):
                r.status = "violated"
                r.witness = {"what": f"the shard tag is not the context's own id ({sorted(src)[:4]})", "span": None,
                             "call": nx[0].func[:80], "path": [], "model": {}}

    # ---- B-4 fan-out: every shard gets the QueryStream
    ghosts = {"sent": ghost(r"Sender::<.*>::send$")}
    b = Builder(ctx, "query-dispatch-streaming-{impl#1}-dispatch-{closure#0}.", "StreamingShardDispatcher::dispatch", ghosts)
    E = b.E
    r = b.mk("B-4", "StreamingShardDispatcher::dispatch iterates ShardManager::all_shards() and in every iteration either "
                    "sends the QueryStream to that shard and records its receiver, or returns an error: no shard is skipped; "
                    "Ok is returned only after every recorded receiver produced a handle")
    out.append(b.results["B-4"])
    if r:
        alls = oblig.events(E, r"ShardManager::all_shards$")
        sends = oblig.events(E, r"Sender::<.*>::send$")
        nexts = [e for e in E.events if re.search(r"Iterator>::next$", e.func) and e.args
                 and any("all_shards" in x for x in E.trace(e.args[0], e.env, depth=16))]
        pushes = [e for e in E.events if re.search(r"Vec::<.*>::push$", e.func) and e.args
                  and isinstance(e.args[0], sym.Ref) and "pending" in E.local_names(e.args[0].place.local)]
        if oblig.need_anchor(r, alls, "ShardManager::all_shards") and oblig.need_anchor(r, sends, "Sender::send") and \
                oblig.need_anchor(r, nexts, "iteration over all_shards()") and oblig.need_anchor(r, pushes, "pending.push"):
            r.nontrivial = True
            by_layer = {}
            for e in nexts:
                by_layer.setdefault(e.layer, e)
            for L, e in sorted(by_layer.items()):
                nxt = by_layer.get(L + 1)
                if nxt is None:
                    continue
                # reaching the next iteration means this iteration's shard was sent to and recorded
                s_here = [x.reach for x in sends if x.layer == L]
                p_here = [x.reach for x in pushes if x.layer == L]
                if not s_here or not p_here:
                    r.status = "violated"
                    r.witness = {"what": "an iteration over the shards contains no send / no pending.push", "span": None,
                                 "call": "dispatch", "path": [], "model": {}}
                    break
                res, model = q.check(nxt.reach, z3.Not(z3.And(z3.Or(s_here), z3.Or(p_here))), domain=E.domain)
                r.queries += 1
                if res == z3.sat:
                    oblig.violated(r, E, q, nxt, model, "the loop moves on to the next shard without having sent to / recorded the current one")
                    break

    # ---- B-4b collection: every recorded receiver must have produced a handle before Ok
    r = b.mk("B-4b", "StreamingShardDispatcher::dispatch, collecting the answers: the loop over the recorded receivers moves on, "
                     "and the function returns Ok, only if the awaited receiver yielded Ok(Ok(handle)) and that handle was added "
                     "to the result - a shard whose answer is an error, or whose channel was dropped, makes the whole dispatch fail")
    out.append(b.results["B-4b"])
    if r:
        nexts2 = [e for e in E.events if re.search(r"IntoIter<.*Receiver<.*> as Iterator>::next$", e.func)]
        hp = [e for e in E.events if re.search(r"Vec::<.*>::push$", e.func) and e.args
              and isinstance(e.args[0], sym.Ref) and "handles" in E.local_names(e.args[0].place.local)]
        if oblig.need_anchor(r, nexts2, "iteration over the pending receivers") and oblig.need_anchor(r, hp, "handles.push"):
            r.nontrivial = True
            by_layer = {}
            for e in nexts2:
                by_layer.setdefault(e.layer, e)
            rets = [(reach, E.disc_term(env.get(0))) for (_n, reach, env) in E.returns]
            for L, e in sorted(by_layer.items()):
                p_here = [x for x in hp if x.layer == L]
                took = z3.And(e.reach, z3.BitVec(f"disc({e.site})", 64) == 1)
                pushed = z3.Or([x.reach for x in p_here]) if p_here else z3.BoolVal(False)
                # the value pushed is the handle carried by Ok(Ok(..)) of this iteration's receiver
                for x in p_here:
                    d = sym.describe(x.args[1]) if len(x.args) > 1 else ""
                    src = E.trace(x.args[1], x.env, depth=10) if len(x.args) > 1 else set()
                    if not any(re.match(r"poll\(", y) for y in src) and not d.startswith("poll("):
                        r.status = "violated"
                        r.witness = {"what": f"the value added to the handles does not derive from the awaited receiver ({d[:80]})",
                                     "span": f"{x.span[0]}:{x.span[1]}" if x.span else None, "call": x.func[:80], "path": [], "model": {}}
                        break
                if r.status != "holds":
                    break
                goals = []
                nxt = by_layer.get(L + 1)
                if nxt is not None:
                    goals.append(("moves on to the next receiver", nxt.reach))
                for reach, d in rets:
                    if d is not None:
                        goals.append(("returns Ok", z3.And(reach, d == 0)))
                for what, g in goals:
                    res, model = q.check(took, g, z3.Not(pushed), domain=E.domain)
                    r.queries += 1
                    if res == z3.sat:
                        oblig.violated(r, E, q, e, model, f"dispatch {what} although the awaited receiver of a shard did not yield Ok(Ok(handle)) "
                                                            "(error answer or dropped channel): the union silently lacks that shard")
                        break
                if r.status != "holds":
                    break
    return out
