"""C17 - parsing and dispatch are total.

B-1  every parser body (hand-written and peg-generated) is searched for `unwrap` / `expect`
     calls whose operand derives (data flow) from a conversion of input text (`str::parse`,
     `Number::from_f64`, ...): z3 is asked whether the call is reachable; a reachable one is a
     candidate panic on untrusted input.
B-2  each candidate's rule is instantiated with boundary inputs for the converted type and
     replayed natively through the public `parse_command` (dev build) - reproducing ones are
     violations. The boundary inputs of repaired findings stay in the replay set.
B-3  dispatch_command: no feasible path reaches a panic for any `Command` variant.
"""
import os
import re
import subprocess

import z3

from .. import dump, mir, oblig, sym
from ..oblig import Result
from .flushspec import Builder

FILTERS = []
VERIF = os.path.dirname(os.path.dirname(os.path.dirname(os.path.dirname(os.path.abspath(__file__)))))

CONV = re.compile(r"str::parse|Number::from_f64|from_str_radix|FromStr>::from_str|char::to_digit|u32::try_from|TryFrom")
NATIVE_TIMEOUT_S = 20
UNWRAP = re.compile(r"(Result|Option)::<.*>::(unwrap|expect)$")

# boundary inputs per grammar rule (rule name as it appears in the MIR item path)
BOUNDARY = {
    "limit_clause": ["QUERY e LIMIT 4294967296", "QUERY e LIMIT -1", "QUERY e LIMIT 99999999999999999999"],
    "offset_clause": ["QUERY e LIMIT 1 OFFSET 4294967296", "QUERY e LIMIT 1 OFFSET -1"],
    "number": ["QUERY e WHERE x = 99999999999999999999", "QUERY e WHERE x = -9223372036854775809",
               "QUERY e WHERE x = 1" + "0" * 400 + ".5", "QUERY e WHERE x IN (99999999999999999999)"],
    "integer": ["PLOT total(x) OF e TOP 99999999999999999999"],
}
ALWAYS = ["REMEMBER QUERY \u0131\u00e9 AS x", "REMEMBER QUERY e WHERE c = \"\u0149\u0149\u0149\u0149\u0149\u0149\" AS m",
          "QUERY e LIMIT 4294967296", "QUERY e LIMIT -1", "QUERY e LIMIT 1 OFFSET 4294967296",
          "QUERY e WHERE x = 99999999999999999999", "QUERY e WHERE x = 1" + "0" * 400 + ".5",
          "QUERY e WHERE x = -9223372036854775809", "REPLAY e FOR c SINCE 99999999999999999999999",
          "QUERY e WHERE " + "(" * 14 + "x = 1" + ")" * 14, "QUERY e WHERE NOT NOT NOT NOT x = 1",
          "QUERY e WHERE " + "(" * 40 + "x = 1 AND y = 2" + ")" * 40,
          "STORE e FOR c PAYLOAD {\"a\": 1e400}", "QUERY", "", "QUERY e WHERE x = \"unterminated",
          "DEFINE e FIELDS { \"a\": \"int\"", "PLOT total(x) OF e TOP 99999999999999999999"]


def native_binary(log):
    """build the native replay program against /repo's current tree (repository toolchain)"""
    nd = os.path.join(VERIF, "native")
    env = dict(os.environ)
    env["CARGO_TARGET_DIR"] = os.path.join(VERIF, ".cache", "mirtarget")
    env["CARGO_NET_OFFLINE"] = "true"
    env.pop("RUSTUP_TOOLCHAIN", None)
    for f in ("Cargo.lock", "rust-toolchain.toml"):
        try:
            open(os.path.join(nd, f), "wb").write(open(os.path.join("/repo", f), "rb").read())
        except OSError:
            pass
    p = subprocess.run(["cargo", "build", "--offline"], cwd=nd, env=env, stdout=subprocess.PIPE,
                       stderr=subprocess.STDOUT, text=True)
    if p.returncode != 0:
        log("[native] build failed:\n" + "\n".join(p.stdout.splitlines()[-15:]))
        return None
    return os.path.join(env["CARGO_TARGET_DIR"], "debug", "replay")


def run_native(binary, args):
    env = dict(os.environ)
    env["RUST_BACKTRACE"] = "0"
    try:
        p = subprocess.run([binary] + args, stdout=subprocess.PIPE, stderr=subprocess.DEVNULL, text=True, env=env,
                           timeout=NATIVE_TIMEOUT_S)
    except subprocess.TimeoutExpired:
        return 4, f"did not return within {NATIVE_TIMEOUT_S} s"
    return p.returncode, p.stdout.strip().splitlines()[-1][:300] if p.stdout.strip() else ""


def narrowing_casts(ctx):
    """numeric terminals are converted inside grammar actions: a literal that does not fit the target type has to be
    rejected - `n.parse::<u64>()? as u32` accepts it and wraps"""
    r = Result("B-7", "no parser body narrows a number obtained from the input text with `as` unless the path condition already "
                      "confines it to the target type: for every narrowing integer cast whose operand derives from str::parse the "
                      "solver is asked for a value outside the target range that reaches the cast")
    r.functions = []
    r.bounds = "every path of every body under src/command/parser and the HTTP JSON command form; loops unrolled, calls opaque"
    out = [r]
    q = ctx.q
    bodies = ctx.find("command-parser-") + ctx.find("frontend-http-json_command-")
    seen = 0
    for f in bodies:
        txt = open(f, errors="replace").read()
        if "(IntToInt)" not in txt:
            continue
        fn = mir.parse_file(f)
        try:
            E = sym.Evaluation(fn, ctx.structs, k=ctx.k)
        except Exception as ex:          # noqa: BLE001 - an unreadable body is inconclusive, not a pass
            r.status = "inconclusive"
            r.notes.append(f"{os.path.basename(f)[:80]}: {ex}")
            return out
        for e in oblig.events(E, r"^narrowing_cast$"):
            src = " ".join(E.trace(e.args[0], e.env, depth=10) | {sym.describe(e.args[0])})
            if not re.search(r"str::parse|FromStr|from_str_radix|arg:", src):
                continue
            seen += 1
            r.functions.append(fn.name[-70:])
            t = E.to_term(e.args[0], e.arg_types[0])
            bits = mir.INT_BITS[e.arg_types[1]]
            if e.arg_types[1] in mir.SIGNED:
                lo, hi = -(1 << (bits - 1)), (1 << (bits - 1)) - 1
                inside = z3.And(t >= lo, t <= hi) if e.arg_types[0] in mir.SIGNED else z3.ULE(t, hi)
            else:
                inside = z3.And(t >= 0, t <= (1 << bits) - 1) if e.arg_types[0] in mir.SIGNED else z3.ULE(t, (1 << bits) - 1)
            res, model = q.check(e.reach, z3.Not(inside), domain=E.domain)
            r.queries += 1
            if res == z3.sat:
                v = model.eval(t, model_completion=True)
                val = v.as_signed_long() if e.arg_types[0] in mir.SIGNED else v.as_long()
                wrapped = val % (1 << bits)
                base = os.path.basename(f)
                text = None
                if "plotql" in base and "integer" in base:
                    text = f"PLOT total(x) OF e TOP {val}"
                elif "offset_clause" in base:
                    text = f"QUERY e LIMIT 1 OFFSET {val}"
                elif "limit_clause" in base:
                    text = f"QUERY e LIMIT {val}"
                shown, confirmed = "", True
                if text:
                    binary = native_binary(ctx.log)
                    rc, line = run_native(binary, ["parsedbg", text]) if binary else (None, "native replay program did not build")
                    shown = f"; real parser: {text} -> {line[:160]}"
                    confirmed = line.startswith("Ok(") and str(val) not in line
                r.status = "violated" if confirmed else "inconclusive"
                if not confirmed:
                    r.notes.append("the cast is reachable with an out-of-range value but the real parser did not accept the literal" + shown)
                r.witness = {"what": f"a parsed {e.arg_types[0]} is narrowed with `as {e.arg_types[1]}` without a range check: {val} reaches the "
                                     f"cast and wraps to {wrapped}{shown}",
                             "span": f"{e.span[0]}:{e.span[1]}" if e.span else None, "call": fn.name[-80:], "path": E.path_of_model(model)[-6:],
                             "model": {"value": str(val)}, "body": os.path.basename(f)}
                return out
            if res != z3.unsat:
                r.status = "inconclusive"
                r.notes.append("solver returned unknown")
                return out
    r.nontrivial = True
    r.notes.append(f"{seen} narrowing casts of parsed numbers examined")
    return out


def obligations(ctx):
    out = []
    out += narrowing_casts(ctx)
    q = ctx.q
    bodies = ctx.find("command-parser-") + ctx.find("frontend-http-json_command-")
    r = Result("B-1", "no parser body unwraps the result of a conversion of input text: every `unwrap`/`expect` "
                      "whose operand derives from str::parse / Number::from_f64 / ... is unreachable")
    r.functions = [f"{len(bodies)} bodies under command::parser and frontend::http::json_command"]
    r.bounds = f"loops unrolled {ctx.k}x, calls opaque; data flow through call results, references and moves"
    out.append(r)
    candidates = []
    parsed = 0
    total_unwraps = 0
    if not bodies:
        r.status = "inconclusive"
        r.notes.append("anchor not found: no parser bodies in the MIR dump")
    for f in bodies:
        fn = mir.parse_file(f)
        if mir.self_check(fn):
            r.status = "inconclusive"
            r.notes.append(f"MIR parse problem in {os.path.basename(f)[:80]}")
            continue
        parsed += 1
        if not any(b.term and b.term["kind"] == "call" and UNWRAP.search(b.term["func"]) for b in fn.blocks.values()):
            continue
        E = sym.Evaluation(fn, ctx.structs, k=ctx.k)
        ctx.functions.append(fn.name)
        for ev in E.events:
            if not UNWRAP.search(ev.func) or not ev.args:
                continue
            total_unwraps += 1
            tr = E.trace(ev.args[0], ev.env, depth=6)
            res, model = q.check(ev.reach, domain=E.domain)
            r.queries += 1
            if any(CONV.search(x) for x in tr):
                if res == z3.sat:
                    rule = re.search(r"__parse_(\w+)", fn.name)
                    candidates.append({"fn": fn.name[-90:], "rule": rule.group(1) if rule else None,
                                       "call": ev.short, "span": f"{ev.span[0]}:{ev.span[1]}" if ev.span else None,
                                       "conversion": sorted(x for x in tr if CONV.search(x))[:3]})
    r.nontrivial = parsed > 0
    r.notes.append(f"{parsed} bodies parsed, {total_unwraps} unwrap/expect calls examined, {len(candidates)} input-derived")
    r.candidates = candidates

    # B-2 native replay
    r2 = Result("B-2", "boundary inputs for every candidate rule (and the inputs of repaired findings) are parsed by "
                       "the real parse_command without a panic (native dev build, catch_unwind)")
    r2.functions = ["command::parser::command::parse_command (native)"]
    r2.bounds = "concrete boundary inputs derived from the converted types (u32 / i64 / f64 limits, sign, 400-digit numbers)"
    out.append(r2)
    binary = native_binary(ctx.log)
    if binary is None:
        r2.status = "inconclusive"
        r2.notes.append("native replay program did not build")
    else:
        inputs = list(ALWAYS)
        for c in candidates:
            inputs += BOUNDARY.get(c["rule"] or "", [])
        seen = set()
        panics = []
        hangs = []
        for inp in inputs:
            if inp in seen:
                continue
            seen.add(inp)
            rc, line = run_native(binary, ["parse", inp])
            r2.queries += 0
            if rc == 3:
                panics.append((inp, line))
            elif rc == 4:
                hangs.append((inp, line))
        r2.nontrivial = True
        r2.notes.append(f"{len(seen)} inputs replayed natively, {len(panics)} panicked, {len(hangs)} did not terminate in {NATIVE_TIMEOUT_S} s")
        if hangs and not panics:
            r2.status = "violated"
            r2.witness = {"what": f"parse_command does not return within {NATIVE_TIMEOUT_S} s on a {len(hangs[0][0])}-byte input "
                                  f"({hangs[0][0][:60]!r}...): super-linear backtracking", "span": None,
                          "call": "parse_command", "path": [], "model": {}, "inputs": [h[0][:120] for h in hangs],
                          "native_cmd": f"{binary} parse <input>"}
        if panics:
            r2.status = "violated"
            r2.witness = {"what": f"parse_command panics on {panics[0][0][:80]!r}: {panics[0][1][-160:]}",
                          "span": candidates[0]["span"] if candidates else None, "call": "parse_command",
                          "path": [], "model": {}, "inputs": [p[0][:120] for p in panics],
                          "native_cmd": f"{binary} parse <input>"}
    # B-1 verdict: candidates that do not reproduce are dropped with a note
    if candidates and r.status == "holds":
        if r2.status == "violated":
            r.status = "violated"
            c = candidates[0]
            r.witness = {"what": f"`{c['call']}` on {c['conversion']} in {c['fn']} is reachable (input-derived panic)",
                         "span": c["span"], "call": c["call"], "path": [], "model": {}, "candidates": candidates}
        else:
            r.notes.append("candidates did not reproduce natively: " + "; ".join(f"{c['rule']}@{c['span']}" for c in candidates))

    # B-4 offsets used to slice a string were computed on that string (or a byte-length preserving copy)
    r4 = Result("B-4", "parser bodies: a string is sliced only at offsets found on that same string or on a copy that "
                       "preserves byte offsets (ASCII case mapping) - an offset found in a Unicode case-mapped, trimmed or "
                       "otherwise re-encoded copy can fall outside a char boundary of the original and panic")
    r4.functions = [f"{len(bodies)} bodies under command::parser"]
    r4.bounds = r.bounds
    out.append(r4)
    FIND = re.compile(r"str>::(find|rfind)::|core::str::<impl str>::(find|rfind)::|impl str>::(find|rfind|match_indices|rmatch_indices|char_indices)")
    SLICE = re.compile(r"SliceIndex<str>|as Index<(?:std::ops::)?Range|str>::split_at|impl str>::(split_at|get)\b|Index<.*Range.*>>::index$")
    PRESERVING = re.compile(r"to_ascii_uppercase|to_ascii_lowercase|Deref::deref|String::as_str|as_bytes|Clone::clone|ToOwned::to_owned|ToString::to_string|Borrow::borrow|AsRef::as_ref")
    sliced = 0
    for f in bodies:
        txt = open(f, errors="replace").read()
        if not (re.search(r"::r?find::<", txt) and re.search(r"Range", txt)):
            continue
        fn = mir.parse_file(f)
        if mir.self_check(fn):
            continue
        E = sym.Evaluation(fn, ctx.structs, k=ctx.k)
        by_site = {e.site: e for e in E.events if e.site}
        finds = [e for e in E.events if FIND.search(e.func)]
        if not finds:
            continue
        for ev in E.events:
            if not SLICE.search(ev.func) or len(ev.args) < 2:
                continue
            # which argument is the string, which the range
            rng = ev.args[1] if not isinstance(ev.args[1], sym.Ref) else ev.args[0]
            target = ev.args[0] if rng is ev.args[1] else ev.args[1]
            tr = E.trace(rng, ev.env, depth=10)
            used = [fe for fe in finds if fe.site in tr or any(fe.site in x for x in tr)]
            if not used:
                continue
            sliced += 1
            tgt = target
            if isinstance(tgt, sym.Ref):
                tgt, _ = E.read_place(ev.env, tgt.place)
            tgt_l = sym.describe(tgt)
            for fe in used:
                src = fe.args[0]
                if isinstance(src, sym.Ref):
                    src, _ = E.read_place(fe.env, src.place)
                # walk back from the searched string to the sliced one
                cur, ok, hops = sym.describe(src), False, 0
                while hops < 6:
                    if cur == tgt_l:
                        ok = True
                        break
                    e2 = by_site.get(re.sub(r"(:[A-Za-z]+|\.[A-Za-z0-9_]+)+$", "", cur))
                    if e2 is None or not PRESERVING.search(e2.func) or not e2.args:
                        break
                    nxt = e2.args[0]
                    if isinstance(nxt, sym.Ref):
                        nxt, _ = E.read_place(e2.env, nxt.place)
                    cur = sym.describe(nxt)
                    hops += 1
                if not ok:
                    rr, model = q.check(ev.reach, domain=E.domain)
                    r4.queries += 1
                    if rr == z3.sat:
                        r4.status = "violated"
                        r4.witness = {"what": f"{fn.name[-50:]}: a string ({tgt_l[:40]}) is sliced at an offset found by "
                                              f"{fe.short} on a different text ({sym.describe(src)[:50]})",
                                      "span": f"{ev.span[0]}:{ev.span[1]}" if ev.span else None, "call": ev.func[:100],
                                      "path": E.path_of_model(model), "model": {}}
                        break
            if r4.status != "holds":
                break
        if r4.status != "holds":
            break
    r4.nontrivial = sliced > 0
    r4.notes.append(f"{sliced} slicing sites fed by a find/rfind offset examined")
    if r4.status == "violated" and binary is not None:
        for inp in ("REMEMBER QUERY \u0131\u00e9 AS x", "REMEMBER QUERY orders WHERE city = \"Kad\u0131k\u00f6y\" AS m"):
            rc, line = run_native(binary, ["parse", inp])
            if rc == 3:
                r4.witness["native"] = line
                break

    # B-3 dispatch totality
    b = Builder(ctx, "command-dispatcher-dispatch_command-{closure#0}.", "dispatch_command", {})
    E = b.E
    r3 = b.mk("B-3", "dispatch_command answers every Command variant: no feasible path reaches a panic "
                    "(`unreachable!`) whatever variant the command is")
    out.append(b.results["B-3"])
    if r3:
        pan = [ev for ev in E.events if re.search(r"panicking::|panic_fmt|unreachable_display|begin_panic", ev.func)]
        r3.nontrivial = True
        if not pan:
            r3.notes.append("no panic call in dispatch_command")
        # the discriminant of the matched command must be a symbol the encoder knows the range of
        oblig.never(r3, E, q, pan, None, "dispatch_command reaches `unreachable!` for some command variant")
        if r3.status == "violated" and r3.witness:
            d = [v for k, v in r3.witness["model"].items() if k.startswith("disc(cap:cmd")]
            r3.witness["what"] += f" (command discriminant {d[0] if d else '?'}: the variant the match does not cover)"
    out += precedence(ctx)
    out += keyword_case(ctx)
    return out


GRAMMARS = [
    # (label, module needle prefix, top rule, OR rule, AND rule, unary rule)
    ("QUERY / FIND / REMEMBER where-clause (query.rs)", "parser-commands-query-sneldb_query-__parse_", "expr", "or_expr", "and_expr", "factor"),
    ("PLOT filter (plotql.rs)", "parser-commands-plotql-plotql_parser-__parse_", "expression", "or_expr", "and_expr", "factor"),
]


def precedence(ctx):
    """NOT binds tighter than AND, AND tighter than OR, parentheses override: the expression rules
    form strata, and a rule re-enters a looser stratum only between a matched "(" and ")" """
    from .flushspec import Builder
    out = []
    r = Result("B-5", "boolean expressions: the OR rule takes AND-level operands on the left and recurses on the right, the AND rule "
                      "takes NOT/primary-level operands on the left and recurses into itself on the right (never into the OR level), "
                      "NOT applies to a NOT/primary-level operand, and the whole-expression rule is re-entered only after a matched "
                      "\"(\" - so NOT binds tighter than AND, AND tighter than OR, and only parentheses override")
    r.functions = []
    r.bounds = "call structure and operand data flow of the generated rule functions; every path of each rule body (no loops)"
    out.append(r)
    q = ctx.q
    r.nontrivial = True
    for label, prefix, top, orr, andr, unary in GRAMMARS:
        rules = {}
        for name in (top, orr, andr, unary):
            b = Builder(ctx, prefix + name + ".", f"{label}: rule {name}", {})
            if b.E is None:
                r.status = "inconclusive"
                r.notes.append(b.err)
                return out
            rules[name] = b.E
            r.functions.append(f"{label}: rule {name}")
        level = {top: 0, orr: 0, andr: 1, unary: 2}

        def expr_calls(E):
            res = []
            for e in E.events:
                m = re.search(r"__parse_(\w+)$", e.func)
                if m and m.group(1) in level:
                    res.append((m.group(1), e))
            return res

        def bad(what, ev=None):
            r.status = "violated"
            r.witness = {"what": f"{label}: {what}", "span": f"{ev.span[0]}:{ev.span[1]}" if ev is not None and ev.span else None,
                         "call": ev.func[:100] if ev is not None else "", "path": [], "model": {}}
            if "query.rs" in label:
                # the structural finding is confirmed on the real parser with unparenthesised samples
                binary = native_binary(ctx.log)
                if binary is not None:
                    rc, line = run_native(binary, ["precedence"])
                    r.witness["native"] = line
                    if rc != 3:
                        r.status = "inconclusive"
                        r.notes.append("the rule structure differs from the expected strata but the sample expressions still parse "
                                       "to the expected trees: " + line)
            return out
        # top rule: just the OR level
        if [n for n, _ in expr_calls(rules[top])] != [orr]:
            return bad(f"the rule `{top}` is not a plain alias of `{orr}`")
        # OR rule: left operand from AND level at the start position, right operand from OR level
        for rule, left, right, kw in ((orr, andr, orr, "OR"), (andr, unary, andr, "AND")):
            calls = expr_calls(rules[rule])
            names = [n for n, _ in calls]
            if names != [left, right]:
                ev = next((e for n, e in calls if n not in (left, right)), calls[-1][1] if calls else None)
                return bad(f"the rule `{rule}` takes its operands from {names} instead of [`{left}` on the left, `{right}` after {kw}]: "
                           f"{kw} does not bind the way the statement says (e.g. `a AND b OR c`)", ev)
            l_ev, r_ev = calls[0][1], calls[1][1]
            if sym.describe(l_ev.args[3]) != "arg:__pos":
                return bad(f"the left operand of `{rule}` is not parsed at the rule's start position", l_ev)
            kws = [e for e in rules[rule].events if re.search(r"__parse_ci$", e.func) and len(e.args) > 4]
            if not kws or not all(kw in sym.describe(e.args[4]) for e in kws):
                return bad(f"the rule `{rule}` does not match the keyword {kw} between its operands", r_ev)
            # the right operand is parsed only after the keyword matched
            kd = z3.BitVec(f"disc({kws[0].site})", 64)
            res, _ = q.check(r_ev.reach, kd != 0, domain=rules[rule].domain)
            r.queries += 1
            if res != z3.unsat:
                return bad(f"the right operand of `{rule}` can be parsed without a matched {kw}", r_ev)
        # unary / primary rule: NOT recurses into itself; the top rule only between "(" and ")"
        E = rules[unary]
        calls = expr_calls(E)
        lits = [e for e in E.events if re.search(r"parse_string_literal$", e.func) and len(e.args) > 2]
        opens = [e for e in lits if '"("' in sym.describe(e.args[2])]
        closes = [e for e in lits if '")"' in sym.describe(e.args[2])]
        nots = [e for e in E.events if re.search(r"__parse_ci$", e.func) and len(e.args) > 4 and "NOT" in sym.describe(e.args[4])]
        for n, e in calls:
            if n == unary:
                if not nots:
                    return bad(f"`{unary}` recurses without matching NOT", e)
                res, _ = q.check(e.reach, z3.BitVec(f"disc({nots[0].site})", 64) != 0, domain=E.domain)
                r.queries += 1
                if res != z3.unsat:
                    return bad(f"`{unary}` recurses into itself without a matched NOT", e)
            elif n == top:
                if not opens or not closes:
                    return bad(f"`{unary}` re-enters `{top}` without parentheses", e)
                res, _ = q.check(e.reach, z3.BitVec(f"disc({opens[0].site})", 64) != 0, domain=E.domain)
                r.queries += 1
                if res != z3.unsat:
                    return bad(f"`{unary}` re-enters `{top}` without a matched \"(\"", e)
            else:
                return bad(f"`{unary}` (NOT / primary level) calls the looser rule `{n}` directly: NOT would not bind tighter than AND / OR", e)
        if not any(n == unary for n, _ in calls) or not any(n == top for n, _ in calls):
            return bad(f"`{unary}` has no NOT recursion or no parenthesised alternative")
    return out


def keyword_case(ctx):
    """grammar actions must not look at the spelling of a keyword they matched case-insensitively"""
    out = []
    r = Result("B-6", "keywords are case-insensitive also where a grammar action inspects the matched text: no action of the peg grammars "
                      "compares captured input with an alphabetic constant by exact string equality (the grammars' own `ci` rule and "
                      "`eq_ci` are the case-insensitive comparisons); confirmed on the real parser by re-spelling the keywords of sample "
                      "commands in mixed case")
    bodies = [f for f in ctx.find("command-parser-commands-") if re.search(r"__parse_\w+-\{closure#\d+\}", f) and "__parse_ci-" not in f]
    r.functions = [f"{len(bodies)} action closures of the peg grammars"]
    r.bounds = "call sites of string equality in every action closure"
    out.append(r)
    if not bodies:
        r.status = "inconclusive"
        r.notes.append("no grammar action closures found")
        return out
    r.nontrivial = True
    hits = []
    for f in bodies:
        try:
            txt = open(f).read()
        except OSError:
            continue
        if not re.search(r"PartialEq.*>::eq|core::str::<impl str>::eq|<str as .*>::eq|::eq\(", txt):
            continue
        consts = sorted(set(re.findall(r'const "([A-Za-z]+)"', txt)))
        if consts:
            m = re.search(r"(src/[\w/]+\.rs):(\d+)", txt)
            hits.append((re.sub(r"^.*snel_db\.", "", f)[:90], consts, f"{m.group(1)}:{m.group(2)}" if m else None))
    if not hits:
        return out
    binary = native_binary(ctx.log)
    rc, line = run_native(binary, ["kwcase"]) if binary else (2, "native replay program did not build")
    r.witness = {"what": f"grammar action {hits[0][0]} compares matched text with {hits[0][1]} by exact equality: the same command with that "
                         f"keyword in another case parses to a different command - {line}",
                 "span": hits[0][2], "call": hits[0][0], "path": [], "model": {}, "native": line}
    r.status = "violated" if rc == 3 else "inconclusive"
    if rc != 3:
        r.notes.append("an exact comparison exists in a grammar action but the sample commands parse identically under mixed-case keywords: " + line)
    return out
