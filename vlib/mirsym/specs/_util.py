def pick(results, mapping):
    """mapping: new id -> key in results; returns the Results renamed"""
    out = []
    for new_id, key in mapping:
        r = results[key]
        r.id = new_id
        out.append(r)
    return out
