"""C03 - reads see every applied write exactly once during its flush: the publication protocol's order."""
from . import flushspec, passivespec, writerspec
from ._util import pick

FILTERS = []


def obligations(ctx):
    out = []
    ft = flushspec.flush_task(ctx)
    out += pick(ft, [("B-1", "release-after-publish"), ("B-1b", "clear-after-publish"),
                     ("B-2", "publish-guard"), ("B-2b", "flush-before-publish")])
    out += pick(flushspec.queue_for_flush(ctx), [("B-3", "inflight-before-send")])
    out += pick(flushspec.insert_path(ctx), [("B-4", "passive-before-rotate"), ("B-4b", "queue-gets-rotated-table")])
    out += pick(passivespec.passive_set(ctx), [("B-5", "add"), ("B-5b", "prune")])
    out += pick(writerspec.accept_row(ctx), [("B-6", "dedup")])
    return out
