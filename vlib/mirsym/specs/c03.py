"""C03 - reads see every applied write exactly once during its flush: the publication protocol's order."""
from . import flushspec, passivespec, writerspec
from ._util import pick

FILTERS = []


def obligations(ctx):
    out = []
    ft = flushspec.flush_task(ctx)
    out += pick(ft, [("B-1", "release-after-publish"), ("B-1b", "clear-after-publish"),
                     ("B-2", "publish-guard"), ("B-2b", "flush-before-publish")])
    out += pick(flushspec.queue_for_flush(ctx), [("B-3", "inflight-before-send")])
    out += pick(flushspec.insert_path(ctx), [("B-4", "passive-before-rotate"), ("B-4b", "queue-gets-rotated-table")])
    out += pick(passivespec.passive_set(ctx), [("B-5", "add"), ("B-5b", "prune")])
    out += pick(writerspec.accept_row(ctx), [("B-6", "dedup")])
    out += scan_views(ctx)
    out += passive_snapshot(ctx)
    return out


def passive_snapshot(ctx):
    """PassiveBufferSet::non_empty: what a read sees of the passive buffers"""
    import re
    import z3
    from .. import oblig, sym
    from .flushspec import Builder
    b = Builder(ctx, "memory-passive_buffer_set-{impl#0}-non_empty-{closure#0}.", "PassiveBufferSet::non_empty", {})
    E, q = b.E, ctx.q
    r = b.mk("B-8", "PassiveBufferSet::non_empty (the passive-buffer view of a read) contains every buffer that holds events and every "
                    "buffer whose lock is busy at that moment (another read or the flush is using it) - a busy buffer is never left out, "
                    "because its events may not be in a published segment yet")
    out = [b.results["B-8"]]
    if not r:
        return out
    tl = [e for e in E.events if re.search(r"Mutex::<MemTable>::try_lock$|Mutex::try_lock$", e.func)]
    if tl:
        r.nontrivial = True
        pushes = [e for e in E.events if re.search(r"Vec::<.*>::push$", e.func)]
        for t in tl:
            mine = [p_ for p_ in pushes if p_.layer == t.layer]
            pushed = z3.Or([p_.reach for p_ in mine]) if mine else z3.BoolVal(False)
            d = z3.BitVec(f"disc({t.site})", 64)
            res, model = q.check(t.reach, d == 1, z3.Not(pushed), domain=E.domain)
            r.queries += 1
            if res == z3.sat:
                oblig.violated(r, E, q, t, model, "a passive buffer whose lock is busy is left out of the read's view")
                return out
            lens = [e for e in E.events if re.search(r"MemTable::len$", e.func) and e.layer == t.layer]
            if lens:
                ln = E.sym(lens[0].site, "usize")
                res, model = q.check(t.reach, d == 0, lens[0].reach, z3.UGT(ln, 0), z3.Not(pushed), domain=E.domain)
                r.queries += 1
                if res == z3.sat:
                    oblig.violated(r, E, q, t, model, "a passive buffer that holds events is left out of the read's view")
                    return out
        return out
    # iterator form: the predicate lives in a closure
    for f in ctx.find("memory-passive_buffer_set-{impl#0}-non_empty-{closure#0}-{closure#"):
        Ec, err = ctx.load(re.sub(r"^.*snel_db\.", "", f).split(".2-2-")[0].replace("engine-core-", "") + ".", ghosts={})
        if Ec is None:
            continue
        mo = [e for e in Ec.events if re.search(r"Result::<.*>::map_or", e.func)]
        tl2 = [e for e in Ec.events if re.search(r"try_lock$", e.func)]
        if mo and tl2:
            r.nontrivial = True
            dflt = Ec.to_term(mo[0].args[1], "bool") if len(mo[0].args) > 1 else None
            if dflt is None or not z3.is_true(z3.simplify(dflt)):
                r.status = "violated"
                r.witness = {"what": "a passive buffer whose lock is busy is left out of the read's view (the predicate's fallback for a failed "
                                     "try_lock is not `true`): a read that overlaps another read or the flush of that buffer misses its events",
                             "span": f"{mo[0].span[0]}:{mo[0].span[1]}" if mo[0].span else None, "call": mo[0].func[:80], "path": [], "model": {}}
            return out
    r.status = "inconclusive"
    r.notes.append("neither the loop form nor a try_lock().map_or(..) predicate was recognised")
    return out


def scan_views(ctx):
    """a read must not look at the live segment list before it has taken its view of the passive
    buffers: publication (list push) precedes the release of the passive copy, so only this order
    finds every rotated event in at least one of the two places"""
    import re
    import z3
    from .. import oblig, sym
    from .flushspec import Builder
    b = Builder(ctx, "query-streaming-scan-{impl#0}-new-{closure#0}.", "StreamingScan::new", {})
    E, q = b.E, ctx.q
    r = b.mk("B-7", "StreamingScan::new hands the query plan the shard's shared live-list handle (read lazily while zones are "
                    "collected, i.e. after the passive-buffer view was taken by StreamingContext::new) - it never reads or copies "
                    "the live list before that view exists")
    out = [b.results["B-7"]]
    if not r:
        return out
    plans = oblig.events(E, r"QueryPlan::new$")
    ctxs = oblig.events(E, r"StreamingContext::new$")
    if not oblig.need_anchor(r, plans, "QueryPlan::new") or not oblig.need_anchor(r, ctxs, "StreamingContext::new"):
        return out
    r.nontrivial = True
    for ev in plans:
        r.anchors.append(f"{ev.short}@bb{ev.bb}")
        if len(ev.args) < 4 or sym.describe(ev.args[3]) not in ("cap:segment_ids", "arg:segment_ids"):
            r.status = "violated"
            r.witness = {"what": "the query plan is built on something other than the shard's shared live segment list "
                                 f"({sym.describe(ev.args[3])[:80] if len(ev.args) > 3 else '?'}): a copy taken before the passive-buffer view "
                                 "misses a segment published in between, while its passive copy is already released",
                         "span": f"{ev.span[0]}:{ev.span[1]}" if ev.span else None, "call": ev.func[:100], "path": [], "model": {}}
            return out
    # no read of the list in this body at all (the plan reads it later through the shared handle)
    reads = [e for e in E.events if re.search(r"RwLock::<.*Vec<.*String>>::(read|write)$", e.func)]
    for e in reads:
        res, model = q.check(e.reach, domain=E.domain)
        r.queries += 1
        if res == z3.sat:
            oblig.violated(r, E, q, e, model, "the live segment list is read while the scan is set up, before the passive-buffer view exists")
            return out
    return out
