"""C02 (Engine B part) - zone selection falls back to all zones when a range index is
unavailable or declares itself unselective."""
import re

import z3

from .. import oblig, sym
from .flushspec import Builder, ghost

FILTERS = []


def obligations(ctx):
    ghosts = {
        "allzones": ghost(r"create_all_zones_for_segment_from_meta_cached|collect_zones_for_scope"),
        "surf": ghost(r"RangePruner::<?.*apply_surf_only$|RangePruner::apply_surf_only$"),
    }
    b = Builder(ctx, "selector-field_selector-{impl#1}-select_for_segment.", "FieldSelector::select_for_segment", ghosts)
    E, q = b.E, ctx.q
    r = b.mk("B-1", "ZoneSuRF strategy: when RangePruner::apply_surf_only returns None (filter failed to load, literal "
                    "not encodable, or it matched >90% of more than 10 zones and asks for a full scan) the selector "
                    "returns all zones of the segment - never an empty or partial set")
    out = [b.results["B-1"]]
    if not r:
        return out
    surf = [e for e in E.events if re.search(r"apply_surf_only$", e.func)]
    if not oblig.need_anchor(r, surf, "RangePruner::apply_surf_only in select_for_segment"):
        return out
    sd = z3.BitVec(f"disc({surf[0].site})", 64)
    r.nontrivial = True
    if not E.returns:
        r.status = "inconclusive"
        r.notes.append("no return found")
    for (node, reach, env) in E.returns:
        g, called = env.get("@allzones"), env.get("@surf")
        if g is None or called is None:
            r.status = "inconclusive"
            r.notes.append("ghosts not resolved")
            continue
        res, model = q.check(reach, called, sd == 0, z3.Not(g), domain=E.domain)
        r.queries += 1
        if res == z3.sat:
            r.status = "violated"
            r.witness = {"what": "apply_surf_only returned None but the selector returns without collecting all zones",
                         "span": None, "call": "return", "path": E.path_of_model(model),
                         "model": oblig.model_summary(E, model)}
            break
        # and the value returned on that path derives from the all-zones call
    if r.status == "holds":
        res, _ = q.check(surf[0].reach, domain=E.domain)
        r.queries += 1
        if res != z3.sat:
            r.status = "inconclusive"
            r.notes.append("apply_surf_only call unreachable in the encoding")

    out += or_expansion(ctx)
    # the range test of the temporal pruner and the zone-level NOT are part of "the predicate selects the same rows on disk"
    from . import c08
    for r_ in c08.temporal_minmax(ctx):
        r_.id = "B-3"
        out.append(r_)
    return out


def or_expansion(ctx):
    """FilterGroupBuilder::extract_or_equality_values turns `x = a OR x = b OR ...` into an IN-style
    list that drives zone pruning: only equality leaves may be folded in."""
    b = Builder(ctx, "filter-filter_group_builder-{impl#0}-extract_or_equality_values.",
                "FilterGroupBuilder::extract_or_equality_values", {})
    E, q = b.E, ctx.q
    r = b.mk("B-2", "extract_or_equality_values returns Some (an OR folded into a list of equality values, used for zone "
                    "pruning) only when every comparison leaf it consumed has the operator `=`; a range or `!=` leaf makes "
                    "it return None so the OR is pruned branch by branch")
    res = [b.results["B-2"]]
    if not r:
        return res
    if not E.returns:
        r.status = "inconclusive"
        r.notes.append("no return")
        return res
    r.nontrivial = True
    (node, reach, env) = E.returns[0]
    ret = env.get(0)
    d = E.discriminant(ret, E.fn.types.get(0, "")) if ret is not None else None
    if d is None or not sym.is_term(d):
        r.status = "inconclusive"
        r.notes.append("return value not resolved")
        return res
    ops = sorted({k for k in E.domain if re.match(r"^disc\(arg:(left|right):Compare\.(op|1)\)$", k)})
    if len(ops) < 2:
        r.status = "inconclusive"
        r.notes.append(f"operator discriminants of the two operands not found ({sorted(E.domain)[:6]})")
        return res
    for side, opname in (("left", [o for o in ops if ":left:" in o][0]), ("right", [o for o in ops if ":right:" in o][0])):
        is_cmp = z3.BitVec(f"disc(arg:{side})", 64) == 0   # Expr::Compare is the first variant
        op = z3.BitVec(opname, 64)
        rr, model = q.check(reach, d == 1, is_cmp, op != 0, domain=E.domain)   # CompareOp::Eq is the first variant
        r.queries += 1
        if rr == z3.sat:
            r.status = "violated"
            r.witness = {"what": f"an OR whose {side} operand is a comparison with an operator other than `=` can be folded "
                                 f"into an equality list (zones matching the range / != branch are then pruned)",
                         "span": None, "call": "return", "path": E.path_of_model(model), "model": oblig.model_summary(E, model)}
            break
    return res
