"""C02 (Engine B part) - zone selection falls back to all zones when a range index is
unavailable or declares itself unselective."""
import json
import os
import re

import z3

from .. import oblig, sym
from .flushspec import Builder, ghost

FILTERS = []


def obligations(ctx):
    ghosts = {
        "allzones": ghost(r"create_all_zones_for_segment_from_meta_cached|collect_zones_for_scope"),
        "surf": ghost(r"RangePruner::<?.*apply_surf_only$|RangePruner::apply_surf_only$"),
    }
    b = Builder(ctx, "selector-field_selector-{impl#1}-select_for_segment.", "FieldSelector::select_for_segment", ghosts)
    E, q = b.E, ctx.q
    r = b.mk("B-1", "ZoneSuRF strategy: when RangePruner::apply_surf_only returns None (filter failed to load, literal "
                    "not encodable, or it matched >90% of more than 10 zones and asks for a full scan) the selector "
                    "returns all zones of the segment - never an empty or partial set")
    out = [b.results["B-1"]]
    if not r:
        return out
    surf = [e for e in E.events if re.search(r"apply_surf_only$", e.func)]
    if not oblig.need_anchor(r, surf, "RangePruner::apply_surf_only in select_for_segment"):
        return out
    sd = z3.BitVec(f"disc({surf[0].site})", 64)
    r.nontrivial = True
    if not E.returns:
        r.status = "inconclusive"
        r.notes.append("no return found")
    for (node, reach, env) in E.returns:
        g, called = env.get("@allzones"), env.get("@surf")
        if g is None or called is None:
            r.status = "inconclusive"
            r.notes.append("ghosts not resolved")
            continue
        res, model = q.check(reach, called, sd == 0, z3.Not(g), domain=E.domain)
        r.queries += 1
        if res == z3.sat:
            r.status = "violated"
            r.witness = {"what": "apply_surf_only returned None but the selector returns without collecting all zones",
                         "span": None, "call": "return", "path": E.path_of_model(model),
                         "model": oblig.model_summary(E, model)}
            break
        # and the value returned on that path derives from the all-zones call
    if r.status == "holds":
        res, _ = q.check(surf[0].reach, domain=E.domain)
        r.queries += 1
        if res != z3.sat:
            r.status = "inconclusive"
            r.notes.append("apply_surf_only call unreachable in the encoding")

    out += no_answer_fallback(ctx)
    out += hydrate_all(ctx)
    out += bool_string_view(ctx)
    out += typed_buffers(ctx)
    out += or_expansion(ctx)
    # the range test of the temporal pruner and the zone-level NOT are part of "the predicate selects the same rows on disk"
    from . import c08
    for r_ in c08.temporal_minmax(ctx):
        r_.id = "B-3"
        out.append(r_)
    # ... and so is the rule that an index pruner answers Some(zones) only after consulting the index (= C08 B-8)
    for r_ in c08.pruner_answers(ctx):
        r_.id = "B-8"
        out.append(r_)
    return out


HYDRATE_SETUP = ('DEFINE t FIELDS { "n": "int", "o": "int | null" }; ' +
                 "; ".join('STORE t FOR c PAYLOAD {"n": %d, "o": %s}' % (k, v) for k, v in enumerate("4,1,0,7,7,null".split(","))))
HYDRATE_QUERIES = ["QUERY t WHERE o > -5", "QUERY t WHERE o >= 0", "QUERY t WHERE n >= 0"]


def replay_hydrate(ctx):
    """two segments of three events; the second holds a null in `o` and so has no range filter for it: a range
    predicate selects zones through the filter in one segment and through the all-zones fallback in the other"""
    from vlib import history
    from .c17 import native_binary
    binary = native_binary(ctx.log)
    if binary is None:
        return False, "native replay program did not build"
    one = history.memory_vs_segment(binary, HYDRATE_SETUP, HYDRATE_QUERIES, capacity=50)
    two = history.memory_vs_segment(binary, HYDRATE_SETUP, HYDRATE_QUERIES, capacity=3)
    short = lambda rows: None if rows is None else sorted(int(json.loads(dict(r).get("n"))) for r in rows)
    if any(m is None for (_q, m, _s) in one):
        return False, "the engine did not answer the in-memory queries"
    diffs = [f"{q}: events n={short(m)} while in memory, n={short(s)} from two flushed segments"
             for (q, m, _s1), (_q2, _m2, s) in zip(one, two) if m != s]
    return bool(diffs), "; ".join(diffs) if diffs else "memory and two-segment answers agree on " + ", ".join(HYDRATE_QUERIES)


def hydrate_all(ctx):
    """ZoneHydrator::hydrate must load column values into every candidate zone. Zones come with a uid (all-zones
    fallbacks) or without one (index pruners build them with CandidateZone::new); the hydrator groups zones by uid."""
    push_counts = lambda ev, E: bool(re.search(r"Vec::<usize>::push$|Vec::push$", ev.func)) and \
        "or_default" in " ".join(sym.describe(a) for a in ev.args[:1])
    ghosts = {"evuid": ghost(r"QueryPlan::event_type_uid$")}
    needle = "zone-zone_hydrator-{impl#0}-hydrate-{closure#0}."
    E, err = ctx.load(needle, ghosts=ghosts, counters={"grouped": push_counts})
    r = oblig.Result("B-5", "ZoneHydrator::hydrate: a candidate zone that carries no uid (built by an index pruner) is still hydrated "
                            "when other candidate zones of the same query carry one (built by an all-zones fallback): whenever the "
                            "per-uid branch is taken although some zone had no uid, the zones without one are loaded with the "
                            "query's event-type uid - a zone left without column values is skipped by the row filter and its "
                            "events vanish from the answer")
    r.functions = ["ZoneHydrator::hydrate"]
    r.bounds = f"classification loop unrolled {ctx.k}x (zones: up to {ctx.k}, each with or without uid), calls opaque, awaited futures ready"
    out = [r]
    if E is None:
        r.status = "inconclusive"
        r.notes.append(err)
        return out
    q = ctx.q
    uids = [e for e in oblig.events(E, r"CandidateZone::uid$")]
    empties = oblig.events(E, r"HashMap::<.*>::is_empty$|HashMap::is_empty$")
    loads = oblig.events(E, r"ZoneValueLoader(::<.*>)?::load_zone_values$")
    if not (oblig.need_anchor(r, uids, "CandidateZone::uid in the classification loop")
            and oblig.need_anchor(r, empties, "zones_by_uid.is_empty()")
            and oblig.need_anchor(r, loads, "ZoneValueLoader::load_zone_values")):
        return out
    r.nontrivial = True
    # loads whose loader was built from the query's event-type uid
    def from_event_type(ev):
        return "event_type_uid" in " ".join(E.trace(ev.args[0], ev.env, depth=8)) if ev.args else False
    typed_loads = [e for e in loads if from_event_type(e)]
    # Decided per classification-loop iteration u: under "this zone has no uid" (disc(uid()) == 0) and "some other zone
    # was grouped under its uid" (ghost counter > 0, and zones_by_uid.is_empty() answers accordingly), is a load with a
    # loader built from the query's event-type uid reachable at all?  (reachability, not coverage: collections are opaque)
    witness = None
    cons = [(E.sym(e.dest_label, "bool") == (e.env.get("#grouped") == 0)) for e in empties
            if E.sym(e.dest_label, "bool") is not None and e.env.get("#grouped") is not None]
    if len(cons) != len(empties):
        r.status = "inconclusive"
        r.notes.append("zones_by_uid.is_empty() result not resolved")
        return out
    mixed_seen = False
    for u in uids:
        du = z3.BitVec(f"disc({u.site})", 64)
        # the mixed situation itself must be reachable at a return (else the obligation is vacuous for this iteration)
        mixed = [reach for (_n, reach, env) in E.returns if env.get("#grouped") is not None
                 and q.check(reach, u.reach, du == 0, env.get("#grouped") != 0, *cons, domain=E.domain)[0] == z3.sat]
        r.queries += len(E.returns)
        if not mixed:
            continue
        mixed_seen = True
        hydrated = False
        for e in typed_loads:
            n = e.env.get("#grouped")
            if n is None:
                continue
            res, _m = q.check(e.reach, u.reach, du == 0, n != 0, *cons, domain=E.domain)
            r.queries += 1
            if res == z3.sat:
                hydrated = True
                break
        if not hydrated:
            res, model = q.check(mixed[0], u.reach, du == 0, *cons, domain=E.domain)
            witness = (u, model)
            break
    if not mixed_seen and not witness:
        r.status = "inconclusive"
        r.notes.append("a return with both uid-less and grouped zones is not reachable in the encoding")
        return out
    if witness:
        u, model = witness
        ok, text = replay_hydrate(ctx)
        r.witness = {"what": "a candidate zone without uid next to one with a uid: the per-uid branch hydrates only the zones "
                             "that carry a uid, the other keeps no column values and the row filter skips it"
                             + (" - end to end: " + text if ok else ""),
                     "span": f"{u.span[0]}:{u.span[1]}" if u.span else None, "call": "CandidateZone::uid",
                     "path": E.path_of_model(model)[-12:], "model": oblig.model_summary(E, model), "native": text}
        r.status = "violated" if ok else "inconclusive"
        if not ok:
            r.notes.append("uid-less zones can stay unhydrated but the end-to-end replay shows no difference: " + text)
    return out


BOOL_SETUP = ('DEFINE t FIELDS { "b": "bool", "n": "int" }; ' +
              "; ".join('STORE t FOR c PAYLOAD {"b": %s, "n": %d}' % (v, k) for k, v in enumerate(["true", "false", "true"])))
BOOL_QUERIES = ["QUERY t WHERE b = true", "QUERY t WHERE b = false", "QUERY t WHERE b != true", 'QUERY t WHERE b = "true"',
                "QUERY t WHERE n >= 1 AND b = true", "QUERY t WHERE n >= 0"]


def replay_bool(ctx):
    from vlib import history
    from .c17 import native_binary
    binary = native_binary(ctx.log)
    if binary is None:
        return False, "native replay program did not build"
    res = history.memory_vs_segment(binary, BOOL_SETUP, BOOL_QUERIES)
    short = lambda rows: None if rows is None else sorted(int(json.loads(dict(r).get("n"))) for r in rows)
    if any(m is None for (_q, m, _s) in res):
        return False, "the engine did not answer the in-memory queries"
    diffs = [f"{q}: events n={short(m)} from memory, n={short(s)} after FLUSH" for (q, m, s) in res if m != s]
    return bool(diffs), "; ".join(diffs) if diffs else "memory and segment answers agree on " + ", ".join(BOOL_QUERIES)


def bool_string_view(ctx):
    """A bool predicate reaches the row filter as a StringCondition over "true" / "false" (the builder has no bool
    condition); on a segment it reads the cell through PreparedAccessor::get_str_at -> ColumnValues::get_str_at.
    A flushed bool column is typed (bitmap payload, no string ranges). Composition of two per-function facts."""
    r = oblig.Result("B-6", "the string view row conditions get of a flushed column answers for typed bool cells: either "
                            "ColumnValues::get_str_at itself consults the typed bool payload, or PreparedAccessor::get_str_at "
                            "(with its closures) falls back to ColumnValues::get_bool_at and returns a value derived from it - "
                            "otherwise `b = true`, `b != true` match no flushed row")
    r.functions = ["ColumnValues::get_str_at", "PreparedAccessor::get_str_at (+ closures)", "StringCondition::evaluate_at"]
    r.bounds = "every path of the three bodies (loop-free); HashMap lookup and slice access opaque"
    out = [r]
    q = ctx.q
    # the condition reads the cell through the accessor's string view
    cond_ok = False
    for f in ctx.find("filter-condition-{impl#"):
        if "-evaluate_at." in f:
            txt = open(f).read()
            if re.search(r"_1: &(?:[\w:]+::)?StringCondition\b", txt[:4000]) and "get_str_at" in txt:
                cond_ok = True
                break
    if not cond_ok:
        r.status = "inconclusive"
        r.notes.append("StringCondition::evaluate_at no longer reads the cell through get_str_at: the obligation does not describe the code")
        return out

    def bool_reads(needle, label):
        """(found body, reachable get_bool_at / typed_bool read whose result flows to the return)"""
        hits, bodies = False, 0
        for f in sorted(ctx.find(needle)):
            E, err = ctx.load_file(f) if hasattr(ctx, "load_file") else (None, None)
            if E is None:
                E, err = ctx.load(os.path.basename(f).split(".2-2-")[0].replace("snel_db.engine-core-", "") + ".", ghosts={})
            if E is None:
                continue
            bodies += 1
            evs = oblig.events(E, r"ColumnValues::get_bool_at$")
            for e in evs:
                res, _ = q.check(e.reach, domain=E.domain)
                r.queries += 1
                if res != z3.sat:
                    continue
                for (_n, reach, env) in E.returns:
                    if "get_bool_at" in " ".join(E.trace(env.get(0), env, depth=10)):
                        hits = True
            # a direct read of the typed_bool field in ColumnValues::get_str_at
            if label == "column":
                fields = E.structs._fields("ColumnValues") or []
                if "typed_bool" in fields:
                    idx = fields.index("typed_bool")
                    if re.search(r"\(\*_1\)\.%d\b" % idx, open(f).read()):
                        hits = True
        return bodies, hits

    nb_col, col = bool_reads("column-column_values-{impl#0}-get_str_at.", "column")
    nb_acc, acc = bool_reads("filter-condition-{impl#1}-get_str_at", "accessor")
    if nb_col == 0 or nb_acc == 0:
        r.status = "inconclusive"
        r.notes.append(f"bodies not found (ColumnValues::get_str_at: {nb_col}, PreparedAccessor::get_str_at: {nb_acc})")
        return out
    r.nontrivial = True
    r.notes.append(f"ColumnValues::get_str_at consults the bool payload: {col}; PreparedAccessor::get_str_at falls back to get_bool_at: {acc}")
    if not (col or acc):
        ok, text = replay_bool(ctx)
        r.witness = {"what": "neither ColumnValues::get_str_at nor PreparedAccessor::get_str_at reads the typed bool payload: the string "
                             "condition built for a bool predicate sees None for every cell of a flushed bool column"
                             + (" - end to end: " + text if ok else ""),
                     "span": "src/engine/core/filter/condition.rs", "call": "PreparedAccessor::get_str_at", "path": [], "model": {},
                     "native": text}
        r.status = "violated" if ok else "inconclusive"
        if not ok:
            r.notes.append("no bool read on the string view but the end-to-end replay shows no difference: " + text)
    return out


BUFFER_SETUP = ('DEFINE t FIELDS { "u": "u64 | null", "f": "float | null", "i": "int | null", "n": "int" }; ' +
                "; ".join('STORE t FOR c PAYLOAD {"u": %s, "f": %s, "i": %s, "n": %d}' % (u, f, i, k)
                          for k, (u, f, i) in enumerate([("null", "null", "null"), ("3", "3.5", "-3"), ("4", "4.5", "4")])))
BUFFER_QUERIES = ["QUERY t WHERE u >= 3", "QUERY t WHERE i >= -3", "QUERY t WHERE u < 4", "QUERY t WHERE n >= 0"]


def replay_buffers(ctx):
    """optional numeric fields whose first stored row is null, single top-level comparison (the SIMD buffer path)"""
    from vlib import history
    from .c17 import native_binary
    binary = native_binary(ctx.log)
    if binary is None:
        return False, "native replay program did not build"
    res = history.memory_vs_segment(binary, BUFFER_SETUP, BUFFER_QUERIES)
    short = lambda rows: None if rows is None else sorted(int(json.loads(dict(r).get("n"))) for r in rows)
    if any(m is None for (_q, m, _s) in res):
        return False, "the engine did not answer the in-memory queries"
    diffs = [f"{q}: events n={short(m)} from memory, n={short(s)} after FLUSH" for (q, m, s) in res if m != s]
    return bool(diffs), "; ".join(diffs) if diffs else "memory and segment answers agree on " + ", ".join(BUFFER_QUERIES)


def typed_buffers(ctx):
    """evaluate_numeric_simd asks the accessor for a (values, validity) buffer per numeric lane and treats None as
    "this column is not of that lane"; a None for a column that does hold values of the lane clears the whole zone."""
    r = oblig.Result("B-7", "PreparedAccessor::get_{i64,u64,f64}_buffer_with_validity answer None only when the column is absent or "
                            "the whole row range was examined and no row held a value of the lane - never because of one "
                            "particular row (a null in the first row of a zone), which would make the SIMD filter drop the zone")
    r.functions = []
    r.bounds = f"row loop unrolled {ctx.k}x; HashMap lookup and per-row getters opaque"
    out = [r]
    q = ctx.q
    for lane in ("i64", "u64", "f64"):
        needle = "filter-condition-{impl#0}-get_%s_buffer_with_validity." % lane
        E, err = ctx.load(needle, ghosts={})
        if E is None:
            r.status = "inconclusive"
            r.notes.append(err)
            return out
        r.functions.append(f"PreparedAccessor::get_{lane}_buffer_with_validity")
        gets = oblig.events(E, r"HashMap(::<.*>)?::get(::<.*>)?$")
        nexts = oblig.events(E, r"Iterator>?::next$")
        cells = oblig.events(E, r"ColumnValues::get_%s_at$" % lane)
        if not (oblig.need_anchor(r, gets, "columns.get(field)") and oblig.need_anchor(r, nexts, "row loop")
                and oblig.need_anchor(r, cells, f"get_{lane}_at")):
            return out
        present = z3.BitVec(f"disc({gets[0].site})", 64) == 1
        done = z3.Or([z3.And(e.reach, z3.BitVec(f"disc({e.site})", 64) == 0) for e in nexts])
        valid = z3.Or([z3.And(e.reach, z3.BitVec(f"disc({e.site})", 64) == 1) for e in cells
                       if e.args and "Iterator::next" in sym.describe(e.args[-1])] or [z3.BoolVal(False)])
        for (node, reach, env) in E.returns:
            d = E.disc_term(env.get(0))
            if d is None:
                r.status = "inconclusive"
                r.notes.append("return value not resolved")
                return out
            for what, cond in (("before the row range was examined to its end", z3.Not(done)),
                               ("although a row of the range held a value of the lane", valid)):
                res, model = q.check(reach, d == 0, present, cond, domain=E.domain)
                r.queries += 1
                if res == z3.sat:
                    ok, text = replay_buffers(ctx)
                    r.witness = {"what": f"get_{lane}_buffer_with_validity answers None for a column that is present {what}: "
                                         f"evaluate_numeric_simd then takes the column for another lane and clears the zone's keep-mask"
                                         + (" - end to end: " + text if ok else ""),
                                 "span": None, "call": f"get_{lane}_buffer_with_validity", "path": E.path_of_model(model)[-10:],
                                 "model": oblig.model_summary(E, model), "native": text}
                    r.status = "violated" if ok else "inconclusive"
                    if not ok:
                        r.notes.append("a row-dependent None is reachable but the end-to-end replay shows no difference: " + text)
                    return out
                if res != z3.unsat:
                    r.status = "inconclusive"
                    r.notes.append("solver returned unknown")
                    return out
    r.nontrivial = True
    return out


PRUNERS = [
    ("temporal", r"TemporalPruner::<?.*apply_temporal_only$|TemporalPruner::apply_temporal_only$"),
    ("enum", r"EnumPruner.*::apply$"),
    ("zxf", r"XorPruner::<?.*apply_zone_index_only$|XorPruner::apply_zone_index_only$"),
    ("presence", r"XorPruner::<?.*apply_presence_only$|XorPruner::apply_presence_only$"),
    ("surf", r"RangePruner::<?.*apply_surf_only$|RangePruner::apply_surf_only$"),
]


NOANSWER_SETUP = ('DEFINE t FIELDS { "i": "int", "s": "string", "e": ["red", "green"], "o": "int | null", "d": "datetime" }; '
                  'STORE t FOR c0 PAYLOAD {"i": 1, "s": "apple", "e": "red", "o": 5, "d": 1700000000}; '
                  'STORE t FOR c1 PAYLOAD {"i": -2, "s": "10", "e": "green", "o": null, "d": 1700000001}; '
                  'STORE t FOR c0 PAYLOAD {"i": 0, "s": "", "e": "red", "o": 0, "d": 1700000002}')
NOANSWER_QUERIES = ['QUERY t WHERE i != 1', 'QUERY t WHERE s != "apple"', 'QUERY t WHERE e != "blue"', 'QUERY t WHERE o != 5',
                    'QUERY t WHERE d != 1700000000', 'QUERY t WHERE i = 1', 'QUERY t WHERE e != "red"']


def replay_no_answer(ctx):
    """the same predicates over the same three events, answered from the memtable and then from the flushed segment"""
    from vlib import history
    from .c17 import native_binary
    binary = native_binary(ctx.log)
    if binary is None:
        return False, "native replay program did not build"
    res = history.memory_vs_segment(binary, NOANSWER_SETUP, NOANSWER_QUERIES)
    short = lambda rows: None if rows is None else sorted(dict(r).get("i") for r in rows)
    diffs = [f"{q}: rows with i={short(m)} from memory, i={short(s)} after FLUSH" for (q, m, s) in res if m != s]
    if any(m is None for (_q, m, _s) in res):
        return False, "the engine did not answer the in-memory queries: " + "; ".join(q for (q, m, _s) in res if m is None)
    return bool(diffs), "; ".join(diffs) if diffs else "memory and segment answers agree on " + ", ".join(NOANSWER_QUERIES)


def no_answer_fallback(ctx):
    """Every index strategy: a pruner that has no answer (None: operator the index cannot serve such as
    !=, literal of another type, artefact missing) must lead to all zones of the segment, which the row
    filter then decides - never to an empty candidate list."""
    ghosts = {"allzones": ghost(r"create_all_zones_for_segment_from_meta_cached|collect_zones_for_scope")}
    for name, rx in PRUNERS:
        ghosts[name] = ghost(rx)
    b = Builder(ctx, "selector-field_selector-{impl#1}-select_for_segment.", "FieldSelector::select_for_segment", ghosts)
    E, q = b.E, ctx.q
    r = b.mk("B-4", "every IndexStrategy arm of FieldSelector::select_for_segment: when the arm's pruner returns None "
                    "(operator the index cannot answer, e.g. !=; literal it cannot encode; artefact missing) the "
                    "selector returns all zones of the segment for the row filter to decide - never an empty list")
    out = [b.results["B-4"]]
    if not r:
        return out
    found = 0
    for name, rx in PRUNERS:
        evs = [e for e in E.events if re.search(rx, e.func)]
        if not evs:
            continue
        found += 1
        sd = z3.BitVec(f"disc({evs[0].site})", 64)
        for (node, reach, env) in E.returns:
            g, called = env.get("@allzones"), env.get("@" + name)
            if g is None or called is None:
                r.status = "inconclusive"
                r.notes.append("ghosts not resolved")
                continue
            res, model = q.check(reach, called, sd == 0, z3.Not(g), domain=E.domain)
            r.queries += 1
            if res == z3.sat:
                r.status = "violated"
                r.witness = {"what": f"{evs[0].func.split('::')[-1]} returned None (no answer) but the selector returns "
                                     f"without collecting all zones: the segment contributes no rows to the query",
                             "pruner": name, "span": None, "call": "return", "path": E.path_of_model(model),
                             "model": oblig.model_summary(E, model)}
                r.bad = getattr(r, "bad", []) + [name]
                break
    r.nontrivial = found >= 4
    if found < 4 and r.status == "holds":
        r.status = "inconclusive"
        r.notes.append(f"only {found} pruner calls found in select_for_segment")
    if getattr(r, "bad", None):
        r.notes.append("arms that drop the segment: " + ", ".join(r.bad))
        ok, text = replay_no_answer(ctx)
        r.witness["native"] = text
        r.witness["arms"] = r.bad
        if ok:
            r.witness["what"] += " - end to end: " + text
        else:
            r.status = "inconclusive"
            r.notes.append("a no-answer arm returns no zones but the end-to-end replay did not show a difference: " + text)
    return out


def or_expansion(ctx):
    """FilterGroupBuilder::extract_or_equality_values turns `x = a OR x = b OR ...` into an IN-style
    list that drives zone pruning: only equality leaves may be folded in."""
    b = Builder(ctx, "filter-filter_group_builder-{impl#0}-extract_or_equality_values.",
                "FilterGroupBuilder::extract_or_equality_values", {})
    E, q = b.E, ctx.q
    r = b.mk("B-2", "extract_or_equality_values returns Some (an OR folded into a list of equality values, used for zone "
                    "pruning) only when every comparison leaf it consumed has the operator `=`; a range or `!=` leaf makes "
                    "it return None so the OR is pruned branch by branch")
    res = [b.results["B-2"]]
    if not r:
        return res
    if not E.returns:
        r.status = "inconclusive"
        r.notes.append("no return")
        return res
    r.nontrivial = True
    (node, reach, env) = E.returns[0]
    ret = env.get(0)
    d = E.discriminant(ret, E.fn.types.get(0, "")) if ret is not None else None
    if d is None or not sym.is_term(d):
        r.status = "inconclusive"
        r.notes.append("return value not resolved")
        return res
    ops = sorted({k for k in E.domain if re.match(r"^disc\(arg:(left|right):Compare\.(op|1)\)$", k)})
    if len(ops) < 2:
        r.status = "inconclusive"
        r.notes.append(f"operator discriminants of the two operands not found ({sorted(E.domain)[:6]})")
        return res
    for side, opname in (("left", [o for o in ops if ":left:" in o][0]), ("right", [o for o in ops if ":right:" in o][0])):
        is_cmp = z3.BitVec(f"disc(arg:{side})", 64) == 0   # Expr::Compare is the first variant
        op = z3.BitVec(opname, 64)
        rr, model = q.check(reach, d == 1, is_cmp, op != 0, domain=E.domain)   # CompareOp::Eq is the first variant
        r.queries += 1
        if rr == z3.sat:
            r.status = "violated"
            r.witness = {"what": f"an OR whose {side} operand is a comparison with an operator other than `=` can be folded "
                                 f"into an equality list (zones matching the range / != branch are then pruned)",
                         "span": None, "call": "return", "path": E.path_of_model(model), "model": oblig.model_summary(E, model)}
            break
    return res
