"""C02 (Engine B part) - zone selection falls back to all zones when a range index is
unavailable or declares itself unselective."""
import re

import z3

from .. import oblig, sym
from .flushspec import Builder, ghost

FILTERS = []


def obligations(ctx):
    ghosts = {
        "allzones": ghost(r"create_all_zones_for_segment_from_meta_cached|collect_zones_for_scope"),
        "surf": ghost(r"RangePruner::<?.*apply_surf_only$|RangePruner::apply_surf_only$"),
    }
    b = Builder(ctx, "selector-field_selector-{impl#1}-select_for_segment.", "FieldSelector::select_for_segment", ghosts)
    E, q = b.E, ctx.q
    r = b.mk("B-1", "ZoneSuRF strategy: when RangePruner::apply_surf_only returns None (filter failed to load, literal "
                    "not encodable, or it matched >90% of more than 10 zones and asks for a full scan) the selector "
                    "returns all zones of the segment - never an empty or partial set")
    out = [b.results["B-1"]]
    if not r:
        return out
    surf = [e for e in E.events if re.search(r"apply_surf_only$", e.func)]
    if not oblig.need_anchor(r, surf, "RangePruner::apply_surf_only in select_for_segment"):
        return out
    sd = z3.BitVec(f"disc({surf[0].site})", 64)
    r.nontrivial = True
    if not E.returns:
        r.status = "inconclusive"
        r.notes.append("no return found")
    for (node, reach, env) in E.returns:
        g, called = env.get("@allzones"), env.get("@surf")
        if g is None or called is None:
            r.status = "inconclusive"
            r.notes.append("ghosts not resolved")
            continue
        res, model = q.check(reach, called, sd == 0, z3.Not(g), domain=E.domain)
        r.queries += 1
        if res == z3.sat:
            r.status = "violated"
            r.witness = {"what": "apply_surf_only returned None but the selector returns without collecting all zones",
                         "span": None, "call": "return", "path": E.path_of_model(model),
                         "model": oblig.model_summary(E, model)}
            break
        # and the value returned on that path derives from the all-zones call
    if r.status == "holds":
        res, _ = q.check(surf[0].reach, domain=E.domain)
        r.queries += 1
        if res != z3.sat:
            r.status = "inconclusive"
            r.notes.append("apply_surf_only call unreachable in the encoding")

    return out
