"""C11 - published segments appear / disappear as a whole."""
from . import allocspec, flushspec, handoverspec
from ._util import pick

FILTERS = []


def obligations(ctx):
    out = []
    out += pick(flushspec.flush_task(ctx), [("B-1", "publish-guard")])
    out += pick(flushspec.index_save(ctx), [("B-2", "temp-fsync-rename"), ("B-2b", "rename-target")])
    out += pick(flushspec.index_load(ctx), [("B-2c", "stale-temp-removed")])
    out += pick(flushspec.index_builder(ctx), [("B-2d", "index-rmw-under-lock")])
    ho = handoverspec.commit_batch(ctx)
    out += pick(ho, [("B-3", "exists-before-index"), ("B-3b", "index-before-livelist"), ("B-3c", "index-under-flush-lock")])
    out += pick(allocspec.allocator_step(ctx), [("B-4", "allocator-step"), ("B-4r", "allocator-range")])
    out += pick(allocspec.plan_output_ids(ctx), [("B-5", "fresh-output-id")])
    out += pick(allocspec.allocator_seed(ctx), [("B-6", "allocator-seed")])
    out += pick(allocspec.allocator_seed_input(ctx), [("B-7", "allocator-seed-input")])
    return out
