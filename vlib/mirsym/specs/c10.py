"""C10 (Engine B part) - OFFSET / LIMIT are applied once, as a window over the deduplicated
rows, and OFFSET without LIMIT is rejected before any work is dispatched."""
import re

import z3

from .. import oblig, sym
from . import writerspec
from .flushspec import Builder
from ._util import pick

FILTERS = []


def merger_window(ctx):
    """k-way merge: the n-th row handed to the output batch is the (offset + n)-th row popped
    from the heap (the heap yields the merged order), and rows stop at the limit"""
    def pop_counts(ev, E):
        if re.search(r"BinaryHeap::<.*HeapItem>::pop$|BinaryHeap::pop$", ev.func):
            return z3.BitVec(f"disc({ev.site})", 64) == 1
        return None

    def push_counts(ev, E):
        if re.search(r"ColumnBatchBuilder::push_row$", ev.func):
            return z3.BoolVal(True)
        return None

    needle = "flow-ordered_merger-{impl#2}-run-{closure#0}."
    E, err = ctx.load(needle, ghosts={}, k=3, counters={"pops": pop_counts, "emits": push_counts})
    r = oblig.Result("B-3", "OrderedStreamMerger (MergerState::run): a row is handed to the output batch only as the "
                            "(offset + n)-th row popped from the merge heap, n = rows emitted so far + 1 - i.e. exactly the first "
                            "`offset` rows of the merged order are discarded, whatever happens to the individual inputs - and no row "
                            "is emitted once `limit` rows were")
    r.functions = ["MergerState::run"]
    r.bounds = "at most 3 loop iterations in total (stream priming + merge loop), offset and limit symbolic over usize; heap and streams opaque"
    out = [r]
    if E is None:
        r.status = "inconclusive"
        r.notes.append(err)
        return out
    pushes = oblig.events(E, r"ColumnBatchBuilder::push_row$")
    pops = oblig.events(E, r"BinaryHeap::<.*HeapItem>::pop$|BinaryHeap::pop$")
    if not oblig.need_anchor(r, pushes, "ColumnBatchBuilder::push_row") or not oblig.need_anchor(r, pops, "BinaryHeap::pop"):
        return out
    offset = E.sym("cap:self.offset", "usize")
    lim = [e for e in oblig.events(E, r"Option::<usize>::unwrap_or$|Option::unwrap_or$") if e.args and "limit" in sym.describe(e.args[0])]
    if not lim:
        r.status = "inconclusive"
        r.notes.append("anchor not found: self.limit.unwrap_or(..)")
        return out
    r.nontrivial = True
    q = ctx.q
    multi = False
    for ev in pushes:
        r.anchors.append(f"{ev.short}@bb{ev.bb}.{ev.layer}")
        before = getattr(ev, "counts_before", {})
        npop, nemit = ev.env.get("#pops"), before.get("emits")
        if npop is None or nemit is None:
            r.status = "inconclusive"
            r.notes.append("ghost counters missing")
            return out
        # the row pushed must be the one just popped
        src = " ".join(E.trace(ev.args[1], ev.env, depth=6)) if len(ev.args) > 1 else ""
        if "BinaryHeap::pop" not in src:
            r.status = "violated"
            r.witness = {"what": "the row handed to the output batch is not the row just popped from the merge heap",
                         "span": f"{ev.span[0]}:{ev.span[1]}" if ev.span else None, "call": ev.func[:100], "path": [], "model": {}}
            return out
        small = z3.ULT(offset, 1 << 20)
        res, model = q.check(ev.reach, small, z3.ZeroExt(32, npop) != offset + z3.ZeroExt(32, nemit) + 1, domain=E.domain)
        r.queries += 1
        if res == z3.sat:
            res_s, model_s = q.check(ev.reach, z3.ULE(offset, 4), z3.ZeroExt(32, npop) != offset + z3.ZeroExt(32, nemit) + 1, domain=E.domain)
            if res_s == z3.sat:
                model = model_s
            r.status = "violated"
            r.witness = {"what": f"with OFFSET {model.eval(offset, model_completion=True)} a row is emitted as row "
                                 f"{model.eval(nemit, model_completion=True).as_long() + 1} of the answer although it is row "
                                 f"{model.eval(npop, model_completion=True)} of the merged order (e.g. an input ran dry while rows were being skipped)",
                         "span": f"{ev.span[0]}:{ev.span[1]}" if ev.span else None, "call": ev.func[:100],
                         "path": E.path_of_model(model)[-12:], "model": {"offset": str(model.eval(offset, model_completion=True))}}
            return out
        if res != z3.unsat:
            r.status = "inconclusive"
            r.notes.append("solver returned unknown")
            return out
        lt = E.var_term(ev.env, "limit")
        if lt is None:
            r.status = "inconclusive"
            r.notes.append("source variable `limit` not resolved at push_row")
            return out
        res, model = q.check(ev.reach, z3.UGE(z3.ZeroExt(32, nemit), lt), domain=E.domain)
        r.queries += 1
        if res == z3.sat:
            r.status = "violated"
            r.witness = {"what": "a row is emitted although `limit` rows were already emitted",
                         "span": f"{ev.span[0]}:{ev.span[1]}" if ev.span else None, "call": ev.func[:100], "path": [], "model": {}}
            return out
        res, _ = q.check(ev.reach, npop == 2, domain=E.domain)
        r.queries += 1
        multi = multi or res == z3.sat
    if not multi:
        r.status = "inconclusive"
        r.notes.append("no emitted row beyond the first pop is reachable within the unrolling (vacuity guard)")
    return out


def source_limits(ctx):
    """a per-source cut never uses the user's LIMIT directly: under ORDER BY a source must hand on
    everything (or LIMIT + OFFSET), because OFFSET is applied once, after the merge"""
    out = []
    b = Builder(ctx, "operators-memtable_source-{impl#0}-determine_limit.", "MemTableSource::determine_limit", {})
    E, q = b.E, ctx.q
    r = b.mk("B-4", "MemTableSource: the local row limit is None whenever the query is ordered (should_defer_limit), otherwise "
                    "limit_override (LIMIT + OFFSET) before the plan's LIMIT; and every truncation of the collected rows in "
                    "MemTableSource::run uses that local limit - never the plan's LIMIT itself")
    out.append(b.results["B-4"])
    if not r:
        return out
    sd = oblig.events(E, r"QueryContext::should_defer_limit$")
    oe = [e for e in E.events if re.search(r"Option::<usize>::or_else", e.func)]
    if not oblig.need_anchor(r, sd, "should_defer_limit") or not E.returns:
        return out
    r.nontrivial = True
    defer = E.sym(sd[0].site, "bool")
    for (_n, reach, env) in E.returns:
        d = E.disc_term(env.get(0))
        v = env.get(0)
        if d is None:
            r.status = "inconclusive"
            r.notes.append("determine_limit's result is not an Option with a known discriminant")
            return out
        res, model = q.check(reach, defer, d != 0, domain=E.domain)
        r.queries += 1
        if res == z3.sat:
            r.status = "violated"
            r.witness = {"what": "determine_limit returns a limit for an ordered query: the source cuts its rows before the merge applied OFFSET",
                         "span": None, "call": "MemTableSource::determine_limit", "path": [], "model": {}}
            return out
    if not oe or "limit_override" not in sym.describe(oe[0].args[0]):
        r.status = "violated"
        r.witness = {"what": "the unordered local limit is not `limit_override.or_else(plan LIMIT)`", "span": None,
                     "call": "MemTableSource::determine_limit", "path": [], "model": {}}
        return out
    b2 = Builder(ctx, "operators-memtable_source-{impl#2}-run-{closure#0}.", "MemTableSource::run", {})
    E2 = b2.E
    if E2 is None:
        r.status = "inconclusive"
        r.notes.append(b2.err)
        return out
    tr = [e for e in E2.events if re.search(r"Vec::<.*>::truncate$", e.func)]
    dl = oblig.events(E2, r"MemTableSource::determine_limit$")
    if not oblig.need_anchor(r, tr, "rows.truncate in MemTableSource::run") or not oblig.need_anchor(r, dl, "determine_limit call"):
        return out
    for e in tr:
        src = E2.trace(e.args[1], e.env, depth=8) | {sym.describe(e.args[1])} if len(e.args) > 1 else set()
        if not any("MemTableSource::determine_limit" in x for x in src) or any(re.search(r"QueryPlan::limit", x) for x in src):
            r.status = "violated"
            r.witness = {"what": "MemTableSource::run truncates its sorted rows by something other than its local limit "
                                 f"(derives from {sorted(x for x in src if '::' in x)[:4]}): with ORDER BY ... LIMIT n OFFSET m the rows "
                                 "m..m+n of the merged order are cut off before the merge",
                         "span": f"{e.span[0]}:{e.span[1]}" if e.span else None, "call": e.func[:80], "path": [], "model": {}}
            return out
    return out


def shard_merge_budget(ctx):
    """the per-shard ordered merge runs before the coordinator applies OFFSET: it may skip nothing and must let
    LIMIT + OFFSET rows through"""
    b = Builder(ctx, "query-streaming-merger-{impl#0}-merge-{closure#0}.", "ShardFlowMerger::merge", {})
    E, q = b.E, ctx.q
    r = b.mk("B-5", "ShardFlowMerger::merge: the shard-level OrderedStreamMerger is started with offset 0 and with the shard's row "
                    "budget StreamingContext::effective_limit - and that budget is LIMIT + OFFSET (StreamingContext::new) - never "
                    "the plan's LIMIT alone, which would cut rows LIMIT..LIMIT+OFFSET of a shard before the coordinator skips OFFSET")
    out = [b.results["B-5"]]
    if not r:
        return out
    spawns = oblig.events(E, r"OrderedStreamMerger::spawn$")
    if not oblig.need_anchor(r, spawns, "OrderedStreamMerger::spawn in ShardFlowMerger::merge"):
        return out
    r.nontrivial = True
    for e in spawns:
        if len(e.args) < 6:
            r.status = "inconclusive"
            r.notes.append("spawn call has an unexpected arity")
            return out
        off = E.to_term(e.args[4], "usize")
        if off is None:
            r.status = "inconclusive"
            r.notes.append("offset argument not resolved")
            return out
        res, model = q.check(e.reach, off != 0, domain=E.domain)
        r.queries += 1
        src = E.trace(e.args[5], e.env, depth=8) | {sym.describe(e.args[5])}
        plain = any(re.search(r"QueryPlan::limit", x) for x in src)
        eff = any("effective_limit" in x for x in src)
        if res == z3.sat or plain or not eff:
            r.status = "violated"
            r.witness = {"what": ("the shard-level ordered merge skips rows itself (offset argument can be non-zero)" if res == z3.sat else
                                  f"the shard-level ordered merge is limited by {sorted(x for x in src if '::' in x)[:3]} instead of the shard budget "
                                  "LIMIT + OFFSET: with ORDER BY ... LIMIT n OFFSET m each shard hands on only n rows, the coordinator skips m of them"),
                         "span": f"{e.span[0]}:{e.span[1]}" if e.span else None, "call": "OrderedStreamMerger::spawn", "path": [], "model": {}}
            return out
    # the budget itself: effective_limit = limit.map(|l| l + offset.unwrap_or(0))
    b2 = Builder(ctx, "streaming-context-{impl#0}-new-{closure#0}.", "StreamingContext::new", {})
    E2 = b2.E
    if E2 is None:
        r.status = "inconclusive"
        r.notes.append(b2.err)
        return out
    maps = [e for e in oblig.events(E2, r"Option::<usize>::map|Option::map") if e.args and "QueryPlan::limit" in sym.describe(e.args[0])]
    if not oblig.need_anchor(r, maps, "plan.limit().map(..) in StreamingContext::new"):
        return out
    # the closure body adds the offset
    adds = False
    for f in ctx.find("streaming-context-{impl#0}-new-{closure#0}-{closure#"):
        txt = open(f).read()
        if re.search(r"QueryPlan::offset", txt) and re.search(r"AddWithOverflow|= Add\(", txt):
            adds = True
    stored = False
    for (_n, reach, env) in E2.returns:
        if "Option::map" in " ".join(E2.trace(env.get(0), env, depth=10)):
            stored = True
    if not adds or not stored:
        r.status = "violated"
        r.witness = {"what": "StreamingContext::new does not compute the shard budget as LIMIT + OFFSET "
                             f"(closure adds the offset: {adds}; result stored in the context: {stored})",
                     "span": "src/engine/query/streaming/context.rs", "call": "StreamingContext::new", "path": [], "model": {}}
    return out


def runner_comparator(ctx):
    """each shard sorts its segment rows with this function before the k-way merge, which orders by ScalarValue::compare:
    the two have to be the same order or the merge is not a merge of sorted inputs"""
    b = Builder(ctx, "read-segment_query_runner-compare_scalar_values.", "segment_query_runner::compare_scalar_values", {})
    E, q = b.E, ctx.q
    r = b.mk("B-6", "the segment runner's row comparator returns on every path either the comparison of the two unsigned views "
                    "(both as_u64 answered Some) or exactly ScalarValue::compare(a, b) - the order the merge heap and the memtable "
                    "source use (Kani A-1..A-3 decide that order itself); it takes no ordering decision of its own, e.g. about nulls")
    out = [b.results["B-6"]]
    if not r:
        return out
    if not E.returns:
        r.status = "inconclusive"
        r.notes.append("no return")
        return out
    r.nontrivial = True
    for (_n, reach, env) in E.returns:
        res, model = q.check(reach, domain=E.domain)
        r.queries += 1
        if res != z3.sat:
            continue
        v = env.get(0)
        alts = v.alts if isinstance(v, sym.Phi) else [(z3.BoolVal(True), v)]
        for (c, x) in alts:
            res, model = q.check(reach, c, domain=E.domain)
            r.queries += 1
            if res != z3.sat:
                continue
            d = sym.describe(x)
            src = " ".join(E.trace(x, env, depth=6) | {d})
            ok_cmp = re.search(r"ScalarValue::compare#\d+", d) is not None
            ok_u64 = re.search(r"Ord::cmp#\d+", d) is not None and "as_u64" in src
            if not (ok_cmp or ok_u64):
                r.status = "violated"
                r.witness = {"what": f"the comparator returns `{d[:80]}` on some path - an ordering decision of its own instead of ScalarValue::compare: "
                                     "segment rows are sorted by another order than the one the merge assumes",
                             "span": "src/engine/core/read/segment_query_runner.rs", "call": "compare_scalar_values",
                             "path": E.path_of_model(model)[-6:], "model": {}}
                return out
    return out


def obligations(ctx):
    out = pick(writerspec.accept_row(ctx), [("B-1", "window"), ("B-1b", "dedup")])
    out += merger_window(ctx)
    out += source_limits(ctx)
    out += shard_merge_budget(ctx)
    out += runner_comparator(ctx)
    b = Builder(ctx, "handlers-query-handler-{impl#0}-handle-{closure#0}.", "QueryCommandHandler::handle", {})
    E, q = b.E, ctx.q
    r = b.mk("B-2", "QueryCommandHandler::handle: the execution pipeline is built only if the query does not combine an "
                    "OFFSET with a missing LIMIT (such queries are answered with an error)")
    out.append(b.results["B-2"])
    if r:
        eff = oblig.events(E, r"QueryExecutionPipeline::<.*>::new$|QueryExecutionPipeline::new$")
        some = [e for e in E.events if re.search(r"Option::<u32>::is_some$|Option::<.*>::is_some$", e.func)]
        none = [e for e in E.events if re.search(r"Option::<u32>::is_none$|Option::<.*>::is_none$", e.func)]
        if oblig.need_anchor(r, eff, "QueryExecutionPipeline::new") and oblig.need_anchor(r, some, "offset.is_some()") and \
                oblig.need_anchor(r, none, "limit.is_none()"):
            def field_idx(v):
                if isinstance(v, sym.Ref):
                    fs = [p for p in v.place.projs if p[0] == "field"]
                    return fs[-1][1] if fs else None
                return None
            ov, _ = E.var(eff[0].env, "offset")
            lv, _ = E.var(eff[0].env, "limit")
            oi, li = field_idx(ov), field_idx(lv)
            so = [e for e in some if oi is not None and field_idx(e.args[0]) == oi]
            nl = [e for e in none if li is not None and field_idx(e.args[0]) == li]
            if not so or not nl:
                r.status = "inconclusive"
                r.notes.append("offset.is_some() / limit.is_none() tests not recognised")
            else:
                def phi(ev):
                    return z3.Not(z3.And(E.sym(so[0].site, "bool"), z3.Implies(nl[0].reach, E.sym(nl[0].site, "bool")), nl[0].reach))
                oblig.guarded(r, E, q, eff, phi, "pipeline built for a query with OFFSET and no LIMIT")
    return out
