"""C10 (Engine B part) - OFFSET / LIMIT are applied once, as a window over the deduplicated
rows, and OFFSET without LIMIT is rejected before any work is dispatched."""
import re

import z3

from .. import oblig, sym
from . import writerspec
from .flushspec import Builder
from ._util import pick

FILTERS = []


def obligations(ctx):
    out = pick(writerspec.accept_row(ctx), [("B-1", "window"), ("B-1b", "dedup")])
    b = Builder(ctx, "handlers-query-handler-{impl#0}-handle-{closure#0}.", "QueryCommandHandler::handle", {})
    E, q = b.E, ctx.q
    r = b.mk("B-2", "QueryCommandHandler::handle: the execution pipeline is built only if the query does not combine an "
                    "OFFSET with a missing LIMIT (such queries are answered with an error)")
    out.append(b.results["B-2"])
    if r:
        eff = oblig.events(E, r"QueryExecutionPipeline::<.*>::new$|QueryExecutionPipeline::new$")
        some = [e for e in E.events if re.search(r"Option::<u32>::is_some$|Option::<.*>::is_some$", e.func)]
        none = [e for e in E.events if re.search(r"Option::<u32>::is_none$|Option::<.*>::is_none$", e.func)]
        if oblig.need_anchor(r, eff, "QueryExecutionPipeline::new") and oblig.need_anchor(r, some, "offset.is_some()") and \
                oblig.need_anchor(r, none, "limit.is_none()"):
            def field_idx(v):
                if isinstance(v, sym.Ref):
                    fs = [p for p in v.place.projs if p[0] == "field"]
                    return fs[-1][1] if fs else None
                return None
            ov, _ = E.var(eff[0].env, "offset")
            lv, _ = E.var(eff[0].env, "limit")
            oi, li = field_idx(ov), field_idx(lv)
            so = [e for e in some if oi is not None and field_idx(e.args[0]) == oi]
            nl = [e for e in none if li is not None and field_idx(e.args[0]) == li]
            if not so or not nl:
                r.status = "inconclusive"
                r.notes.append("offset.is_some() / limit.is_none() tests not recognised")
            else:
                def phi(ev):
                    return z3.Not(z3.And(E.sym(so[0].site, "bool"), z3.Implies(nl[0].reach, E.sym(nl[0].site, "bool")), nl[0].reach))
                oblig.guarded(r, E, q, eff, phi, "pipeline built for a query with OFFSET and no LIMIT")
    return out
