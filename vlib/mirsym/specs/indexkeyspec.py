"""Obligations over the segment index tree's keying (C05, C11). The tree files an entry under
(level, offset-in-level) computed from its id on insertion; the compaction hand-over retires
input segments by label through `retire_uid_from_labels` / `remove_labels`, which recompute the
key from the parsed label. A retired input must be looked up under the key it was inserted with,
otherwise the hand-over silently retires nothing and the index lists inputs and output together."""
import re

import z3

from .. import oblig, sym
from ..oblig import Result
from .flushspec import Builder
from .c17 import native_binary, run_native

OFF = "segment_index-{impl#0}-offset_in_level."
ELV = "segment_index-{impl#0}-level."
INS = "segment_index-{impl#1}-insert."
RET = "segment_index-{impl#2}-retire_uid_from_labels."
RML = "segment_index-{impl#2}-remove_labels."
SLV = "segment_id-{impl#0}-level."


def _free_vars(t):
    seen, out, work = {}, {}, [t]
    while work:
        x = work.pop()
        if x.get_id() in seen:
            continue
        seen[x.get_id()] = x
        if z3.is_const(x) and x.decl().kind() == z3.Z3_OP_UNINTERPRETED:
            out[str(x)] = x
        work.extend(x.children())
    return out


def _summary(ctx, needle, label):
    b = Builder(ctx, needle, label, {})
    E = b.E
    if E is None or not E.returns:
        return None
    terms = []
    for (_node, reach, env) in E.returns:
        t = E.to_term(env.get(0), E.fn.types.get(0, ""))
        if t is None:
            return None
        terms.append((reach, t))
    ret = terms[-1][1]
    for reach, t in terms[:-1]:
        ret = z3.If(reach, t, ret)
    return E, ret


def key_agreement(ctx):
    q = ctx.q
    out = {}

    def mk(oid, desc, functions):
        r = Result(oid, desc)
        r.functions = functions
        r.bounds = ("u32 segment ids over the full range (machine arithmetic; decided through the mod-2^32 integer encoding, "
                "LEVEL_SPAN read from the current source); "
                    f"loops over the labels unrolled {ctx.k}x; calls other than the inlined summaries opaque")
        out[oid] = r
        return r

    r = mk("retire-key", "retire_uid_from_labels and remove_labels look an input segment up under the same "
           "(level, offset) key SegmentIndexTree::insert files it under: for every id, the offset they compute equals "
           "SegmentEntry::offset_in_level(id), and the level is SegmentId::level of the parsed label on both sides",
           ["SegmentIndex::retire_uid_from_labels", "SegmentIndex::remove_labels", "SegmentIndexTree::insert",
            "SegmentEntry::offset_in_level (inlined by substitution)", "SegmentEntry::level", "SegmentId::level"])
    so = _summary(ctx, OFF, "SegmentEntry::offset_in_level")
    sl = _summary(ctx, SLV, "SegmentId::level")
    bi = Builder(ctx, INS, "SegmentIndexTree::insert", {})
    be = Builder(ctx, ELV, "SegmentEntry::level", {})
    if so is None or sl is None or bi.E is None or be.E is None:
        r.status = "inconclusive"
        r.notes.append("summaries of offset_in_level / SegmentId::level / SegmentIndexTree::insert not available")
        return out
    Eo, off_ret = so
    El, lvl_ret = sl
    fo, fl = _free_vars(off_ret), _free_vars(lvl_ret)
    if len(fo) != 1 or len(fl) != 1:
        r.status = "inconclusive"
        r.notes.append(f"summaries are not functions of the id alone: offset over {sorted(fo)}, level over {sorted(fl)}")
        return out
    id_o = list(fo.values())[0]
    id_l = list(fl.values())[0]
    ident = z3.BitVec("id", 32)
    off_of = lambda t: z3.substitute(off_ret, (id_o, t))
    lvl_of = lambda t: z3.substitute(lvl_ret, (id_l, t))

    # insertion side: by_level.entry(entry.level()).or_default().insert(entry.offset_in_level(), entry)
    Ei = bi.E
    ent = oblig.events(Ei, r"BTreeMap::<u32, .*>::entry$|BTreeMap::entry$")
    ins = oblig.events(Ei, r"BTreeMap::<u32, .*SegmentEntry>::insert$|BTreeMap::insert$")
    ok_ins = bool(ent) and bool(ins)
    for e in ent:
        if len(e.args) < 2 or not re.match(r"SegmentEntry::level#\d+", sym.describe(e.args[1])):
            ok_ins = False
    for e in ins:
        if len(e.args) < 3 or not re.match(r"SegmentEntry::offset_in_level#\d+", sym.describe(e.args[1])) \
                or sym.describe(e.args[2]) != "arg:entry":
            ok_ins = False
    # SegmentEntry::level(e) = SegmentId::level(SegmentId::from(e.id))
    Ee = be.E
    lv = oblig.events(Ee, r"SegmentId::level$")
    fr = oblig.events(Ee, r"From<u32>>::from$|SegmentId::new$")
    ok_lvl = bool(lv) and bool(fr) and all(sym.describe(e.args[0]) == "arg:self.id" for e in fr if e.args)
    if ok_lvl:
        for (_n, _reach, env) in Ee.returns:
            if not re.match(r"SegmentId::level#\d+", sym.describe(env.get(0))):
                ok_lvl = False
    if not ok_ins or not ok_lvl:
        r.status = "violated"
        r.witness = {"what": "SegmentIndexTree::insert does not file the entry under (entry.level(), entry.offset_in_level()) "
                             "or SegmentEntry::level is not SegmentId::level of the entry's id",
                     "span": None, "call": "SegmentIndexTree::insert", "path": [], "model": {}}
        return out

    r.nontrivial = True
    sites = []
    for needle, label, pat, argi in ((RET, "SegmentIndex::retire_uid_from_labels", r"SegmentIndexTree::remove_uid$", (1, 2)),
                                     (RML, "SegmentIndex::remove_labels", r"Vec::<u32>::push$|Vec::push$", (None, 1))):
        b = Builder(ctx, needle, label, {})
        E = b.E
        if E is None:
            r.status = "inconclusive"
            r.notes.append(b.err)
            return out
        evs = oblig.events(E, pat)
        if not oblig.need_anchor(r, evs, f"{pat} in {label}"):
            return out
        for ev in evs:
            li, oi = argi
            if len(ev.args) <= oi:
                continue
            t = E.to_term(ev.args[oi], "u32")
            if t is None:
                r.status = "inconclusive"
                r.notes.append(f"offset argument of {ev.short} is not an integer term")
                return out
            fv = _free_vars(t)
            ids = [v for n, v in fv.items() if re.search(r"SegmentId::from_str#\d+(@L\d+)?:Some\.0\.id$", n)]
            if len(fv) != 1 or len(ids) != 1:
                r.status = "violated"
                r.witness = {"what": f"the offset {label} looks up is not a function of the parsed label's id alone: {sym.describe(ev.args[oi])[:120]}",
                             "span": f"{ev.span[0]}:{ev.span[1]}" if ev.span else None, "call": ev.func[:120], "path": [], "model": {}}
                return out
            # level side: the level must be SegmentId::level(&seg) of the same parsed id
            if needle == RET:
                lv_desc = sym.describe(ev.args[li])
                lvl_ok = re.match(r"SegmentId::level#\d+", lv_desc) is not None
            else:
                ents = [e2 for e2 in oblig.events(E, r"BTreeMap::<u32, .*>::entry$|BTreeMap::entry$") if e2.layer == ev.layer]
                lvl_ok = bool(ents) and all(re.match(r"SegmentId::level#\d+", sym.describe(e2.args[1])) for e2 in ents if len(e2.args) > 1)
            if not lvl_ok:
                r.status = "violated"
                r.witness = {"what": f"the level {label} looks up is not SegmentId::level of the parsed label",
                             "span": f"{ev.span[0]}:{ev.span[1]}" if ev.span else None, "call": ev.func[:120], "path": [], "model": {}}
                return out
            sites.append((label, ev, z3.substitute(t, (ids[0], ident))))
    for label, ev, t in sites:
        r.anchors.append(f"{ev.short}@bb{ev.bb}.{ev.layer}")
        res, model = oblig.int_check(q, t != off_of(ident))
        r.queries += 1
        if res == z3.unsat:
            continue
        if res != z3.sat:
            r.status = "inconclusive"
            r.notes.append("solver returned unknown")
            return out
        # prefer an id a real shard reaches (levels 0..9) for the replay
        res2, m2 = oblig.int_check(q, t != off_of(ident), z3.ULT(ident, z3.BitVecVal(100000, 32)))
        r.queries += 1
        if res2 == z3.sat:
            model = m2
        v = model.get("id", 0)
        r.status = "violated"
        r.witness = {"what": f"{label} looks segment id {v} up under offset {oblig.eval_bv(t, model)} but the tree "
                             f"files it under offset {oblig.eval_bv(off_of(ident), model)}: the input is not retired, "
                             "so the index keeps listing it beside the merged output",
                     "span": f"{ev.span[0]}:{ev.span[1]}" if ev.span else None, "call": ev.func[:120], "path": [],
                     "model": {"id": str(v)}}
        binary = native_binary(ctx.log)
        if binary is None:
            r.status = "inconclusive"
            r.notes.append("native replay program did not build")
            return out
        rc, line = run_native(binary, ["retirekey", str(v), "retire" if "retire" in label else "remove"])
        r.witness["native"] = line
        if rc != 3:
            r.status = "inconclusive"
            r.notes.append("counterexample did not reproduce on the real SegmentIndex: " + line)
        return out
    # the level function partitions ids consistently with the offset: (level, offset) determines the id
    a, b2 = z3.BitVec("id_a", 32), z3.BitVec("id_b", 32)
    res, model = oblig.int_check(q, a != b2, lvl_of(a) == lvl_of(b2), off_of(a) == off_of(b2))
    r.queries += 1
    if res == z3.sat:
        r.status = "violated"
        r.witness = {"what": f"two different segment ids {model.get('id_a', 0)} and {model.get('id_b', 0)} share one (level, offset) key: inserting one overwrites the other",
                     "span": None, "call": "SegmentIndexTree::insert", "path": [], "model": {k: str(v) for k, v in model.items()}}
    elif res != z3.unsat:
        r.status = "inconclusive"
        r.notes.append("solver returned unknown on key injectivity")
    return out
