"""C01 - WAL pruning never removes the only copy of an acknowledged event, and leaves no log
behind whose events are already in a segment.

Two layers, both regenerated from the current source on every run:

1. Facts, each decided by solver queries over the MIR of the function that owns it:
     cut     flush task: what `WalCleaner::cleanup_up_to` is called with - a function of the
             segment id (`segment_id + c`) or of a WAL boundary recorded for this segment
             (`take_wal_cutoff(segment_id)`, `boundary + c`)
     full    insert_and_maybe_flush: is the WAL rotated when the full memtable is swapped out,
             and is the boundary it reports recorded for the segment id that is queued
     manual  shard worker on_flush (FLUSH command, graceful shutdown): the same
     thread   WAL thread: an appended entry rotates the log when entries_written >= capacity;
             a rotate request rotates iff the current log holds entries and replies the
             current log id
     rot     InnerWalWriter::rotate_log_file: current_log_id += 1
     clean   WalCleaner::cleanup_up_to: removes exactly the logs with id < keep_from
     isfull  MemTable::is_full: count >= capacity
   A fact whose shape is not one of the understood ones makes the obligation inconclusive.

2. A bounded model check of the shard's write path composed from these facts: histories of up
   to N steps (STORE / FLUSH / graceful restart, then a kill and restart) over one shard, with
   the memtable capacity symbolic in [1, CAPMAX]. The solver looks for a history after which an
   acknowledged event is in no segment and in no surviving WAL log (lost), or is in a segment and
   also in a surviving WAL log (replayed twice). A counterexample history is replayed against the
   real engine (native replay program, `history`), and only a reproduced loss / duplicate is
   reported.
"""
import json
import os
import re
import shutil
import tempfile

import z3

from .. import oblig, sym
from ..oblig import Result
from .flushspec import Builder, FT, IN
from .c17 import native_binary

ONF = "shard-worker-on_flush-{closure#0}."
WT = "wal_handle-{impl#0}-spawn_wal_thread-{closure#0}."
RLF = "inner_wal_writer-{impl#0}-rotate_log_file."
CLN = "wal_cleaner-{impl#0}-cleanup_up_to."
ISF = "memory-memtable-{impl#0}-is_full."


def _fv(t):
    seen, out, work = {}, {}, [t]
    while work:
        x = work.pop()
        if x.get_id() in seen:
            continue
        seen[x.get_id()] = x
        if z3.is_const(x) and x.decl().kind() == z3.Z3_OP_UNINTERPRETED:
            out[str(x)] = x
        work.extend(x.children())
    return out


def _linear(q, term, base):
    """term == base + c for a constant c? returns c or None"""
    zero = z3.BitVecVal(0, base.size())
    c = z3.simplify(z3.substitute(term, (base, zero)))
    if not z3.is_bv_value(c):
        return None
    r, _ = q.check(term != base + c)
    return c.as_long() if r == z3.unsat else None


# ------------------------------------------------------------------------------------ facts
def fact_cut(ctx, notes):
    b = Builder(ctx, FT, "FlushWorker::run (spawned flush task)", {})
    E = b.E
    if E is None:
        notes.append(b.err)
        return None
    evs = oblig.events(E, r"WalCleaner::cleanup_up_to$")
    if not evs:
        return {"mode": "none", "c": 0, "span": None}
    out = None
    for ev in evs:
        t = E.to_term(ev.args[1], "u64") if len(ev.args) > 1 else None
        if t is None:
            notes.append("cleanup_up_to argument is not an integer term")
            return None
        fv = _fv(t)
        if len(fv) != 1:
            notes.append(f"cleanup_up_to argument depends on {sorted(fv)}")
            return None
        name, var = list(fv.items())[0]
        c = _linear(ctx.q, t, var)
        if c is None:
            notes.append(f"cleanup_up_to argument is not `{name} + constant`")
            return None
        if "take_wal_cutoff" in name and name.endswith(":Some.0"):
            tk = oblig.events(E, r"SegmentLifecycleTracker::take_wal_cutoff$")
            if not tk or not all(len(e.args) > 1 and sym.describe(e.args[1]) == "cap:segment_id" for e in tk):
                notes.append("take_wal_cutoff is not called with this flush's segment id")
                return None
            cur = {"mode": "wal", "c": c}
        elif name == "cap:segment_id":
            cur = {"mode": "seg", "c": c}
        else:
            notes.append(f"cleanup_up_to argument derives from {name}")
            return None
        cur["span"] = f"{ev.span[0]}:{ev.span[1]}" if ev.span else None
        if out is not None and (out["mode"], out["c"]) != (cur["mode"], cur["c"]):
            notes.append("several cleanup_up_to calls with different cut-offs")
            return None
        out = cur
    return out


def fact_rotate_on(ctx, needle, label, notes):
    """does the path that swaps the memtable out rotate the WAL and record the boundary for the
    segment id it queues? -> True / False / None (not understood)"""
    b = Builder(ctx, needle, label, {})
    E, q = b.E, ctx.q
    if E is None:
        notes.append(b.err)
        return None
    qs = oblig.events(E, r"FlushManager::queue_for_flush$")
    if not qs:
        notes.append(f"anchor not found: queue_for_flush in {label}")
        return None
    rs = oblig.events(E, r"WalHandle::rotate$")
    ss = oblig.events(E, r"SegmentLifecycleTracker::set_wal_cutoff$")
    if not rs and not ss:
        return False
    if not rs or not ss:
        notes.append(f"{label}: WalHandle::rotate / set_wal_cutoff appear without each other")
        return None
    startup = False
    for s in ss:
        seg_ok = any(len(qe.args) > 3 and sym.describe(qe.args[3]) == sym.describe(s.args[1]) for qe in qs) if len(s.args) > 2 else False
        val = sym.describe(s.args[2]) if len(s.args) > 2 else ""
        if not seg_ok:
            key = sym.describe(s.args[1]) if len(s.args) > 1 else ""
            if re.search(r"(^|[:.])ctx(~\d+)?\.segment_id$", key):
                # filed under the id the shard context was created with (never advanced): only the flush of the
                # first segment of a process lifetime finds its boundary
                startup = True
                continue
            notes.append(f"{label}: the boundary is recorded for a segment id other than the queued one ({key[:60]})")
            return None
        if not re.match(r"poll\(WalHandle::rotate#\d+\)(@L\d+)?:Ready\.0:Some\.0$", val):
            notes.append(f"{label}: the recorded boundary is not the id reported by WalHandle::rotate ({val[:60]})")
            return None
    # the boundary is recorded on every path to queue_for_flush on which the WAL handle exists and answered
    for qe in qs:
        rec = z3.Or([s.reach for s in ss])
        names = set()
        for r_ in rs:
            if r_.args:
                names.add("disc(" + re.sub(r":Some\.0$", "", sym.describe(r_.args[0])) + ")")
            names.add(f"disc(poll({r_.site}):Ready.0)")
        some = [z3.BitVec(n, 64) == 1 for n in names]
        res, _ = q.check(qe.reach, z3.Not(rec), *some)
        if res != z3.unsat:
            notes.append(f"{label}: queue_for_flush reachable without a recorded WAL boundary although the WAL answered")
            return None
    return "startup-key" if startup else True


def fact_thread(ctx, notes):
    b = Builder(ctx, WT, "WalHandle::spawn_wal_thread (WAL thread)", {})
    E, q = b.E, ctx.q
    if E is None:
        notes.append(b.err)
        return None
    rot = [e for e in oblig.events(E, r"InnerWalWriter::rotate_log_file$") if e.layer == 0]
    app = [e for e in oblig.events(E, r"InnerWalWriter::append_immediate$") if e.layer == 0]
    snd = [e for e in oblig.events(E, r"Sender::<u64>::send$|oneshot::Sender::<u64>::send$") if e.layer == 0]
    if not app or not rot:
        notes.append("WAL thread: append_immediate / rotate_log_file not found")
        return None
    out = {"count_policy": None, "request": "absent"}

    def ew_of(ev, which):
        cands = [v for n, v in _fv(ev.reach).items() if n.endswith(".entries_written") and which in n]
        return cands[-1] if cands else None

    for ev in rot:
        ew_a = ew_of(ev, "append_immediate")
        if ew_a is not None:
            fv = _fv(ev.reach)
            ff = [v for n, v in fv.items() if n.endswith("engine.fill_factor")]
            ez = [v for n, v in fv.items() if n.endswith("engine.event_per_zone")]
            if ff and ez and ff[0].size() == ew_a.size():
                cap = ff[0] * ez[0]
                small = [z3.ULT(ff[0], 1 << 20), z3.ULT(ez[0], 1 << 20)]
                r1, _ = q.check(ev.reach, z3.ULT(ew_a, cap), *small)
                r2, _ = q.check(ev.reach, ew_a == cap, *small, z3.UGT(cap, 0))
                if r1 == z3.unsat and r2 == z3.sat:
                    out["count_policy"] = "ge_capacity"
            continue
        ew_s = ew_of(ev, "start_next_log_file")
        if ew_s is None:
            ew_s = ew_of(ev, "rotate_log_file")
        if ew_s is not None and snd:
            r1, _ = q.check(ev.reach, ew_s == 0)
            r2, _ = q.check(ev.reach, ew_s != 0)
            out["request"] = "if_nonempty" if (r1 == z3.unsat and r2 == z3.sat) else "unknown"
        elif snd:
            out["request"] = "always"
    if snd:
        for s in snd:
            d = sym.describe(s.args[1]) if len(s.args) > 1 else ""
            idx = 2 if E.structs.name("engine::core::wal::inner_wal_writer::InnerWalWriter", 2) == "current_log_id" else None
            if idx is None or not re.search(rf"(:\d+|_\d+)\.{idx}$|current_log_id$", d):
                notes.append(f"WAL thread: the rotate reply is not writer.current_log_id ({d[:60]})")
                out["request"] = "unknown"
    return out


def fact_small(ctx, notes):
    """rotate_log_file adds one; cleanup removes id < keep_from; is_full is count >= capacity"""
    ok = {}
    q = ctx.q
    b = Builder(ctx, RLF, "InnerWalWriter::rotate_log_file", {})
    if b.E is not None:
        E = b.E
        ok["rot"] = None
        st = oblig.events(E, r"^store\(\*self\.current_log_id\)$")
        if len(st) == 1:
            t = E.to_term(st[0].args[0], "u64")
            base = [x for n, x in _fv(t).items() if n.endswith("current_log_id")] if t is not None else []
            if len(base) == 1 and _linear(q, t, base[0]) == 1:
                ok["rot"] = True
    b = Builder(ctx, CLN, "WalCleaner::cleanup_up_to", {})
    if b.E is not None:
        E = b.E
        rm = oblig.events(E, r"fs::remove_file")
        keep = E.sym("arg:keep_from_log_id", "u64")
        ok["clean"] = None
        good = bool(rm)
        for ev in rm:
            tag = f"@L{ev.layer}:" if ev.layer else None
            ids = [v for n, v in _fv(ev.reach).items() if re.search(r":Ok\.0$", n) and v.sort() == keep.sort()
                   and ((tag in n) if tag else ("@L" not in n))]
            if not ids:
                good = False
                continue
            r1, _ = q.check(ev.reach, z3.UGE(ids[-1], keep))
            r2, _ = q.check(ev.reach, z3.ULT(ids[-1], keep))
            if not (r1 == z3.unsat and r2 == z3.sat):
                good = False
        ok["clean"] = good or None
    b = Builder(ctx, ISF, "MemTable::is_full", {})
    if b.E is not None and b.E.returns:
        E = b.E
        t = E.to_term(E.returns[0][2].get(0), "bool")
        ok["isfull"] = None
        if t is not None and z3.is_bool(t):
            fv = _fv(t)
            cnt = [v for n, v in fv.items() if n.endswith(".count")]
            cap = [v for n, v in fv.items() if n.endswith(".capacity")]
            if len(cnt) == 1 and len(cap) == 1:
                r, _ = q.check(t != z3.UGE(cnt[0], cap[0]))
                ok["isfull"] = True if r == z3.unsat else None
    return ok


def fact_reopen(ctx, notes):
    """InnerWalWriter::start_next_log_file: entries_written := number of entries already in the log
    that is (re)opened ("count") or a constant ("zero")"""
    b = Builder(ctx, "inner_wal_writer-{impl#0}-start_next_log_file.", "InnerWalWriter::start_next_log_file", {})
    E = b.E
    if E is None:
        notes.append(b.err)
        return None
    st = oblig.events(E, r"^store\(\*self\.entries_written\)$")
    if len({e.bb for e in st}) != 1:
        notes.append("start_next_log_file: entries_written is not assigned exactly once")
        return None
    v = st[0].args[0]
    d = sym.describe(v)
    if re.match(r"InnerWalWriter::count_entries#\d+$", d):
        ce = [e for e in oblig.events(E, r"InnerWalWriter::count_entries$")]
        if ce and ce[0].args and re.search(r"\.dir$", sym.describe(ce[0].args[0])):
            return "count"
        notes.append("count_entries is not called on the writer's own directory")
        return None
    t = E.to_term(v, "u64")
    if t is not None and z3.is_bv_value(z3.simplify(t)) and z3.simplify(t).as_long() == 0:
        return "zero"
    notes.append(f"start_next_log_file: entries_written := {d[:60]}")
    return None


# ------------------------------------------------------------------------------------ model
class Model:
    """symbolic execution of the composed write path; every quantity is a z3 integer term"""

    def __init__(self, facts, steps, capmax, nondet_rotation, midflush_kill=False, lag=False):
        self.f = facts
        self.midflush_kill = midflush_kill
        self.lag = lag                      # flushes complete at an arbitrary later step (in order), not at once
        self.pending = []                   # per swapped-out memtable: dict(active, seg, boundary)
        self.completed = z3.IntVal(0)
        self.adv = []
        self.N = steps
        self.cap = z3.Int("cap")
        self.pre = [self.cap >= 1, self.cap <= capmax]
        self.ops = [z3.Int(f"op{t}") for t in range(steps)]          # 0 STORE, 1 FLUSH, 2 graceful restart, 3 kill + restart
        self.nd = [z3.Bool(f"wal_rotates{t}") for t in range(steps)] if nondet_rotation else None
        for o in self.ops:
            self.pre.append(z3.And(o >= 0, o <= 3))
        I = z3.IntVal
        self.L, self.w, self.m, self.S, self.Smax = I(0), I(0), I(0), I(0), I(0)
        self.S0 = I(0)          # the segment id the shard context of this process lifetime was created with
        self.cur_alive = z3.BoolVal(True)
        self.ev = []            # per event: dict(exists, log, alive (its WAL copy survives), inmem, flushed)
        self.bad = []           # (condition, kind, step)

    def ite(self, c, a, b):
        return z3.If(c, a, b)

    def rotate(self, c):
        self.L = self.ite(c, self.L + 1, self.L)
        self.w = self.ite(c, z3.IntVal(0), self.w)
        self.cur_alive = z3.Or(c, self.cur_alive)

    def cleanup(self, c, cutoff):
        for e in self.ev:
            e["alive"] = z3.And(e["alive"], z3.Not(z3.And(c, e["log"] < cutoff)))
        self.cur_alive = z3.And(self.cur_alive, z3.Not(z3.And(c, self.L < cutoff)))

    def flush(self, c, rotates, prune=True):
        """memtable swapped out under condition c; the flush completes at once (prune=False: the
        process dies after the segment was published and before the WAL is pruned)"""
        seg = self.S
        self.S = self.ite(c, self.S + 1, self.S)
        boundary = None
        found = z3.BoolVal(True)        # does the flush of `seg` find the boundary that was recorded?
        if rotates:
            req = self.f["thread"]["request"]
            rc = z3.And(c, self.w > 0) if req == "if_nonempty" else c
            self.rotate(rc)
            boundary = self.L
            if rotates == "startup-key":
                found = seg == self.S0
        nonempty = z3.And(c, self.m > 0)
        if self.lag and prune:
            k = len(self.pending)
            for e in self.ev:
                e["batch"] = self.ite(z3.And(nonempty, e["inmem"]), z3.IntVal(k), e.get("batch", z3.IntVal(-1)))
                e["inmem"] = z3.And(e["inmem"], z3.Not(c))
            self.m = self.ite(c, z3.IntVal(0), self.m)
            self.pending.append({"active": nonempty, "seg": seg, "boundary": boundary, "found": found})
            return
        for e in self.ev:
            e["flushed"] = z3.Or(e["flushed"], z3.And(nonempty, e["inmem"]))
            e["inmem"] = z3.And(e["inmem"], z3.Not(c))
        self.Smax = self.ite(nonempty, seg + 1, self.Smax)
        self.m = self.ite(c, z3.IntVal(0), self.m)
        cut = self.f["cut"]
        if not prune:
            self.last_flush_nonempty = z3.Or(getattr(self, "last_flush_nonempty", z3.BoolVal(False)), nonempty)
            return
        if cut["mode"] == "seg":
            self.cleanup(nonempty, seg + cut["c"])
        elif cut["mode"] == "wal" and boundary is not None:
            self.cleanup(z3.And(nonempty, found), boundary + cut["c"])
        # mode wal without a recorded boundary, or mode none: nothing is pruned

    def complete(self, k, cond):
        """the flush of pending memtable k finishes: segment durable and published, then the WAL is pruned"""
        p = self.pending[k]
        c = z3.And(cond, p["active"])
        for e in self.ev:
            e["flushed"] = z3.Or(e["flushed"], z3.And(c, e.get("batch", z3.IntVal(-1)) == k))
        self.Smax = self.ite(c, p["seg"] + 1, self.Smax)
        cut = self.f["cut"]
        if cut["mode"] == "seg":
            self.cleanup(c, p["seg"] + cut["c"])
        elif cut["mode"] == "wal" and p["boundary"] is not None:
            self.cleanup(z3.And(c, p.get("found", z3.BoolVal(True))), p["boundary"] + cut["c"])

    def progress(self, t, everything=None):
        """the flush worker gets through some (or, at a graceful shutdown, all) of the queued flushes, in order"""
        n = len(self.pending)
        if not self.lag or n == 0:
            return
        if everything is None:
            a = z3.Int(f"flush_progress{t}_{len(self.adv)}")
            self.adv.append(a)
            self.pre.append(z3.And(a >= 0, self.completed + a <= n))
            upto = self.completed + a
        else:
            upto = self.ite(everything, z3.IntVal(n), self.completed)
        for k in range(n):
            self.complete(k, z3.And(self.completed <= k, k < upto))
        self.completed = upto

    def restart(self, c, t):
        """state a new process finds; duplicates / losses are judged by the caller"""
        any_file = self.cur_alive            # deletion is a prefix of the ids, the current log has the largest id
        last = self.ite(any_file, self.L, z3.IntVal(0))
        lines = self.ite(any_file, self.w, z3.IntVal(0))
        # InnerWalWriter::find_next_wal_id / count_entries / start_next_log_file
        nxt = self.ite(last == 0, z3.IntVal(0), self.ite(lines < self.cap, last, last + 1))
        neww = self.ite(nxt == last, lines, z3.IntVal(0)) if self.f.get("reopen", "count") == "count" else z3.IntVal(0)
        self.L = self.ite(c, nxt, self.L)
        self.w = self.ite(c, neww, self.w)
        self.cur_alive = z3.Or(c, self.cur_alive)
        self.S = self.ite(c, self.Smax, self.S)
        self.S0 = self.ite(c, self.Smax, self.S0)
        rec = z3.IntVal(0)
        for e in self.ev:
            back = z3.And(e["exists"], e["alive"])
            e["inmem"] = self.ite(c, back, e["inmem"])
            rec = rec + self.ite(back, 1, 0)
        self.m = self.ite(c, rec, self.m)

    def judge(self, c, t, when):
        for i, e in enumerate(self.ev):
            lost = z3.And(c, e["exists"], z3.Not(e["flushed"]), z3.Not(e["alive"]))
            dup = z3.And(c, e["exists"], e["flushed"], e["alive"])
            self.bad.append((lost, "lost", i, t, when))
            self.bad.append((dup, "duplicate", i, t, when))

    def run(self):
        f = self.f
        for t in range(self.N):
            op = self.ops[t]
            st, fl, gr = op == 0, op == 1, op == 2
            self.progress(t)
            # ---- STORE: WAL append (own thread), memtable insert, flush when full
            # an append to a log that was already unlinked is not on disk for the next process
            e = {"exists": st, "log": self.L, "alive": z3.And(st, self.cur_alive), "inmem": st, "flushed": z3.BoolVal(False)}
            self.ev.append(e)
            self.w = self.ite(st, self.w + 1, self.w)
            if self.nd is not None:
                self.rotate(z3.And(st, self.nd[t]))
            elif f["thread"]["count_policy"] == "ge_capacity":
                self.rotate(z3.And(st, self.w >= self.cap))
            self.m = self.ite(st, self.m + 1, self.m)
            last = self.midflush_kill and t == self.N - 1
            self.flush(z3.And(st, self.m >= self.cap), f["full"], prune=not last)
            # ---- FLUSH command
            self.flush(fl, f["manual"], prune=not last)
            # ---- graceful restart: flush_all (the FLUSH path), WAL shutdown, new process
            self.flush(gr, f["manual"])
            self.progress(t, everything=gr)
            self.judge(gr, t, "graceful restart")
            # ---- kill + restart in the middle of the history (queued flushes that did not finish are gone)
            kr = op == 3
            self.judge(kr, t, "kill")
            if self.lag:
                for k_, p_ in enumerate(self.pending):
                    p_["active"] = z3.And(p_["active"], z3.Or(z3.Not(kr), self.completed > k_))
                self.completed = self.ite(kr, z3.IntVal(len(self.pending)), self.completed)
            self.restart(z3.Or(gr, kr), t)
        self.progress(self.N)
        # the process is killed after the last step (or inside its flush, after publication)
        if self.midflush_kill:
            self.pre.append(getattr(self, "last_flush_nonempty", z3.BoolVal(False)))
            self.pre.append(z3.And(self.ops[-1] != 2, self.ops[-1] != 3))
            self.judge(z3.BoolVal(True), self.N, "kill between publication and WAL pruning")
        else:
            self.judge(z3.BoolVal(True), self.N, "kill")


BMC_SECONDS = [0.0]


def bmc(facts, steps, capmax, nondet_rotation, timeout_ms=120000, midflush_kill=False, lag=False):
    import time as _t
    _t0 = _t.time()
    try:
        return _bmc(facts, steps, capmax, nondet_rotation, timeout_ms, midflush_kill, lag)
    finally:
        BMC_SECONDS[0] += _t.time() - _t0


def _bmc(facts, steps, capmax, nondet_rotation, timeout_ms=120000, midflush_kill=False, lag=False):
    m = Model(facts, steps, capmax, nondet_rotation, midflush_kill, lag)
    m.run()
    s = z3.Solver()
    s.set("timeout", timeout_ms)
    s.add(*m.pre)
    s.add(z3.Or([b[0] for b in m.bad]))
    # shortest counterexample first: prefer histories whose trailing steps are no-ops (FLUSH on empty is harmless)
    r = s.check()
    if r != z3.sat:
        return r, None
    mod = s.model()
    ops = [mod.eval(o, model_completion=True).as_long() for o in m.ops]
    cap = mod.eval(m.cap, model_completion=True).as_long()
    kinds = [(k, i, t, when) for (c, k, i, t, when) in m.bad if z3.is_true(mod.eval(c, model_completion=True))]
    nd = [z3.is_true(mod.eval(x, model_completion=True)) for x in m.nd] if m.nd else None
    return r, {"ops": ops, "cap": cap, "bad": kinds, "nondet_rotation": nd}


def shortest(facts, maxsteps, capmax, nondet, midflush_kill=False, lag=False):
    for n in range(1, maxsteps + 1):
        r, cex = bmc(facts, n, capmax, nondet, midflush_kill=midflush_kill, lag=lag)
        if r == z3.sat:
            return r, cex, n
        if r != z3.unsat:
            return r, None, n
    return z3.unsat, None, maxsteps


# ------------------------------------------------------------------------------------ replay
def replay_history(ctx, cex, midflush=False):
    """run the counterexample on the real engine; returns (reproduced, text). midflush: the state of
    a kill after the last flush published its segment and before it pruned the WAL is produced by
    putting back the WAL logs that flush removed (captured just before their removal)"""
    import threading
    import time as _time
    from vlib import history
    binary = native_binary(ctx.log)
    if binary is None:
        return False, "native replay program did not build"
    root = tempfile.mkdtemp(prefix="verif-hist-")
    try:
        history.write_config(root, capacity=cex["cap"], shards=1)
        lives, cur, stored = [], ['DEFINE ev FIELDS { "n": "int" }'], []
        n = 0
        for op in cex["ops"]:
            if op == 0:
                n += 1
                stored.append(n)
                cur.append('STORE ev FOR c1 PAYLOAD {"n": %d}' % n)
                cur.append("!sleep 150")
            elif op == 1:
                cur += ["FLUSH", "!wait", "!sleep 400"]
            elif op == 2:
                cur += ["!sleep 300", "!shutdown"]
                lives.append(cur)
                cur = []
            else:
                cur += ["!wait", "!sleep 500", "!kill"]
                lives.append(cur)
                cur = []
        cur += ["!wait", "!sleep 500", "!kill"]
        lives.append(cur)
        lives.append(["QUERY ev", "QUERY ev COUNT"])
        rows = []
        counts = []
        wal, saved, stop = os.path.join(root, "wal", "shard-0"), {}, []

        def poll():
            while not stop:
                try:
                    for fn_ in os.listdir(wal):
                        try:
                            data = open(os.path.join(wal, fn_), "rb").read()
                        except OSError:
                            continue
                        if data:
                            saved[fn_] = data
                except OSError:
                    pass
                _time.sleep(0.0005)
        for i, l in enumerate(lives):
            th = None
            if midflush and i == len(lives) - 2:
                th = threading.Thread(target=poll)
                th.start()
            rc, out, err = history.run_lifetime(binary, root, "; ".join(l))
            if th is not None:
                stop.append(1)
                th.join()
                for fn_, data in saved.items():
                    if not os.path.exists(os.path.join(wal, fn_)):
                        open(os.path.join(wal, fn_), "wb").write(data)
            if rc is None:
                return False, f"lifetime {i} did not finish"
            if i == len(lives) - 1:
                for _, o in out:
                    if not isinstance(o, str):
                        continue
                    for line in o.splitlines():
                        try:
                            j = json.loads(line)
                        except ValueError:
                            continue
                        if j.get("type") == "batch" and '"name":"count"' in o:
                            counts += [r[-1] for r in j["rows"]]
                        elif j.get("type") == "batch":
                            rows += [r[-1] for r in j["rows"]]
        rows.sort()
        if midflush:
            text = (f"capacity {cex['cap']}; history: " + " ".join({0: "STORE", 1: "FLUSH", 2: "RESTART", 3: "KILL+RESTART"}[o] for o in cex["ops"]) +
                    f", process killed after the flush published its segment and before it pruned the WAL (logs it removed put back: "
                    f"{sorted(saved)}); stored n={stored}; after restart QUERY returns n={rows}, QUERY COUNT returns {counts}")
            bad = (counts and counts[0] != len(stored)) or len(rows) != len(stored)
            return bool(bad), text
        lost = [x for x in stored if x not in rows]
        dup = sorted({x for x in rows if rows.count(x) > 1})
        miscount = bool(counts) and counts[0] != len(stored) and not lost
        text = (f"capacity {cex['cap']}; history: " + " ".join({0: "STORE", 1: "FLUSH", 2: "RESTART", 3: "KILL+RESTART"}[o] for o in cex["ops"]) +
                f" KILL; stored n={stored}; after restart QUERY returns n={rows}, QUERY COUNT returns {counts}")
        return bool(lost or dup or miscount), text + (f"; lost {lost}" if lost else "") + (f"; duplicated {dup}" if dup else "") + \
            (f"; {len(stored)} stored events are counted as {counts[0]}" if miscount else "")
    finally:
        shutil.rmtree(root, ignore_errors=True)


# ------------------------------------------------------------------------------------ obligations
def recovery_once(ctx, facts, steps, capmax):
    """the same composed model with the kill placed inside the last flush"""
    r = Result("wal-recover-once", "a kill between the publication of a flushed segment and the pruning of its WAL logs: after restart "
               "every acknowledged event is still returned / counted exactly once (the logs left behind hold events that are "
               "already in the published segment)")
    r.functions = ["FlushWorker::run (publication before WalCleaner::cleanup_up_to)", "WalRecovery::recover (replays every log found)",
                   "insert_and_maybe_flush", "shard worker on_flush"]
    r.bounds = (f"one shard, at most {steps} steps, the kill placed after the publication step of the last flush; capacity 1..{capmax}")
    r.nontrivial = True
    res, cex, n = shortest(facts, steps, capmax, nondet=False, midflush_kill=True)
    r.queries += n
    if res == z3.unsat:
        return r
    if res != z3.sat:
        r.status = "inconclusive"
        r.notes.append("solver returned unknown")
        return r
    flushes = sum(1 for o in cex["ops"] if o == 1)
    ok, text = replay_history(ctx, cex, midflush=True)
    r.witness = {"what": "a kill between publication and WAL pruning leaves a log whose events are already in the published segment; "
                         "recovery replays it, so the events are held twice: " + text,
                 "span": facts["cut"].get("span"), "call": "WalRecovery::recover", "path": [],
                 "model": {"ops": cex["ops"], "capacity": cex["cap"], "violations": [list(x) for x in cex["bad"][:4]]},
                 "native": text}
    if ok:
        r.status = "violated"
    else:
        r.status = "inconclusive"
        r.notes.append("counterexample history did not reproduce on the real engine: " + text)
    return r


def prune_safety(ctx):
    try:
        BMC_SECONDS[0] = 0.0
        return _prune_safety(ctx)
    finally:
        ctx.q.solver_s += BMC_SECONDS[0]


def _prune_safety(ctx):
    notes = []
    facts = {"cut": fact_cut(ctx, notes),
             "full": fact_rotate_on(ctx, IN, "insert_and_maybe_flush", notes),
             "manual": fact_rotate_on(ctx, ONF, "shard worker on_flush", notes),
             "thread": fact_thread(ctx, notes),
             "reopen": fact_reopen(ctx, notes)}
    small = fact_small(ctx, notes)
    steps = 6 if ctx.k <= 2 else 8
    capmax = 3
    out = {}
    r = Result("wal-prune-safe", "composed write path (STORE / FLUSH / graceful restart, then kill): no history leaves an "
               "acknowledged event in neither a segment nor a surviving WAL log, and none leaves a WAL log behind "
               "whose events are already in a segment (they would be replayed twice)")
    r.functions = ["FlushWorker::run (cut-off passed to WalCleaner::cleanup_up_to)", "insert_and_maybe_flush", "shard worker on_flush",
                   "WalHandle::spawn_wal_thread (rotation policy, rotate request)", "InnerWalWriter::rotate_log_file",
                   "WalCleaner::cleanup_up_to", "MemTable::is_full", "InnerWalWriter::find_next_wal_id (modelled)"]
    r.bounds = (f"one shard, histories of at most {steps} steps followed by a kill, memtable capacity 1..{capmax}, every flush "
                "finishes either at once or at an arbitrary later step in queue order (both decided); the WAL thread keeps up with the appends "
                "(count-based rotation, and rotation after any append); compaction and failing flushes not modelled")
    out["wal-prune-safe"] = r
    r2 = Result("wal-recover-once", "a kill between the publication of a flushed segment and the pruning of its WAL logs: after restart "
                "every acknowledged event is still returned / counted exactly once")
    r2.status = "inconclusive"
    r2.notes.append("not decided: the facts of the write path were not all understood")
    out["wal-recover-once"] = r2
    r.notes.append("facts: " + json.dumps({k: v for k, v in facts.items()}, default=str) + " " + json.dumps(small))
    if any(v is None for v in facts.values()) or facts["thread"].get("request") == "unknown" or \
            not all(small.get(k) for k in ("clean", "isfull", "rot")):
        r.status = "inconclusive"
        r.notes.extend(notes)
        r.notes.append("a fact of the write path has a shape the model does not understand")
        return out
    if (facts["full"] or facts["manual"]) and facts["thread"]["request"] == "absent":
        r.status = "inconclusive"
        r.notes.append("WalHandle::rotate is used but the WAL thread has no rotate request arm")
        return out
    r.nontrivial = True
    res, cex, n = (z3.unsat, None, 0)
    if facts["thread"]["count_policy"] == "ge_capacity":
        res, cex, n = shortest(facts, steps, capmax, nondet=False)
        r.queries += n
    if res == z3.unsat:
        # stronger: the WAL thread may rotate after any append (covers every rotation policy)
        res2, cex2, n2 = shortest(facts, steps, capmax, nondet=True)
        r.queries += n2
        if res2 == z3.sat and facts["thread"]["count_policy"] != "ge_capacity":
            res, cex = res2, cex2
        elif res2 == z3.sat:
            r.notes.append("safe under the count-based rotation policy only (an arbitrary rotation policy has a counterexample)")
        elif res2 != z3.unsat:
            res = res2
    if res == z3.unsat:
        # stronger still: a queued flush finishes at an arbitrary later step (in queue order), or never before the kill
        for nd in (False, True):
            res3, cex3, n3 = shortest(facts, steps, capmax, nondet=nd, lag=True)
            r.queries += n3
            if res3 != z3.unsat:
                r.status = "inconclusive"
                r.notes.append("safe when every flush finishes before the next command, but not decided / not safe when flushes lag behind: "
                               + (json.dumps(cex3) if cex3 else "solver returned unknown"))
                break
    ctx.q.queries += r.queries
    out["wal-recover-once"] = recovery_once(ctx, facts, steps, capmax)
    if res == z3.unsat:
        return out
    if res != z3.sat:
        r.status = "inconclusive"
        r.notes.append("solver returned unknown")
        return out
    kind = cex["bad"][0][0] if cex["bad"] else "lost"
    ok, text = replay_history(ctx, cex)
    r.witness = {"what": (f"an acknowledged event is {'lost' if kind == 'lost' else 'returned twice'} after a kill and restart: " + text),
                 "span": facts["cut"].get("span"), "call": "WalCleaner::cleanup_up_to", "path": [],
                 "model": {"ops": cex["ops"], "capacity": cex["cap"], "violations": [list(x) for x in cex["bad"][:4]]},
                 "native": text, "facts": {k: v for k, v in facts.items()}}
    if ok:
        r.status = "violated"
    else:
        r.status = "inconclusive"
        r.notes.append("counterexample history did not reproduce on the real engine: " + text)
    return out
