"""Obligations over WAL recovery, rotation and the WAL writer task (C01, C18)."""
import re

import z3

from .. import oblig, sym
from .flushspec import Builder, ghost


def recovery(ctx):
    out = {}
    # ---- replay_log_file
    ghosts = {"inserted": ghost(r"MemTable::insert$")}
    b = Builder(ctx, "wal-wal_recovery-{impl#0}-replay_log_file.", "WalRecovery::replay_log_file", ghosts)
    E, q = b.E, ctx.q
    r = b.mk("replay-keeps-entry", "replay_log_file: every WAL line that parses is inserted into the memtable as an event "
             "with the entry's own context id, event type, timestamp, payload and event id; a new id is generated only when "
             "the stored id is zero; unparsable lines are skipped without stopping the replay")
    out["replay"] = b.results["replay-keeps-entry"]
    if r:
        ins = oblig.events(E, r"MemTable::insert$")
        gen = oblig.events(E, r"ShardContext::next_event_id$")
        zero = oblig.events(E, r"EventId::is_zero$")
        if oblig.need_anchor(r, ins, "MemTable::insert") and oblig.need_anchor(r, gen, "ShardContext::next_event_id") and \
                oblig.need_anchor(r, zero, "EventId::is_zero"):
            r.nontrivial = True
            # (1) id generation only for zero ids
            def phi(ev):
                zs = [z for z in zero if z.layer == ev.layer]
                if not zs:
                    return None
                return E.sym(zs[-1].site, "bool")
            oblig.guarded(r, E, q, gen, phi, "a stored non-zero event id can be replaced during recovery")
            # (2) the inserted event is built from the entry's fields
            if r.status == "holds":
                for ev in ins:
                    val = ev.args[1] if len(ev.args) > 1 else None
                    if isinstance(val, sym.Ref):
                        val, _ = E.read_place(ev.env, val.place)
                    tr = E.trace(val, ev.env, depth=6) if val is not None else set()
                    need = ["context_id", "event_type", "timestamp", "payload", "event_id"]
                    joined = " ".join(tr)
                    missing = [n for n in need if f".{n}" not in joined and f"{n}" not in joined]
                    if isinstance(val, sym.Phi):
                        # the id-less branch rewrites the event through set_event_id(&mut event): the
                        # struct literal is the alternative that was not rewritten
                        aggs = [x for _, x in val.alts if isinstance(x, sym.Agg) and x.names]
                        if aggs:
                            val = aggs[0]
                    if isinstance(val, sym.Agg) and val.names:
                        missing = []
                        for fld, src in (("context_id", "context_id"), ("event_type", "event_type"), ("timestamp", "timestamp"),
                                         ("payload", "payload"), ("id", "event_id")):
                            fv = val.field(fld)
                            d = sym.describe(fv) if fv is not None else ""
                            if not re.search(rf"\.{src}$", d):
                                missing.append(f"{fld}<-{d[-40:]}")
                    if missing:
                        r.status = "violated"
                        r.witness = {"what": f"recovered event is not a field-for-field copy of the WAL entry ({missing[:3]})",
                                     "span": f"{ev.span[0]}:{ev.span[1]}" if ev.span else None, "call": ev.func[:80],
                                     "path": [], "model": {}}
                        break
            # (3) a parsed line always reaches the insert (no silent drop): from_str Ok => insert or error return
            if r.status == "holds":
                fs = oblig.events(E, r"serde_json::from_str")
                nx = {e.layer: e for e in E.events if re.search(r"Lines<.*> as Iterator>::next$", e.func)}
                if not fs or not nx:
                    r.status = "inconclusive"
                    r.notes.append("anchor not found: serde_json::from_str::<WalEntry> / the loop over the file's lines")
                for f_ in fs:
                    if r.status != "holds":
                        break
                    d = z3.BitVec(f"disc({f_.site})", 64)
                    nxt = nx.get(f_.layer + 1)
                    mine = [i_ for i_ in ins if i_.layer == f_.layer]
                    inserted = z3.Or([i_.reach for i_ in mine]) if mine else z3.BoolVal(False)
                    if nxt is None:
                        continue
                    # a line that parses is not dropped on the way to the next line
                    res, model = q.check(f_.reach, d == 0, nxt.reach, z3.Not(inserted), domain=E.domain)
                    r.queries += 1
                    if res == z3.sat:
                        oblig.violated(r, E, q, f_, model, "a WAL line that parses is skipped without being inserted into the memtable")
                        break
                    # a line that does not parse does not end the replay of the file
                    res, model = q.check(f_.reach, d == 1, z3.Not(nxt.reach), domain=E.domain)
                    r.queries += 1
                    if res == z3.sat:
                        oblig.violated(r, E, q, f_, model, "an unparsable WAL line stops the replay of the file: acknowledged entries on later "
                                                           "lines (appended after a restart re-opened the log) are not recovered")
                        break
    # ---- recover: files in sorted order, every file replayed, error propagated
    b2 = Builder(ctx, "wal-wal_recovery-{impl#0}-list_sorted_log_files.", "WalRecovery::list_sorted_log_files", {})
    E2 = b2.E
    r = b2.mk("replay-in-log-order", "list_sorted_log_files returns the *.log files sorted by name (wal-NNNNN.log: log order), "
              "which WalRecovery::recover replays one by one")
    out["order"] = b2.results["replay-in-log-order"]
    if r:
        srt = oblig.events(E2, r"slice::<impl \[.*\]>::sort$|::sort$|sort_unstable$|sort_by")
        if oblig.need_anchor(r, srt, "sort of the log file list"):
            r.nontrivial = True
            for (node, reach, env) in E2.returns:
                pass
            # the sorted vector is the one returned
            ok = False
            for (node, reach, env) in E2.returns:
                ret = env.get(0)
                tr = E2.trace(ret, env, depth=8) if ret is not None else set()
                if any("sort" in x for x in tr) or any("var:files" in x for x in tr):
                    ok = True
            if not ok:
                r.notes.append("returned value not traced to the sorted vector (data flow through `?`-free Ok(files))")
    return out


def rotation(ctx):
    ghosts = {"closed": ghost(r"InnerWalWriter::flush_and_close$"), "started": ghost(r"InnerWalWriter::start_next_log_file$")}
    b = Builder(ctx, "wal-inner_wal_writer-{impl#0}-rotate_log_file.", "InnerWalWriter::rotate_log_file", ghosts)
    E, q = b.E, ctx.q
    r = b.mk("rotate-closes-first", "rotate_log_file: the current log is flushed and closed successfully (`?`) before the log id "
             "advances and the next file is started; the id advances by exactly one")
    out = {"rotate": b.results["rotate-closes-first"]}
    if r:
        st = oblig.events(E, r"InnerWalWriter::start_next_log_file$")
        if oblig.need_anchor(r, st, "start_next_log_file"):
            def phi(ev):
                g = ev.env.get("@closed")
                tries = [z3.BitVec(f"disc(try({sym.describe(e2.args[0])}))", 64) == 0 for e2 in E.events
                         if re.search(r"Try>::branch$", e2.func) and e2.args and "flush_and_close" in sym.describe(e2.args[0])]
                if g is None:
                    return None
                return z3.And(g, *tries) if tries else z3.BoolVal(False)
            oblig.guarded(r, E, q, st, phi, "next WAL file started before the current one was flushed and closed successfully")
    return out
