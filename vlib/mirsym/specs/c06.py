"""C06 - STORE accepts exactly the payloads that conform to the defined schema (the guard /
summary facts Engine B can state; acceptance of individual JSON shapes inside serde_json's
accessors is taken from their documented contracts)."""
import re

import z3

from .. import oblig, sym
from ..oblig import Result
from .flushspec import Builder, ghost
from . import schemaspec
from ._util import pick

FILTERS = []

# FieldType variant index -> (name, expected accessor(s) on the JSON value)
EXPECT = {
    0: ("String", ["is_string"]),
    1: ("U64", ["as_u64"]),
    2: ("I64", ["as_i64"]),
    3: ("F64", ["as_f64"]),
    4: ("Bool", ["is_boolean"]),
    5: ("Timestamp", ["is_string", "is_number"]),
    6: ("Date", ["is_string", "is_number"]),
    7: ("Optional", ["is_null", "type_allows_value"]),
    8: ("Enum", ["as_str"]),
}


def type_summary(ctx):
    b = Builder(ctx, "handlers-store-type_allows_value.", "store::type_allows_value", {})
    E, q = b.E, ctx.q
    r = b.mk("B-1", "type_allows_value, per declared field type: the verdict is exactly the JSON accessor for that type "
                    "(string: is_string; u64/i64/f64: as_u64/as_i64/as_f64 is Some; bool: is_boolean; datetime/date: "
                    "string or number; optional: null or the inner type's verdict; enum: a string equal to a declared variant)")
    out = [b.results["B-1"]]
    if not r:
        return out
    # symbol for each accessor call, keyed by source line order is fragile: key by callee name,
    # disambiguating the two is_string calls by the arm they are reached on
    if not E.returns:
        r.status = "inconclusive"
        r.notes.append("no return")
        return out
    ft_disc = z3.BitVec("disc(arg:ft)", 64)
    (node, reach, env) = E.returns[0]
    ret = E.to_term(env.get(0), "bool")
    if ret is None:
        r.status = "inconclusive"
        r.notes.append("return value not resolved")
        return out
    r.nontrivial = True

    def acc(name, arm):
        """symbol of the accessor call `name` that is reachable when disc(ft) == arm"""
        for e in E.events:
            if re.search(rf"(Value::{name}|{name})$", e.func):
                res, _ = q.check(e.reach, ft_disc == arm, domain=E.domain)
                r.queries += 1
                if res == z3.sat:
                    return e
        return None

    # `v.is_u64()` / `v.is_i64()` are serde_json's own spelling of `as_u64().is_some()` / `as_i64().is_some()`
    # (is_f64 is NOT the same as as_f64().is_some(): the latter accepts integers as well)
    EQUIV = {"as_u64": "is_u64", "as_i64": "is_i64"}
    for arm, (name, accs) in EXPECT.items():
        evs = [acc(a, arm) for a in accs]
        direct = False
        if name in ("U64", "I64") and evs[0] is None and acc(EQUIV[accs[0]], arm) is not None:
            evs = [acc(EQUIV[accs[0]], arm)]
            direct = True
        if any(e is None for e in evs):
            r.status = "violated"
            r.witness = {"what": f"field type {name}: expected accessor(s) {accs} not consulted on that arm",
                         "span": None, "call": "type_allows_value", "path": [], "model": {}}
            return out
        if direct:
            expected = E.sym(evs[0].site, "bool")
        elif name in ("U64", "I64", "F64"):
            # verdict = Option::is_some(<accessor result>)
            some = [e for e in E.events if re.search(r"Option::<.*>::is_some$", e.func)
                    and any(evs[0].site in x for x in E.trace(e.args[0], e.env, depth=3))]
            if not some:
                r.status = "violated"
                r.witness = {"what": f"field type {name}: verdict is not `{accs[0]}().is_some()`", "span": None,
                             "call": "type_allows_value", "path": [], "model": {}}
                return out
            expected = E.sym(some[0].site, "bool")
        elif name in ("String", "Bool"):
            expected = E.sym(evs[0].site, "bool")
        elif name in ("Timestamp", "Date"):
            expected = z3.Or(E.sym(evs[0].site, "bool"), E.sym(evs[1].site, "bool"))
        elif name == "Optional":
            expected = z3.Or(E.sym(evs[0].site, "bool"), E.sym(evs[1].site, "bool"))
            inner = sym.describe(evs[1].args[0]) if evs[1].args else ""
            if "Optional" not in inner:
                r.status = "violated"
                r.witness = {"what": f"optional: recursive verdict is not taken on the inner type ({inner})", "span": None,
                             "call": "type_allows_value", "path": [], "model": {}}
                return out
        else:  # Enum: as_str().map(|s| variants.any(== s)).unwrap_or(false)
            uo = [e for e in E.events if re.search(r"Option::<bool>::unwrap_or$", e.func)]
            mp = [e for e in E.events if re.search(r"Option::<.*>::map::<bool", e.func)]
            if not uo or not mp or sym.describe(uo[0].args[1]) != "False":
                r.status = "violated"
                r.witness = {"what": "enum: verdict is not `as_str().map(is declared variant).unwrap_or(false)`",
                             "span": None, "call": "type_allows_value", "path": [], "model": {}}
                return out
            # the closure compares against the declared variants with ==
            cl = [f for f in ctx.find("handlers-store-type_allows_value-{closure#") if re.search(r"PartialEq<.*>>::eq|as PartialEq", open(f).read())]
            if not cl:
                r.status = "violated"
                r.witness = {"what": "enum: closure does not compare the string with the declared variants", "span": None,
                             "call": "type_allows_value", "path": [], "model": {}}
                return out
            expected = E.sym(uo[0].site, "bool")
        res, model = q.check(reach, ft_disc == arm, ret != expected, domain=E.domain)
        r.queries += 1
        if res == z3.sat:
            r.status = "violated"
            r.witness = {"what": f"field type {name}: verdict differs from {accs}", "span": None,
                         "call": "type_allows_value", "path": E.path_of_model(model), "model": oblig.model_summary(E, model)}
            return out
    return out


def validate(ctx):
    b = Builder(ctx, "handlers-store-validate_payload.", "store::validate_payload", {})
    E, q = b.E, ctx.q
    r = b.mk("B-2", "validate_payload returns Ok only if the payload is a JSON object, every schema field that is present "
                    "passed type_allows_value, every absent field is optional, and no key outside the schema is present")
    out = [b.results["B-2"]]
    if not r:
        return out
    tav = oblig.events(E, r"type_allows_value$")
    obj = oblig.events(E, r"Value::as_object$")
    extra = [e for e in E.events if re.search(r"Vec::<.*>::is_empty$", e.func)]
    if not oblig.need_anchor(r, tav, "type_allows_value") or not oblig.need_anchor(r, obj, "Value::as_object") \
            or not oblig.need_anchor(r, extra, "extra_keys.is_empty()"):
        return out
    r.nontrivial = True
    for (node, reach, env) in E.returns:
        ret = env.get(0)
        d = E.discriminant(ret, E.fn.types.get(0, "")) if ret is not None else None
        if d is None or not sym.is_term(d):
            r.status = "inconclusive"
            r.notes.append("return value not resolved")
            continue
        conds = [z3.Implies(e.reach, E.sym(e.site, "bool")) for e in tav]
        conds += [z3.Implies(e.reach, E.sym(e.site, "bool")) for e in extra]
        conds.append(z3.Or([e.reach for e in extra]))
        # absent fields: the matches!(Optional) test is a switch on the field type's discriminant;
        # on the None arm of obj.get(field) only discriminant 7 (Optional) may continue
        good = z3.And(conds)
        res, model = q.check(reach, d == 0, z3.Not(good), domain=E.domain)
        r.queries += 1
        if res == z3.sat:
            r.status = "violated"
            r.witness = {"what": "validate_payload can return Ok although a field failed its type check or extra keys are present",
                         "span": None, "call": "return", "path": E.path_of_model(model), "model": oblig.model_summary(E, model)}
            return out
    # missing field: when obj.get(field) is None the loop may only go on for an Optional type
    gets = [e for e in E.events if re.search(r"Map::<.*>::get|Map<.*>::get", e.func)]
    if not gets:
        r.status = "inconclusive"
        r.notes.append("anchor not found: obj.get(field)")
        return out
    for (node, reach, env) in E.returns:
        ret = env.get(0)
        d = E.discriminant(ret, E.fn.types.get(0, ""))
        for g in gets:
            fld = sym.describe(g.args[1]) if len(g.args) > 1 else ""
            if not fld.endswith(".0"):
                r.status = "inconclusive"
                r.notes.append(f"field/type pair of the schema iterator not recognised ({fld})")
                return out
            ft = z3.BitVec(f"disc({fld[:-2]}.1)", 64)
            gd = z3.BitVec(f"disc({g.site})", 64)
            res, model = q.check(reach, d == 0, g.reach, gd == 0, ft != 7, domain=E.domain)
            r.queries += 1
            if res == z3.sat:
                r.status = "violated"
                r.witness = {"what": "validate_payload can return Ok although a non-optional schema field is absent",
                             "span": None, "call": "return", "path": E.path_of_model(model),
                             "model": oblig.model_summary(E, model)}
                return out
    return out


def store_gate(ctx):
    b = Builder(ctx, "handlers-store-handle-{closure#0}.", "store::handle", {})
    E, q = b.E, ctx.q
    r = b.mk("B-3", "store::handle reaches the shard (get_shard / send) only if the event type and context id are "
                    "non-empty after trimming, a schema is defined for the type, validate_payload returned Ok and the time "
                    "normalisation returned Ok - every other STORE is answered with an error before anything is stored")
    out = [b.results["B-3"]]
    if not r:
        return out
    eff = oblig.events(E, r"ShardManager::get_shard$")
    need = {"empty": oblig.events(E, r"str::is_empty$|str>::is_empty$"), "schema": oblig.events(E, r"SchemaRegistry::get$"),
            "validate": oblig.events(E, r"validate_payload$"), "normalize": oblig.events(E, r"PayloadTimeNormalizer(::<.*>)?::normalize$")}
    if not oblig.need_anchor(r, eff, "ShardManager::get_shard"):
        return out
    for k, v in need.items():
        if not v:
            r.status = "inconclusive"
            r.notes.append(f"anchor not found: {k}")
            return out
    if len(need["empty"]) < 2:
        r.status = "inconclusive"
        r.notes.append("expected two trim().is_empty() tests (event_type, context_id)")
        return out

    def phi(ev):
        e1, e2 = need["empty"][0], need["empty"][1]
        return z3.And(z3.Not(E.sym(e1.site, "bool")), z3.Not(E.sym(e2.site, "bool")),
                      z3.BitVec(f"disc({need['schema'][0].site})", 64) == 1,
                      z3.BitVec(f"disc({need['validate'][0].site})", 64) == 0,
                      z3.BitVec(f"disc({need['normalize'][0].site})", 64) == 0)
    oblig.guarded(r, E, q, eff, phi, "shard reached although the STORE does not conform")
    # the two emptiness tests are on event_type and context_id
    if r.status == "holds":
        srcs = [" ".join(E.trace(e.args[0], e.env, depth=4)) for e in need["empty"][:2]]
        if not (re.search(r"Store\.0", srcs[0]) and re.search(r"Store\.1", srcs[1])):
            r.notes.append(f"emptiness tests apply to: {srcs[0][:60]} / {srcs[1][:60]}")
    return out


def enum_variants(name, rel):
    """variant names of a repository enum, in declaration order (read from the current source)"""
    import os
    from ..dump import REPO
    try:
        txt = open(os.path.join(REPO, "src", rel)).read()
    except OSError:
        return None
    m = re.search(rf"\benum\s+{name}\s*\{{(.*?)\n\}}", txt, re.S)
    if not m:
        return None
    body = re.sub(r"//[^\n]*", "", m.group(1))
    body = re.sub(r"#\[[^\]]*\]", "", body)
    prev = None
    while prev != body:                       # drop variant payloads, innermost first
        prev = body
        body = re.sub(r"\([^()]*\)|\{[^{}]*\}", "", body)
    names = [x.strip().split("=")[0].strip() for x in body.split(",")]
    names = [n for n in names if re.match(r"^[A-Z]\w*$", n)]
    return names


def time_normalisation(ctx):
    b = Builder(ctx, "schema-normalization-{impl#0}-normalize.", "PayloadTimeNormalizer::normalize", {})
    E, q = b.E, ctx.q
    r = b.mk("B-5", "PayloadTimeNormalizer::normalize hands every present, non-null value of a time-typed field (datetime, date, "
                    "and their nullable forms) to TimeParser::normalize_json_value with the matching kind, and propagates "
                    "its error with `?` (an unparseable time rejects the STORE)")
    out = [b.results["B-5"]]
    if not r:
        return out
    variants = enum_variants("FieldType", "engine/schema/types.rs")
    if not variants or not {"Timestamp", "Date", "Optional"} <= set(variants):
        r.status = "inconclusive"
        r.notes.append("FieldType variants not found in the source")
        return out
    TS, DT, OPT = variants.index("Timestamp"), variants.index("Date"), variants.index("Optional")
    nxt = [e for e in oblig.events(E, r"Iterator>::next$|Iter.*::next$|Iterator::next$") if e.layer == 0]
    norm = [e for e in oblig.events(E, r"TimeParser::normalize_json_value$") if e.layer == 0]
    if not oblig.need_anchor(r, nxt, "iteration over schema.fields") or \
            not oblig.need_anchor(r, norm, "TimeParser::normalize_json_value"):
        return out
    it = nxt[0]
    base = sym.describe(E.var(norm[0].env, "field_type")[0]) if E.var(norm[0].env, "field_type")[0] is not None else None
    if base is None:
        r.status = "inconclusive"
        r.notes.append("field_type not resolved")
        return out
    ft = z3.BitVec(f"disc({base})", 64)
    inner = [v for n, v in _free(z3.Or([e.reach for e in norm])).items()
             if n.startswith(f"disc({base}:Optional") ]
    inn = inner[0] if inner else z3.BitVec(f"disc({base}:Optional.0.0.0)", 64)
    some_next = z3.BitVec(f"disc({it.site})", 64) == 1
    present = [z3.BitVec(f"disc({e.site})", 64) == 1 for e in oblig.events(E, r"Map.*::get_mut") if e.layer == 0]
    notnull = [z3.Not(E.sym(e.site, "bool")) for e in oblig.events(E, r"Value::is_null$") if e.layer == 0]
    if not present:
        r.status = "inconclusive"
        r.notes.append("anchor not found: Map::get_mut on the payload object")
        return out

    def kind_is_datetime(v):
        if isinstance(v, sym.Agg):
            return z3.BoolVal(v.tag.endswith("DateTime"))
        if isinstance(v, sym.Phi):
            return z3.Or([z3.And(c, kind_is_datetime(x)) for c, x in v.alts])
        return None

    r.nontrivial = True
    cases = [("datetime", ft == TS, True), ("date", ft == DT, False),
             ("datetime | null", z3.And(ft == OPT, inn == TS), True), ("date | null", z3.And(ft == OPT, inn == DT), False)]
    for label, cond, want_dt in cases:
        handled = []
        for e in norm:
            k = kind_is_datetime(e.args[1]) if len(e.args) > 1 else None
            if k is None:
                r.status = "inconclusive"
                r.notes.append("TimeKind argument not resolved")
                return out
            handled.append(z3.And(e.reach, k if want_dt else z3.Not(k)))
        res, model = q.check(it.reach, some_next, cond, *present, *notnull, z3.Not(z3.Or(handled)), domain=E.domain)
        r.queries += 1
        if res == z3.sat:
            r.status = "violated"
            r.witness = {"what": f"a present, non-null value of a `{label}` field is not handed to TimeParser::normalize_json_value "
                                 f"with kind {'DateTime' if want_dt else 'Date'}: an unparseable time in such a field is accepted and stored as it came",
                         "span": f"{it.span[0]}:{it.span[1]}" if it.span else None, "call": "PayloadTimeNormalizer::normalize",
                         "path": [], "model": {"field type": label}}
            return out
        if res != z3.unsat:
            r.status = "inconclusive"
            r.notes.append("solver returned unknown")
            return out
    # the error is propagated: every normalize result goes through `?`
    tries = {sym.describe(e.args[0]) for e in oblig.events(E, r"Try>::branch$") if e.args}
    for e in norm:
        if e.site not in tries:
            r.status = "violated"
            r.witness = {"what": "the result of TimeParser::normalize_json_value is not propagated with `?`",
                         "span": f"{e.span[0]}:{e.span[1]}" if e.span else None, "call": e.func[:100], "path": [], "model": {}}
            return out
    return out


def _free(t):
    seen, out, work = {}, {}, [t]
    while work:
        x = work.pop()
        if x.get_id() in seen:
            continue
        seen[x.get_id()] = x
        if z3.is_const(x) and x.decl().kind() == z3.Z3_OP_UNINTERPRETED:
            out[str(x)] = x
        work.extend(x.children())
    return out


JSON_OUTSIDE_STRINGS = "0123456789-+.eE{}[]:, \t\r\ntruefalsn"   # every character a JSON document can hold outside a string


def json_alphabet(ctx):
    """parse_command tokenizes the whole command text first and rejects it if any token is the <INVALID> word, also
    for STORE whose payload is then parsed from the raw text: every character JSON allows outside a string must
    therefore survive the tokenizer. Decided on the character dispatch of `tokenize` composed with `parse_word`."""
    r = Result("B-6", "command tokenizer: no character that a JSON payload may contain outside a string literal (digits, "
                      "- + . e E, brackets, braces, colon, comma, whitespace, the letters of true / false / null) is turned "
                      "into the <INVALID> token that makes parse_command reject the whole STORE")
    r.functions = ["tokenizer::tokenize", "tokenizer::parse_word"]
    r.bounds = ("first character of a token; char::is_alphanumeric modelled exactly for ASCII; String::is_empty answers true "
                "iff no push happened; peek() in parse_word returns the character the dispatch saw (peek does not consume)")
    out = [r]
    q = ctx.q
    Et, err = ctx.load("parser-tokenizer-tokenize.", ghosts={})
    pushes = lambda ev, E: bool(re.search(r"String::push$", ev.func))
    Ew, err2 = ctx.load("parser-tokenizer-parse_word.", ghosts={}, counters={"pushed": pushes})
    if Et is None or Ew is None:
        r.status = "inconclusive"
        r.notes.append(err or err2)
        return out
    calls = [e for e in oblig.events(Et, r"parse_word") if e.layer == 0]
    inval = [e for e in oblig.events(Ew, r"ToString>?::to_string$") if e.args and "<INVALID>" in sym.describe(e.args[0])]
    alnum = [e for e in oblig.events(Ew, r"is_alphanumeric$") if e.layer == 0]
    empt = oblig.events(Ew, r"String::is_empty$")
    if not (oblig.need_anchor(r, calls, "parse_word call in tokenize") and oblig.need_anchor(r, inval, "<INVALID> token in parse_word")
            and oblig.need_anchor(r, alnum, "char::is_alphanumeric in parse_word") and oblig.need_anchor(r, empt, "word.is_empty()")):
        return out
    ct = Et.var_term(calls[0].env, "c")
    cw = alnum[0].args[0] if alnum[0].args else None
    cw = Ew.to_term(cw, "char") if cw is not None else None
    if ct is None or cw is None:
        r.status = "inconclusive"
        r.notes.append("the peeked character is not resolved to a term")
        return out
    r.nontrivial = True
    an = Ew.sym(alnum[0].dest_label, "bool")
    is_an = z3.Or(z3.And(z3.UGE(cw, 48), z3.ULE(cw, 57)), z3.And(z3.UGE(cw, 65), z3.ULE(cw, 90)), z3.And(z3.UGE(cw, 97), z3.ULE(cw, 122)))
    peeks = [e for e in oblig.events(Ew, r"Peekable::<.*>::peek$|Peekable::peek$") if e.layer == 0]
    if not oblig.need_anchor(r, peeks, "chars.peek() in parse_word"):
        return out
    # the dispatch in `tokenize` peeked this character, so the first peek in parse_word sees it too
    model = [an == is_an, z3.ULT(cw, 128), z3.BitVec(f"disc({peeks[0].site})", 64) == 1]
    for e in empt:
        n = e.env.get("#pushed")
        b = Ew.sym(e.dest_label, "bool")
        if n is None or b is None:
            r.status = "inconclusive"
            r.notes.append("String::is_empty not resolved")
            return out
        model.append(b == (n == 0))
    bad = []
    for ch in sorted(set(JSON_OUTSIDE_STRINGS)):
        v = z3.BitVecVal(ord(ch), 32)
        res, _ = q.check(calls[0].reach, ct == v, domain=Et.domain)
        r.queries += 1
        if res != z3.sat:
            continue                      # this character is handled by another arm (number, symbol, bracket, whitespace)
        for e in inval:
            res, _m = q.check(e.reach, cw == v, *model, domain=Ew.domain)
            r.queries += 1
            if res == z3.sat:
                bad.append(ch)
                break
    if bad:
        from .c17 import native_binary, run_native
        binary = native_binary(ctx.log)
        shown = []
        for ch in bad:
            text = 'STORE t FOR c PAYLOAD {"f": 1e%s30}' % ch if ch in "+-" else 'STORE t FOR c PAYLOAD {"f": 1%s0}' % ch
            rc, line = run_native(binary, ["parse", text]) if binary else (None, "native replay program did not build")
            shown.append(f"{text} -> {line}")
        confirmed = any("Err(" in x for x in shown)
        r.witness = {"what": "characters legal in a JSON number are tokenized as <INVALID>: " + ", ".join(repr(c) for c in bad)
                             + "; " + "; ".join(shown),
                     "span": "src/command/parser/tokenizer.rs", "call": "parse_word", "path": [], "model": {"chars": bad}, "native": shown}
        r.status = "violated" if confirmed else "inconclusive"
        if not confirmed:
            r.notes.append("the tokenizer marks the character invalid but the real parser accepted the command: " + "; ".join(shown))
    return out


def obligations(ctx):
    out = []
    out += json_alphabet(ctx)
    out += type_summary(ctx)
    out += validate(ctx)
    out += store_gate(ctx)
    out += pick(schemaspec.define_paths(ctx), [("B-4", "async"), ("B-4b", "sync")])
    out += time_normalisation(ctx)
    return out
