"""C01 - applied writes survive crash and restart: the ordering / guard facts its mechanisms name."""
from . import flushspec, c19, prunespec, schemaspec, walspec
from ._util import pick

FILTERS = []


def obligations(ctx):
    out = []
    out += pick(flushspec.insert_path(ctx), [("B-1", "wal-before-memtable")])
    ft = flushspec.flush_task(ctx)
    out += pick(ft, [("B-2", "wal-prune-guard")])
    # B-3 (which WAL logs the cut-off removes) is decided on the composed write path, not pinned to one formula
    out += pick(prunespec.prune_safety(ctx), [("B-3", "wal-prune-safe"), ("B-3c", "wal-recover-once")])
    cl = {r.id: r for r in c19.obligations(ctx)}
    r = cl["B-3"]
    r.id = "B-3b"
    out.append(r)
    out += pick(flushspec.index_save(ctx), [("B-4", "temp-fsync-rename"), ("B-4b", "rename-target")])
    out += pick(flushspec.index_load(ctx), [("B-4c", "stale-temp-removed")])
    out += pick(flushspec.wal_append(ctx), [("B-5", "wal-flush-each-write")])
    out += pick(schemaspec.define_paths(ctx), [("B-6", "async"), ("B-6b", "sync")])
    out += pick(walspec.recovery(ctx), [("B-7", "replay"), ("B-7b", "order")])
    out += pick(walspec.rotation(ctx), [("B-8", "rotate")])
    return out
