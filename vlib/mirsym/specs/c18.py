"""C18 (Engine B part) - recovery from the write-ahead log reproduces the original ids."""
from . import walspec
from ._util import pick

FILTERS = []


def obligations(ctx):
    return pick(walspec.recovery(ctx), [("B-1", "replay")])
