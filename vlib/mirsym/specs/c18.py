"""C18 (Engine B part) - recovery from the write-ahead log reproduces the original ids; rows read from a segment
carry their stored id."""
import re

import z3

from .. import oblig, sym
from . import walspec
from ._util import pick
from .flushspec import Builder

FILTERS = []


def stored_ids(ctx):
    """evaluate_zones_with_limit replaces a row's id by a synthetic one (zone << 32 | row) when the zone has no
    event_id column; the test for "no column" has to honour typed columns, whose string ranges are always empty"""
    b = Builder(ctx, "filter-condition_evaluator-{impl#0}-evaluate_zones_with_limit.", "ConditionEvaluator::evaluate_zones_with_limit", {})
    E, q = b.E, ctx.q
    r = b.mk("B-2", "rows materialised from a segment keep their stored event id: the per-zone flag that switches to synthetic ids "
                    "(`event_id` column missing / empty) is computed from the column's row count (ColumnValues::len, which honours typed "
                    "columns) - or from an emptiness test that does - never from the string ranges alone, which are empty for every typed "
                    "column; synthetic ids ignore the segment and collide across segments")
    out = [b.results["B-2"]]
    if not r:
        return out
    gets = [e for e in oblig.events(E, r"HashMap(::<.*>)?::get(::<.*>)?$") if e.args and "event_id" in " ".join(sym.describe(a) for a in e.args)]
    if not oblig.need_anchor(r, gets, 'zone.values.get("event_id")'):
        return out
    # the closure passed to Option::map on that lookup decides "missing"
    bodies = [f for f in ctx.find("filter-condition_evaluator-{impl#0}-evaluate_zones_with_limit-{closure#")]
    decided = None
    for f in bodies:
        txt = open(f, errors="replace").read()
        if "ColumnValues" not in txt[:3000]:
            continue
        if re.search(r"ColumnValues::len\b", txt):
            decided = ("len", f)
            break
        if re.search(r"ColumnValues::is_empty\b", txt):
            decided = ("is_empty", f)
            break
    if decided is None:
        # the test may be inline
        for e in E.events:
            if re.search(r"ColumnValues::len$", e.func):
                decided = ("len", None)
            elif re.search(r"ColumnValues::is_empty$", e.func) and decided is None:
                decided = ("is_empty", None)
    if decided is None:
        r.status = "inconclusive"
        r.notes.append("the emptiness test on the event_id column was not found")
        return out
    r.nontrivial = True
    if decided[0] == "is_empty":
        # acceptable only if ColumnValues::is_empty itself looks at the typed views
        honours = False
        for f in ctx.find("column-column_values-{impl#0}-is_empty."):
            txt = open(f, errors="replace").read()
            fields = ctx.structs._fields("ColumnValues") or []
            idx = [i for i, n in enumerate(fields) if n.startswith("typed_")]
            honours = any(re.search(r"\(\*_1\)\.%d\b" % i, txt) for i in idx) or "ColumnValues::len" in txt
        if not honours:
            r.status = "violated"
            r.witness = {"what": "the `event_id column missing` flag is ColumnValues::is_empty(), which only looks at the string ranges: for the typed "
                                 "u64 id column every segment writes it is always true, so every row read from a segment gets the synthetic id "
                                 "zone << 32 | row - equal for the same position in two segments, and the response de-duplication drops distinct events",
                         "span": "src/engine/core/filter/condition_evaluator.rs", "call": "ColumnValues::is_empty", "path": [], "model": {}}
    return out


def obligations(ctx):
    return pick(walspec.recovery(ctx), [("B-1", "replay")]) + stored_ids(ctx)
