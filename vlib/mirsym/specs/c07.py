"""C07 (Engine B part) - the segment reader hands string cells to the text-preserving entry point."""
import os
import re

from .. import oblig, sym
from .flushspec import Builder
from .c17 import native_binary, run_native

FILTERS = []


def obligations(ctx):
    b = Builder(ctx, "filter-condition_evaluator-{impl#0}-evaluate_zones_with_limit.",
                "ConditionEvaluator::evaluate_zones_with_limit", {})
    E = b.E
    r = b.mk("B-1", "rows materialised from a segment: cells of string (VarBytes) columns - read with "
                    "ColumnValues::get_str_at - are stored through a text-preserving entry point, never through "
                    "EventBuilder::add_field (which re-types text that looks like a number, boolean or null)")
    out = [b.results["B-1"]]
    if not r:
        return out
    strs = [e for e in E.events if re.search(r"EventBuilder::(add_field|add_field_utf8)$", e.func)]
    if not oblig.need_anchor(r, strs, "EventBuilder::add_field / add_field_utf8 in evaluate_zones_with_limit"):
        return out
    r.nontrivial = True
    for ev in strs:
        r.anchors.append(f"{ev.short}@bb{ev.bb}.{ev.layer}")
        src = E.trace(ev.args[2], ev.env, depth=5) if len(ev.args) > 2 else set()
        from_str_col = any("get_str_at" in x for x in src)
        if from_str_col and ev.func.rstrip().endswith("EventBuilder::add_field"):
            res, model = ctx.q.check(ev.reach, domain=E.domain)
            r.queries += 1
            if str(res) == "sat":
                r.status = "violated"
                r.witness = {"what": "a string cell (get_str_at) is passed to EventBuilder::add_field, which re-types it",
                             "span": f"{ev.span[0]}:{ev.span[1]}" if ev.span else None, "call": ev.func[:120],
                             "path": E.path_of_model(model), "model": {}}
                binary = native_binary(ctx.log)
                if binary:
                    rc, line = run_native(binary, ["stringcell", "007"])
                    r.witness["native"] = line
                    if rc != 3:
                        r.status = "inconclusive"
                        r.notes.append("native demonstration did not reproduce: " + line)
                break
    return out
