"""C07 (Engine B part) - the segment reader hands string cells to the text-preserving entry point."""
import os
import re

from .. import oblig, sym
from .flushspec import Builder
from .c17 import native_binary, run_native

FILTERS = []

DSL = {"String": ("string", '"abc"'), "U64": ("u64", "7"), "I64": ("int", "-7"), "F64": ("float", "2.5"),
       "Bool": ("bool", "true"), "Timestamp": ("datetime", '"2023-11-16T10:00:00Z"'), "Date": ("date", '"2023-11-16"')}


def _fv(t):
    import z3
    seen, out, work = {}, {}, [t]
    while work:
        x = work.pop()
        if x.get_id() in seen:
            continue
        seen[x.get_id()] = x
        if z3.is_const(x) and x.decl().kind() == z3.Z3_OP_UNINTERPRETED:
            out[str(x)] = x
        work.extend(x.children())
    return out


def replay_type(ctx, type_dsl, value):
    """STORE one event with a field of the given declared type, QUERY it from memory, FLUSH,
    QUERY it from the segment, on the real engine; returns (differs, text)"""
    import json
    import shutil
    import tempfile
    from vlib import history
    binary = native_binary(ctx.log)
    if binary is None:
        return False, "native replay program did not build"
    root = tempfile.mkdtemp(prefix="verif-hist-")
    try:
        history.write_config(root, capacity=8, shards=1)
        script = ('DEFINE ev FIELDS { "x": "%s" }; STORE ev FOR c1 PAYLOAD {"x": %s}; !sleep 150; QUERY ev; FLUSH; !wait; '
                  '!sleep 400; QUERY ev' % (type_dsl, value))
        rc, out, err = history.run_lifetime(binary, root, script)
        rows = []
        for _i, o in out:
            if isinstance(o, str) and '"type":"batch"' in o:
                for line in o.splitlines():
                    try:
                        j = json.loads(line)
                    except ValueError:
                        continue
                    if j.get("type") == "batch":
                        rows.append([r[-1] for r in j["rows"]])
        if len(rows) < 2:
            return False, f"could not read the field back (responses: {[o for _i, o in out][-2:]})"
        text = f'field "x": "{type_dsl}" stored as {value}: QUERY before FLUSH returns {json.dumps(rows[0])}, after FLUSH {json.dumps(rows[-1])}'
        return json.dumps(rows[0]) != json.dumps(rows[-1]), text
    finally:
        shutil.rmtree(root, ignore_errors=True)


def type_mapping(ctx):
    """the flush writer stores every declared field type - nullable or not - in the physical
    column type the segment readers decode it with"""
    import z3
    b = Builder(ctx, "write-column_writer-{impl#0}-write_all-{closure#0}.", "ColumnWriter::write_all", {})
    E, q = b.E, ctx.q
    r = b.mk("B-2", "ColumnWriter::write_all chooses, for every declared field type and its nullable form, the physical column "
                    "type that field_type_to_physical_type (the mapping the readers of a segment use) gives for it: integers, "
                    "datetimes and dates as I64, u64 as U64, floats as F64, booleans as Bool - a nullable field is stored like "
                    "the plain one, so a value read after FLUSH has the type it had before")
    out = [b.results["B-2"]]
    if not r:
        return out
    b2 = Builder(ctx, "zone-zone_cursor_loader-field_type_to_physical_type.", "field_type_to_physical_type", {})
    ins = [e for e in oblig.events(E, r"PhysicalType>::insert$") if e.layer == 0]
    if b2.E is None or not b2.E.returns or not oblig.need_anchor(r, ins, "types_by_key.insert(key, phys)"):
        if r.status == "holds":
            r.status = "inconclusive"
            r.notes.append("field_type_to_physical_type not available")
        return out
    E2 = b2.E
    rets = [(reach, E2.disc_term(env.get(0))) for (_n, reach, env) in E2.returns]
    W = E.disc_term(ins[0].args[2]) if len(ins[0].args) > 2 else None
    if W is None or any(t is None for _, t in rets):
        r.status = "inconclusive"
        r.notes.append("physical type values are not discriminant terms")
        return out
    R = rets[-1][1]
    for reach, t in rets[:-1]:
        R = z3.If(reach, t, R)
    fw = _fv(W)
    F = [v for n, v in fw.items() if re.search(r"disc\(MiniSchema::field_type#\d+:Some\.0\)$", n)]
    I = [v for n, v in fw.items() if re.search(r"disc\(MiniSchema::field_type#\d+:Some\.0:Optional\.0\)$", n)]
    A = z3.BitVec("disc(arg:field_type)", 64)
    rec = [v for n, v in _fv(R).items() if n.startswith("disc(field_type_to_physical_type#")]
    variants = [E.structs.variant_index(f"FieldType::{n}") for n in ("Optional", "Enum")]
    if len(F) != 1 or len(I) != 1 or len(rec) > 1 or None in variants:
        r.status = "inconclusive"
        r.notes.append("field type discriminants not found in the writer's mapping")
        return out
    F, I = F[0], I[0]
    OPT = variants[0]
    dummy = z3.BitVecVal(0, 64)
    R1 = lambda x: z3.substitute(R, (A, x), *([(rec[0], dummy)] if rec else []))
    Rfull = z3.substitute(R, (A, F), *([(rec[0], R1(I))] if rec else []))
    # the schema arm of the writer: the type is known and the field is not one of the fixed columns
    ctxs = [ins[0].reach]
    for n, v in fw.items():
        if re.match(r"PartialEq::eq#\d+$", n) and z3.is_bool(v):
            ctxs.append(z3.Not(v))
        if re.match(r"disc\(SchemaRegistry::get#\d+\)$", n) or re.match(r"disc\(MiniSchema::field_type#\d+\)$", n):
            ctxs.append(v == 1)
    r.nontrivial = True
    res, model = q.check(*ctxs, z3.ULT(F, 9), z3.ULT(I, 9), I != OPT, W != Rfull, domain=E.domain)
    r.queries += 1
    if res == z3.unsat:
        return out
    if res != z3.sat:
        r.status = "inconclusive"
        r.notes.append("solver returned unknown")
        return out
    names = E.structs.enum_names.get("FieldType") or []
    phys = E.structs.enum_names.get("PhysicalType") or []
    fv, iv = model.eval(F, model_completion=True).as_long(), model.eval(I, model_completion=True).as_long()
    wv, rv = model.eval(W, model_completion=True).as_long(), model.eval(Rfull, model_completion=True).as_long()
    nm = lambda i, l: l[i] if i < len(l) else str(i)
    tname = nm(fv, names) if fv != OPT else f"{nm(iv, names)} | null"
    r.status = "violated"
    r.witness = {"what": f"a field declared `{tname}` is written as a {nm(wv, phys)} column but the segment readers decode that type as {nm(rv, phys)}",
                 "span": f"{ins[0].span[0]}:{ins[0].span[1]}" if ins[0].span else None, "call": "ColumnWriter::write_all",
                 "path": [], "model": {"field_type": tname, "writer": nm(wv, phys), "readers": nm(rv, phys)}}
    base = nm(iv if fv == OPT else fv, names)
    if base in DSL:
        dsl = DSL[base][0] + (" | null" if fv == OPT else "")
        differs, text = replay_type(ctx, dsl, DSL[base][1])
        r.witness["native"] = text
        if not differs:
            r.status = "inconclusive"
            r.notes.append("counterexample did not reproduce on the real engine: " + text)
    else:
        r.witness["native"] = "no native replay for this field type"
    return out


def obligations(ctx):
    return string_cells(ctx) + type_mapping(ctx) + varbytes_lengths(ctx)


def varbytes_lengths(ctx):
    """string columns are written as one payload of concatenated values plus a length per row; the reader cuts the
    payload by adding the lengths up, so each length has to be the number of bytes appended for that row"""
    b = Builder(ctx, "write-column_group_builder-{impl#0}-finish.", "ColumnGroupBuilder::finish", {})
    E = b.E
    r = b.mk("B-3", "ColumnGroupBuilder::finish, VarBytes block: in every iteration the u32 pushed onto `lengths` is the byte length "
                    "(slice / str / String ::len) of exactly the bytes appended to `payload` in that iteration - not a character "
                    "count or the length of something else - otherwise every later value of the zone is cut at the wrong offset")
    out = [b.results["B-3"]]
    if not r:
        return out

    def named(ev, want):
        a = ev.args[0] if ev.args else None
        return isinstance(a, sym.Ref) and want in E.local_names(a.place.local)

    pushes = [e for e in oblig.events(E, r"Vec::<u32>::push$|Vec::push$") if named(e, "lengths")]
    exts = [e for e in oblig.events(E, r"Vec::<u8>::extend_from_slice$|Vec::extend_from_slice$") if named(e, "payload")]
    if not oblig.need_anchor(r, pushes, "lengths.push(..) in the VarBytes block") or not oblig.need_anchor(r, exts, "payload.extend_from_slice(..)"):
        return out
    r.nontrivial = True
    for p in pushes:
        same = [x for x in exts if x.layer == p.layer and x.span and p.span and abs(x.span[1] - p.span[1]) <= 6]
        if not same or len(p.args) < 2:
            r.status = "inconclusive"
            r.notes.append("no payload append next to a lengths.push")
            return out
        x = same[0]
        appended = sym.describe(x.args[1])
        src_x = E.trace(x.args[1], x.env, depth=6) | {appended}
        src_p = E.trace(p.args[1], p.env, depth=8) | {sym.describe(p.args[1])}
        # the pushed value is a term over call results: follow those calls to what they measured
        if sym.is_term(p.args[1]):
            by_label = {e.dest_label: e for e in E.events if e.dest_label}
            for name in oblig.free_symbols(p.args[1]):
                ev = by_label.get(name)
                if ev is not None:
                    src_p.add(ev.func.split("::<")[0] + "#")
                    src_p.add(name)
                    for a in ev.args:
                        src_p |= E.trace(a, ev.env, depth=6) | {sym.describe(a)}
        text_p = " ".join(src_p)
        is_len = re.search(r"(slice|str|String|Vec)(::<.*?>)?::len#", text_p) or re.search(r"\blen#", text_p)
        counted = re.search(r"chars|Chars|count|char_indices|graphemes|width", text_p)
        # the value measured is the value appended, or both are views of the same string
        root_x = {s_ for s_ in src_x if re.search(r"Iterator::next#\d+(@L\d+)?:Some\.0", s_)} | {appended}
        shared = any(any(rx in s_ for rx in root_x) for s_ in src_p)
        if counted or not is_len or not shared:
            r.status = "violated"
            r.witness = {"what": "the length recorded for a VarBytes value is " +
                                 ("a character count" if counted else "not a byte length" if not is_len else "the length of something other than the bytes appended")
                                 + f" (derives from {sorted(s_ for s_ in src_p if '::' in s_)[:3]}): a value with a multi-byte character is cut short and "
                                   "every later value of the zone is read from the wrong offset",
                         "span": f"{p.span[0]}:{p.span[1]}" if p.span else None, "call": "Vec::push", "path": [], "model": {}}
            return out
    return out


def string_cells(ctx):
    b = Builder(ctx, "filter-condition_evaluator-{impl#0}-evaluate_zones_with_limit.",
                "ConditionEvaluator::evaluate_zones_with_limit", {})
    E = b.E
    r = b.mk("B-1", "rows materialised from a segment: cells of string (VarBytes) columns - read with "
                    "ColumnValues::get_str_at - are stored through a text-preserving entry point, never through "
                    "EventBuilder::add_field (which re-types text that looks like a number, boolean or null)")
    out = [b.results["B-1"]]
    if not r:
        return out
    strs = [e for e in E.events if re.search(r"EventBuilder::(add_field|add_field_utf8)$", e.func)]
    if not oblig.need_anchor(r, strs, "EventBuilder::add_field / add_field_utf8 in evaluate_zones_with_limit"):
        return out
    r.nontrivial = True
    for ev in strs:
        r.anchors.append(f"{ev.short}@bb{ev.bb}.{ev.layer}")
        src = E.trace(ev.args[2], ev.env, depth=5) if len(ev.args) > 2 else set()
        from_str_col = any("get_str_at" in x for x in src)
        if from_str_col and ev.func.rstrip().endswith("EventBuilder::add_field"):
            res, model = ctx.q.check(ev.reach, domain=E.domain)
            r.queries += 1
            if str(res) == "sat":
                r.status = "violated"
                r.witness = {"what": "a string cell (get_str_at) is passed to EventBuilder::add_field, which re-types it",
                             "span": f"{ev.span[0]}:{ev.span[1]}" if ev.span else None, "call": ev.func[:120],
                             "path": E.path_of_model(model), "model": {}}
                binary = native_binary(ctx.log)
                if binary:
                    rc, line = run_native(binary, ["stringcell", "007"])
                    r.witness["native"] = line
                    if rc != 3:
                        r.status = "inconclusive"
                        r.notes.append("native demonstration did not reproduce: " + line)
                break
    return out
