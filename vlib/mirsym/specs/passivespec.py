"""Obligations over PassiveBufferSet (C03): a rotated in-memory copy leaves the set only when
it is provably empty."""
import re

import z3

from .. import oblig, sym, mir
from .flushspec import Builder, ghost

REMOVERS = r"Vec::<.*>::(remove|swap_remove|pop|clear|truncate|drain|split_off|dedup\w*|retain_mut)$"


def passive_set(ctx):
    out = {}
    for key, needle, label in (("add", "memory-passive_buffer_set-{impl#0}-add_from-{closure#0}.", "PassiveBufferSet::add_from"),
                               ("prune", "memory-passive_buffer_set-{impl#0}-prune_empties-{closure#0}.", "PassiveBufferSet::prune_empties")):
        ghosts = {"pushed": ghost(r"Vec::<.*>::push$")}
        b = Builder(ctx, needle, label, ghosts)
        E, q = b.E, ctx.q
        r = b.mk(f"passive-only-empty-removed-{key}",
                 f"{label}: passive buffers leave the set only through Vec::retain with a predicate that keeps every "
                 f"buffer it cannot prove empty (try_lock failed => keep; locked => keep iff len > 0); no other removal "
                 f"is performed" + ("; the new passive copy is pushed before returning" if key == "add" else ""))
        out[key] = b.results[f"passive-only-empty-removed-{key}"]
        if not r:
            continue
        rem = oblig.events(E, REMOVERS)
        ret = oblig.events(E, r"Vec::<.*>::retain")
        r.nontrivial = True
        if rem:
            oblig.never(r, E, q, rem, None, "a passive buffer can be removed by something other than the emptiness-checked retain")
            if r.status != "holds":
                continue
        if not oblig.need_anchor(r, ret, "Vec::retain in " + label):
            continue
        # closure summary
        for ev in ret:
            m = re.search(r"\{closure@([^\}]+)\}", ev.func)
            if not m:
                r.status = "inconclusive"
                r.notes.append("retain predicate is not a closure")
                break
            span = m.group(1).split(" ")[0]
            found = False
            for f in ctx.find(needle.rstrip(".") + "-{closure#"):
                txt = open(f).read()
                if span not in txt[:800]:
                    continue
                found = True
                fn = mir.parse_file(f)
                if mir.self_check(fn):
                    r.status = "inconclusive"
                    r.notes.append("closure MIR parse problem")
                    break
                C = sym.Evaluation(fn, ctx.structs, k=ctx.k)
                ctx.functions.append(fn.name)
                tl = [e for e in C.events if re.search(r"Mutex::<.*>::try_lock$", e.func)]
                ln = [e for e in C.events if re.search(r"MemTable::len$", e.func)]
                if not tl or not ln:
                    r.status = "violated"
                    r.witness = {"what": "retain predicate does not test emptiness under try_lock", "span": span,
                                 "call": ev.func[:100], "path": [], "model": {}}
                    break
                ok_lock = z3.BitVec(f"disc({tl[0].site})", 64) == 0
                length = C.sym(ln[0].site, "usize")
                for (node, reach, env) in C.returns:
                    rv = C.to_term(env.get(0), "bool")
                    if rv is None:
                        r.status = "inconclusive"
                        r.notes.append("closure return value not resolved")
                        break
                    res, model = q.check(reach, z3.Not(rv), z3.Not(z3.And(ok_lock, length == 0)), domain=C.domain)
                    r.queries += 1
                    if res == z3.sat:
                        r.status = "violated"
                        r.witness = {"what": "retain predicate can drop a buffer that is not provably empty", "span": span,
                                     "call": ev.func[:100], "path": C.path_of_model(model), "model": oblig.model_summary(C, model)}
                        break
            if not found and r.status == "holds":
                r.status = "inconclusive"
                r.notes.append("closure body of the retain predicate not found in the dump")
        if key == "add" and r.status == "holds":
            for (node, reach, env) in E.returns:
                g = env.get("@pushed")
                res, model = q.check(reach, z3.Not(g), domain=E.domain)
                r.queries += 1
                if res == z3.sat:
                    r.status = "violated"
                    r.witness = {"what": "add_from can return without pushing the new passive copy", "span": None,
                                 "call": "return", "path": E.path_of_model(model), "model": {}}
    return out
