"""C08 (Engine B part) - the calendar's bucket ids. `TemporalCalendarIndex::bucket_id` and
`CalendarDir::bucket_id` are loop-free integer functions; the range lookups
(`zones_for_ge / _le / _range`) compare bucket ids numerically, which is only sound if the id
is monotone in the timestamp. The callee `naive_bucket_of` is inlined by substitution of its
own symbolic summary."""
import re

import z3

from .. import oblig, sym
from ..oblig import Result
from .flushspec import Builder, ghost
from .c17 import native_binary, run_native

FILTERS = []


def summary(ctx, needle, label):
    b = Builder(ctx, needle, label, {})
    E = b.E
    if E is None or not E.returns:
        return None, b
    # single return value as an ite over all return sites
    (node, reach, env) = E.returns[0]
    ret = E.to_term(env.get(0), E.fn.types.get(0, ""))
    return (E, ret), b


def loop_body(E, header, tail):
    """blocks of the natural loop of back edge tail -> header"""
    preds = {}
    for idx, blk in E.fn.blocks.items():
        t = blk.term
        for (_l, tgt) in (t or {}).get("targets", []) if t and t["kind"] != "yield" else []:
            preds.setdefault(tgt, set()).add(idx)
    body, work = {header, tail}, [tail]
    while work:
        x = work.pop()
        for p_ in preds.get(x, ()):
            if p_ not in body:
                body.add(p_)
                work.append(p_)
    return body


def calendar_builder(ctx):
    """every hour / day bucket the zone's range touches gets the zone"""
    b = Builder(ctx, "time-temporal_calendar_index-{impl#0}-add_zone_range.", "TemporalCalendarIndex::add_zone_range", {})
    E, q = b.E, ctx.q
    r = b.mk("B-2", "TemporalCalendarIndex::add_zone_range files the zone under every hour bucket and every day bucket between "
                    "the buckets of min_ts and max_ts: each loop iteration the condition `t <= end` admits inserts the zone id "
                    "into the bucket of `t` (no further guard), the step equals the bucket width, and the bounds are the buckets "
                    "of min_ts / max_ts - the point lookup answers from the hour bucket alone when it exists")
    out = [b.results["B-2"]]
    if not r:
        return out
    ins = oblig.events(E, r"RoaringBitmap::insert$|inherent::insert$|::insert$")
    ins = [e for e in ins if len(e.args) > 1 and sym.describe(e.args[1]) == "arg:zone_id"]
    bids = oblig.events(E, r"TemporalCalendarIndex::bucket_id$")
    if not oblig.need_anchor(r, ins, "insert(zone_id) into a bucket bitmap") or not oblig.need_anchor(r, bids, "bucket_id"):
        return out
    loops = [(h, t, loop_body(E, h, t)) for (t, h) in E.back_edges]
    r.nontrivial = True
    seen_kinds = set()
    for ev in ins:
        inside = [(h, body) for (h, _t, body) in loops if ev.bb in body]
        if not inside:
            continue
        header = min(inside, key=lambda x: len(x[1]))[0]
        H = E.node_reach.get((header, ev.layer))
        bid = [x for x in bids if x.layer == ev.layer and x.bb in min(inside, key=lambda x: len(x[1]))[1]]
        if H is None or not bid:
            r.status = "inconclusive"
            r.notes.append("loop header / bucket_id call of an insert not found")
            return out
        bid = bid[0]
        gran = sym.describe(bid.args[1]) if len(bid.args) > 1 else ""
        kind = "hour" if "Hour" in gran else "day" if "Day" in gran else None
        names = {"hour": ("t", "end", 3600, "Hour"), "day": ("td", "end_day", 86400, "Day")}.get(kind)
        if names is None:
            r.status = "inconclusive"
            r.notes.append(f"granularity of a bucket insert not recognised: {gran[:60]}")
            return out
        seen_kinds.add(kind)
        tt, en = E.var_term(ev.env, names[0]), E.var_term(ev.env, names[1])
        key = E.to_term(bid.args[0], "u64")
        if tt is None or en is None or key is None:
            r.status = "inconclusive"
            r.notes.append(f"loop variables {names[0]} / {names[1]} not resolved")
            return out
        r.anchors.append(f"{ev.short}@bb{ev.bb}.{ev.layer}")
        span = f"{ev.span[0]}:{ev.span[1]}" if ev.span else None
        # (a) the iteration admitted by `t <= end` performs the insert
        res, model = q.check(H, z3.ULE(tt, en), z3.Not(ev.reach), domain=E.domain)
        r.queries += 1
        if res == z3.sat:
            # a model a real segment can have (dates before 2038, range of at most 90 days) for the replay
            nbs = [E.sym(f"naive_bucket_of#{i}", "u64") for i in range(4)]
            real = [z3.URem(nbs[0], 86400) == 0, z3.URem(nbs[1], 3600) == 0, nbs[2] == nbs[0],
                    nbs[3] == nbs[1] - z3.URem(nbs[1], 86400), z3.ULE(nbs[0], nbs[1]), z3.ULT(nbs[1], 1 << 31),
                    z3.ULE(nbs[1] - nbs[0], 90 * 86400), z3.UGE(nbs[0], 86400)]
            res_r, model_r = q.check(H, z3.ULE(tt, en), z3.Not(ev.reach), *real, domain=E.domain)
            r.queries += 1
            if res_r == z3.sat:
                model = model_r
            vals = {n: model.eval(E.sym(f"naive_bucket_of#{i}", "u64"), model_completion=True).as_long()
                    for i, n in enumerate(("first_hour", "last_hour", "first_day", "last_day"))}
            lo, hi = (vals["first_hour"], vals["last_hour"]) if kind == "hour" else (vals["first_day"], vals["last_day"])
            r.status = "violated"
            r.witness = {"what": f"a zone whose range spans the {kind} buckets {lo}..{hi} is not filed under a {kind} bucket inside that "
                                 f"range (iteration {ev.layer} of the {kind} loop skips the insert although t <= end): an equality probe "
                                 "answered from that bucket alone drops the zone",
                         "span": span, "call": ev.func[:100], "path": [], "model": {k: str(v) for k, v in vals.items()}}
            binary = native_binary(ctx.log)
            if binary is None:
                r.status = "inconclusive"
                r.notes.append("native replay program did not build")
                return out
            probe = lo + (3600 if kind == "hour" else 86400) * ev.layer
            rc, line = run_native(binary, ["calendar2", str(lo), str(max(hi, probe)), str(probe)])
            r.witness["native"] = line
            if rc != 3:
                r.status = "inconclusive"
                r.notes.append("counterexample did not reproduce on the real calendar index: " + line)
            return out
        if res != z3.unsat:
            r.status = "inconclusive"
            r.notes.append("solver returned unknown")
            return out
        # (b) key = bucket of t; t = bucket of min_ts + j * bucket width for some j within the unrolling;
        #     end = bucket of max_ts
        nb = {(sym.describe(e.args[0]), e.site) for e in oblig.events(E, r"naive_bucket_of$")}
        first = [s_ for (a, s_) in nb if a == "arg:min_ts" and re.sub(r"@L\d+", "", s_) in
                 ("naive_bucket_of#0" if kind == "hour" else "naive_bucket_of#2",)]
        last = [s_ for (a, s_) in nb if a == "arg:max_ts" and re.sub(r"@L\d+", "", s_) in
                ("naive_bucket_of#1" if kind == "hour" else "naive_bucket_of#3",)]
        if not first or not last:
            r.status = "inconclusive"
            r.notes.append("naive_bucket_of(min_ts) / (max_ts) calls not found")
            return out
        t0s = [E.sym(s_, "u64") for s_ in first]
        ends = [E.sym(s_, "u64") for s_ in last]
        step = names[2]
        res2, _ = q.check(ev.reach, z3.And([tt != t0 + step * j for t0 in t0s for j in range(ctx.k + 1)]), domain=E.domain)
        res3, _ = q.check(ev.reach, z3.And([en != e_ for e_ in ends]), domain=E.domain)
        r.queries += 2
        if res2 != z3.unsat or res3 != z3.unsat:
            r.status = "violated"
            r.witness = {"what": f"the {kind} loop does not walk from the bucket of min_ts to the bucket of max_ts in steps of {step} s",
                         "span": span, "call": ev.func[:100], "path": [], "model": {}}
            return out
        res, _ = q.check(ev.reach, key != tt, domain=E.domain)
        r.queries += 1
        entry = [x for x in oblig.events(E, r"HashMap::<u32, .*>::entry$|HashMap::entry$") if x.layer == ev.layer and x.bb in min(inside, key=lambda x: len(x[1]))[1]]
        key_ok = bool(entry) and sym.describe(entry[0].args[1]).startswith(bid.site)
        fld = sym.describe(entry[0].args[0]) if entry else ""
        fld_ok = (f"'{kind}'" in fld) or (E.structs.name("engine::core::time::temporal_calendar_index::TemporalCalendarIndex",
                                                          int(re.search(r"'field', (\d+)", fld).group(1))) == kind if re.search(r"'field', (\d+)", fld) else False)
        if res != z3.unsat or not key_ok or not fld_ok:
            r.status = "violated"
            r.witness = {"what": f"the {kind} loop does not insert the zone under bucket_id(t, {names[3]}) in self.{kind}",
                         "span": span, "call": ev.func[:100], "path": [], "model": {}}
            return out
    if seen_kinds != {"hour", "day"}:
        r.status = "violated"
        r.witness = {"what": f"add_zone_range fills only the {sorted(seen_kinds)} buckets", "span": None, "call": "add_zone_range", "path": [], "model": {}}
    return out


def bucket_arithmetic(ctx):
    """hour / day bucket starts over the whole u64 range (the Kani harnesses stop at 2^34)"""
    q = ctx.q
    r = Result("B-3", "naive_bucket_of(ts, Hour | Day) is the start of the hour / day that contains ts, for every u64 ts: a multiple "
                      "of the bucket width, <= ts, and less than one width below it; the hour bucket of ts lies in the day bucket of ts")
    r.functions = ["naive_bucket_of"]
    r.bounds = "loop-free; ts over the full u64 range; machine arithmetic decided through the mod-2^64 integer encoding"
    out = [r]
    sn, _ = summary(ctx, "datetime-time_bucketing-naive_bucket_of.", "naive_bucket_of")
    if sn is None or sn[1] is None:
        r.status = "inconclusive"
        r.notes.append("summary of naive_bucket_of not available")
        return out
    En, ret = sn
    ts_n = En.sym("arg:ts", "u64")
    g_n = z3.BitVec("disc(arg:gran)", 64)
    variants = [En.structs.variant_index(f"TimeGranularity::{n}") for n in ("Hour", "Day")]
    if None in variants:
        r.status = "inconclusive"
        r.notes.append("TimeGranularity variants not found")
        return out
    t = z3.BitVec("ts", 64)
    bucket = lambda x, g: z3.substitute(ret, (ts_n, x), (g_n, z3.BitVecVal(g, 64)))
    r.nontrivial = True
    try:
        for (g, width, name) in ((variants[0], 3600, "hour"), (variants[1], 86400, "day")):
            b = bucket(t, g)
            W = z3.BitVecVal(width, 64)
            bad = z3.Or(z3.URem(b, W) != 0, z3.UGT(b, t), z3.UGE(t - b, W))
            res, model = oblig.int_check(q, bad)
            r.queries += 1
            if res != z3.unsat:
                if res == z3.sat:
                    tv = model.get("ts", 0)
                    r.status = "violated"
                    r.witness = {"what": f"naive_bucket_of({tv}, {name}) = {oblig.eval_bv(b, model)} is not the start of the {name} containing {tv}",
                                 "span": None, "call": "naive_bucket_of", "path": [], "model": {"ts": str(tv)}}
                else:
                    r.status = "inconclusive"
                    r.notes.append("solver returned unknown")
                return out
        for ev in En.events:
            if ev.func == "assert" and getattr(ev, "assert_ok", None) is not None:
                res, model = oblig.int_check(q, ev.reach, z3.Not(ev.assert_ok))
                r.queries += 1
                if res != z3.unsat:
                    r.status = "violated" if res == z3.sat else "inconclusive"
                    r.witness = {"what": f"naive_bucket_of can panic ({ev.msg[:60]}) for ts = {(model or {}).get('arg:ts', '?')}",
                                 "span": f"{ev.span[0]}:{ev.span[1]}" if ev.span else None, "call": "naive_bucket_of", "path": [], "model": {}}
                    return out
        hb = bucket(t, variants[0])
        res, model = oblig.int_check(q, bucket(hb, variants[1]) != bucket(t, variants[1]))
        r.queries += 1
        if res == z3.sat:
            r.status = "violated"
            r.witness = {"what": f"the hour bucket of {model.get('ts', 0)} lies in another day bucket than the timestamp itself",
                         "span": None, "call": "naive_bucket_of", "path": [], "model": {"ts": str(model.get("ts", 0))}}
        elif res != z3.unsat:
            r.status = "inconclusive"
            r.notes.append("solver returned unknown")
    except oblig.IntEncodingError as e:
        r.status = "inconclusive"
        r.notes.append(f"not encodable: {e}")
    return out


def xor_builder(ctx):
    """the per-zone XOR filter is built from every value a probe can ask for"""
    b = Builder(ctx, "zone-zone_xor_index-{impl#0}-build_for_field.", "ZoneXorFilterIndex::build_for_field", {})
    E, q = b.E, ctx.q
    r = b.mk("B-5", "ZoneXorFilterIndex::build_for_field collects, for every event of a zone whose payload holds the field, exactly the "
                    "text value_to_string gives for it (no value is left out), hashes the collected values with stable_hash64 and "
                    "builds the zone's filter from those hashes - the same normalisation and hash the probes use")
    out = [b.results["B-5"]]
    if not r:
        return out
    vts = oblig.events(E, r"value_to_string$")
    pushes = [e for e in E.events if re.search(r"Vec::<.*String>::push$", e.func)]
    hashes = oblig.events(E, r"stable_hash64")
    fuse = oblig.events(E, r"BinaryFuse8::try_from_iterator")
    if not (oblig.need_anchor(r, vts, "value_to_string") and oblig.need_anchor(r, pushes, "values.push")
            and oblig.need_anchor(r, hashes, "stable_hash64") and oblig.need_anchor(r, fuse, "BinaryFuse8::try_from_iterator")):
        return out
    r.nontrivial = True
    for v in vts:
        mine = [p_ for p_ in pushes if len(p_.args) > 1 and v.site in {sym.describe(p_.args[1]).split(":")[0]} | set(E.trace(p_.args[1], p_.env, depth=4))]
        pushed = z3.Or([p_.reach for p_ in mine]) if mine else z3.BoolVal(False)
        got = z3.BitVec(f"disc({v.site})", 64) == 1
        # the loop goes on (next event / end of the zone's events) only with the value collected
        res, model = q.check(v.reach, got, z3.Not(pushed), domain=E.domain)
        r.queries += 1
        if res == z3.sat:
            # a path on which value_to_string returned Some but nothing is pushed: is it a real continuation (not an abort)?
            oblig.violated(r, E, q, v, model, "a value that value_to_string renders is not added to the zone's filter values "
                                              "(an equality probe for it will not find this zone)")
            return out
        for p_ in mine:
            if sym.describe(p_.args[1]) != f"{v.site}:Some.0":
                r.status = "violated"
                r.witness = {"what": f"the value collected is not value_to_string's text itself ({sym.describe(p_.args[1])[:60]})",
                             "span": f"{p_.span[0]}:{p_.span[1]}" if p_.span else None, "call": p_.func[:80], "path": [], "model": {}}
                return out
    # what is inserted into the set of hashes is stable_hash64 of a collected value
    hs = [e for e in E.events if re.search(r"HashSet::<u64.*>::insert$|HashSet::insert$", e.func) and len(e.args) > 1]
    if not hs or not all(sym.describe(e.args[1]).startswith("stable_hash64#") for e in hs):
        r.status = "violated"
        r.witness = {"what": "the zone filter is not built from stable_hash64 of the collected values", "span": None,
                     "call": "build_for_field", "path": [], "model": {}}
        return out
    return out


def replay_wildcard(ctx):
    """two event types of one context in one segment; REPLAY of the context before and after FLUSH"""
    import json
    import shutil
    import tempfile
    from vlib import history
    binary = native_binary(ctx.log)
    if binary is None:
        return False, "native replay program did not build"
    root = tempfile.mkdtemp(prefix="verif-hist-")
    try:
        history.write_config(root, capacity=10, shards=1)
        script = ('DEFINE a FIELDS { "n": "int" }; DEFINE b FIELDS { "n": "int" }; STORE a FOR c1 PAYLOAD {"n": 1}; '
                  'STORE b FOR c1 PAYLOAD {"n": 2}; !sleep 200; REPLAY FOR c1; FLUSH; !wait; !sleep 400; REPLAY FOR c1')
        rc, out, err = history.run_lifetime(binary, root, script)
        res = []
        for _i, o in out:
            if isinstance(o, str) and '"type":"end"' in o:
                rows = []
                for line in o.splitlines():
                    try:
                        j = json.loads(line)
                    except ValueError:
                        continue
                    if j.get("type") == "batch":
                        rows += [(x[1], x[-1]) for x in j["rows"]]
                res.append(sorted(rows))
        if len(res) < 2:
            return False, "REPLAY responses not read"
        text = (f"events a(n=1) and b(n=2) of context c1: REPLAY FOR c1 returns {res[0]} while both are in memory and {res[-1]} once "
                "they share a flushed segment")
        return res[0] != res[-1], text
    finally:
        shutil.rmtree(root, ignore_errors=True)


def zone_identity(ctx):
    """candidate zones of different event types must not be merged"""
    out = []
    r = Result("B-4", "candidate zones are de-duplicated and combined (AND / OR) by segment, zone id and event type: zone ids are "
                      "counted per event type inside a segment, so zones of two event types with the same id are different zones "
                      "(a wildcard REPLAY / QUERY over a context spans several types)")
    r.functions = ["CandidateZone::uniq", "ZoneCombiner::combine"]
    r.bounds = "data flow of the de-duplication keys"
    out.append(r)
    keyed = []
    for needle, label, pat in (("zone-candidate_zone-{impl#0}-uniq.", "CandidateZone::uniq", r"HashSet::<.*>::insert$|HashSet::insert$"),):
        b = Builder(ctx, needle, label, {})
        if b.E is None:
            r.status = "inconclusive"
            r.notes.append(b.err)
            return out
        E = b.E
        evs = [e for e in E.events if re.search(pat, e.func) and len(e.args) > 1]
        if not oblig.need_anchor(r, evs, f"key insertion in {label}"):
            return out
        for e in evs:
            key = e.args[1]
            fields = key.fields if isinstance(key, sym.Agg) else [key]
            src = set()
            for f_ in fields:
                src |= E.trace(f_, e.env, depth=6) | {sym.describe(f_)}
            keyed.append((label, e, any(re.search(r"\.uid\b|uid", x) for x in src), sorted(src)[:8]))
    r.nontrivial = True
    bad = [k for k in keyed if not k[2]]
    if not bad:
        return out
    label, e, _, src = bad[0]
    ok, text = replay_wildcard(ctx)
    r.witness = {"what": f"{label} identifies a zone by {src} - the event type (uid) is not part of the key, so in a wildcard scope the zone 0 "
                         f"of a second event type in the same segment is dropped as a duplicate: " + text,
                 "span": f"{e.span[0]}:{e.span[1]}" if e.span else None, "call": e.func[:80], "path": [], "model": {}, "native": text}
    r.status = "violated" if ok else "inconclusive"
    if not ok:
        r.notes.append("the key ignores the event type but the end-to-end replay did not show a lost event: " + text)
    return out


def replay_not(ctx):
    import json
    import shutil
    import tempfile
    from vlib import history
    binary = native_binary(ctx.log)
    if binary is None:
        return False, "native replay program did not build"
    root = tempfile.mkdtemp(prefix="verif-hist-")
    try:
        history.write_config(root, capacity=10, shards=1)
        qq = "QUERY a WHERE NOT n = 1"
        script = ('DEFINE a FIELDS { "n": "int" }; STORE a FOR c1 PAYLOAD {"n": 1}; STORE a FOR c1 PAYLOAD {"n": 2}; '
                  'STORE a FOR c1 PAYLOAD {"n": 3}; !sleep 200; ' + qq + '; FLUSH; !wait; !sleep 400; ' + qq)
        rc, out, err = history.run_lifetime(binary, root, script)
        res = []
        for _i, o in out:
            if isinstance(o, str) and '"type":"end"' in o:
                rows = []
                for line in o.splitlines():
                    try:
                        j = json.loads(line)
                    except ValueError:
                        continue
                    if j.get("type") == "batch":
                        rows += [x[-1] for x in j["rows"]]
                res.append(sorted(rows))
        if len(res) < 2:
            return False, "responses not read"
        text = (f"events n=1, n=2, n=3 of one zone: `{qq}` returns n={res[0]} while they are in memory and n={res[-1]} after FLUSH")
        return res[0] != res[-1], text
    finally:
        shutil.rmtree(root, ignore_errors=True)


def not_zones(ctx):
    """NOT at zone level: a zone that may hold a row matching F may also hold rows that do not"""
    b = Builder(ctx, "zone-zone_group_collector-{impl#0}-compute_complement.", "ZoneGroupCollector::compute_complement", {})
    E, q = b.E, ctx.q
    r = b.mk("B-6", "zone candidates of NOT F: no zone is dropped because it is a candidate for F - the pruning indexes only say that a zone "
                    "MAY contain a row matching F, and such a zone can contain rows that do not match F as well (the row filter decides)")
    out = [b.results["B-6"]]
    if not r:
        return out
    allz = oblig.events(E, r"get_all_zones_for_segments$")
    if not oblig.need_anchor(r, allz, "get_all_zones_for_segments") or not E.returns:
        return out
    r.nontrivial = True
    filt = [e for e in E.events if re.search(r"Iterator>::filter::<|::filter::<", e.func) and e.span and e.span[0].endswith("zone_group_collector.rs")]
    keyed = [e for e in E.events if re.search(r"HashSet::<.*>::contains|Iterator>::collect::<.*HashSet", e.func)]
    for e in filt:
        res, model = q.check(e.reach, domain=E.domain)
        r.queries += 1
        if res == z3.sat:
            ok, text = replay_not(ctx)
            r.witness = {"what": "compute_complement returns the zones of the segments minus the zones that are candidates for F (a filter over "
                                 "all zones keyed by the matching zones): a zone holding rows on both sides of F is not scanned for NOT F - " + text,
                         "span": f"{e.span[0]}:{e.span[1]}" if e.span else None, "call": e.func[:80],
                         "path": E.path_of_model(model)[-8:], "model": {}, "native": text}
            r.status = "violated" if ok else "inconclusive"
            if not ok:
                r.notes.append("zones are subtracted but the end-to-end replay shows equal answers: " + text)
            return out
    return out


def temporal_minmax(ctx):
    """range predicates on a time column: the per-zone [min, max] test keeps every zone that can hold a match"""
    b = Builder(ctx, "pruner-temporal_pruner-{impl#0}-apply_temporal_only.", "TemporalPruner::apply_temporal_only", {})
    E, q = b.E, ctx.q
    r = b.mk("B-7", "TemporalPruner::apply_temporal_only, range operators: a zone the calendar proposes is kept whenever its [min_ts, max_ts] "
                    "can contain a value satisfying the comparison (>: max > t, >=: max >= t, <: min < t, <=: min <= t)")
    out = [b.results["B-7"]]
    if not r:
        return out
    from .prunespec import _fv
    pushes = [e for e in oblig.events(E, r"CandidateZone::new$") if e.layer == 0]
    loads = [e for e in oblig.events(E, r"load_field_temporal_index$") if e.layer == 0]
    from .c06 import enum_variants
    names = enum_variants("CompareOp", "command/types.rs") or []       # the pruners take command::types::CompareOp
    idx = {n: (names.index(n) if n in names else None) for n in ("Gt", "Gte", "Lt", "Lte")}
    if not oblig.need_anchor(r, pushes, "CandidateZone::new") or not oblig.need_anchor(r, loads, "load_field_temporal_index") or None in idx.values():
        if r.status == "holds":
            r.status = "inconclusive"
            r.notes.append("CompareOp variants not found")
        return out
    r.nontrivial = True
    decided = 0
    for p_ in pushes:
        fv = _fv(p_.reach)
        mx = [v for n, v in fv.items() if n.endswith(".max_ts")]
        mn = [v for n, v in fv.items() if n.endswith(".min_ts")]
        ops = [v for n, v in fv.items() if re.match(r"disc\(arg:args\.op:Some\.0\)$", n)]
        ts = E.var_term(p_.env, "ts")
        if not mx or not mn or not ops or ts is None:
            continue            # the equality branch (no min/max test) is not this obligation's subject
        mx, mn, op = mx[0], mn[0], ops[0]
        mine = [l for l in loads if abs(l.span[1] - p_.span[1]) < 20]
        ok_load = z3.Or([z3.And(l.reach, z3.BitVec(f"disc({l.site})", 64) == 0) for l in mine]) if mine else z3.BoolVal(False)
        specs_ = {"Gt": mx > ts, "Gte": mx >= ts, "Lt": mn < ts, "Lte": mn <= ts}
        for name, may in specs_.items():
            res, model = q.check(ok_load, op == idx[name], may, z3.Not(p_.reach), domain=E.domain)
            r.queries += 1
            if res == z3.sat:
                mv = model.eval(mx, model_completion=True).as_signed_long()
                nv = model.eval(mn, model_completion=True).as_signed_long()
                tv = model.eval(ts, model_completion=True).as_signed_long()
                r.status = "violated"
                sym_ = {"Gt": ">", "Gte": ">=", "Lt": "<", "Lte": "<="}[name]
                r.witness = {"what": f"a zone with min_ts = {nv}, max_ts = {mv} is dropped for `{sym_} {tv}` although it can hold a matching value",
                             "span": f"{p_.span[0]}:{p_.span[1]}" if p_.span else None, "call": "TemporalPruner::apply_temporal_only",
                             "path": [], "model": {"op": name, "min_ts": str(nv), "max_ts": str(mv), "t": str(tv)}}
                return out
            if res != z3.unsat:
                r.status = "inconclusive"
                r.notes.append("solver returned unknown")
                return out
            decided += 1
    if decided == 0:
        r.status = "inconclusive"
        r.notes.append("the min / max test of the range branch was not recognised")
    return out


PRUNER_BODIES = [
    # needle, label, look-up calls whose answer a Some(..) result may rest on
    ("pruner-enum_pruner-{impl#0}-attempt.", "EnumPruner::attempt", r"EnumZonePruner(::<.*>)?::prune$"),
    ("pruner-xor_pruner-{impl#0}-apply_zone_index_only.", "XorPruner::apply_zone_index_only", r"zones_maybe_containing$"),
    ("pruner-xor_pruner-{impl#0}-apply_presence_only.", "XorPruner::apply_presence_only", r"contains_value$"),
    ("pruner-range_pruner-{impl#0}-apply_surf_only.", "RangePruner::apply_surf_only", r"zones_overlapping_(ge|le)$"),
]


def pruner_answers(ctx):
    """A zone pruner answers Some(zones) = "only these zones can hold a match" or None = "no answer, scan everything".
    Some(..) is sound only when it rests on a look-up in the segment's index for this very probe."""
    r = Result("B-8", "enum / zone-XOR / XOR-presence / SuRF pruners: Some(zones) is returned only on paths on which the index "
                      "was consulted for the probe (EnumZonePruner::prune, zones_maybe_containing, contains_value, "
                      "zones_overlapping_ge / le); without a look-up - unsupported operator, index not loadable, literal "
                      "unknown to the index - the answer is None, except that `=` against a value the enum index has never "
                      "seen may answer Some(no zones)")
    r.functions = [b[1] for b in PRUNER_BODIES]
    r.bounds = "every path of the four bodies (loop-free apart from iterator adaptors, which are opaque calls)"
    out = [r]
    q = ctx.q
    found = 0
    for needle, label, lookup in PRUNER_BODIES:
        E, err = ctx.load(needle, ghosts={"lookup": ghost(lookup), "position": ghost(r"Iterator::position$")})
        if E is None:
            r.notes.append(f"{label}: {err}")
            continue
        found += 1
        for (node, reach, env) in E.returns:
            d = E.disc_term(env.get(0))
            g = env.get("@lookup")
            if d is None or g is None:
                r.status = "inconclusive"
                r.notes.append(f"{label}: return value / ghost not resolved")
                return out
            excuse = z3.BoolVal(False)
            if "enum" in needle:
                # `=` against a variant the index does not know: no zone can hold it
                pos = [e for e in oblig.events(E, r"Iterator::position$")]
                eq = E.structs.variant_index("CompareOp::Eq")
                opd = z3.BitVec("disc(arg:op)", 64)
                if pos and eq is not None:
                    excuse = z3.And(pos[0].reach, z3.BitVec(f"disc({pos[0].site})", 64) == 0, opd == eq)
            res, model = q.check(reach, d == 1, z3.Not(g), z3.Not(excuse), domain=E.domain)
            r.queries += 1
            if res == z3.sat:
                r.status = "violated"
                r.witness = {"what": f"{label} answers Some(zones) on a path without an index look-up for the probe: the zones it leaves "
                                     f"out are never scanned although nothing was learnt about them",
                             "span": None, "call": label, "path": E.path_of_model(model)[-10:], "model": oblig.model_summary(E, model)}
                return out
            if res != z3.unsat:
                r.status = "inconclusive"
                r.notes.append("solver returned unknown")
                return out
    r.nontrivial = found == len(PRUNER_BODIES)
    if found != len(PRUNER_BODIES):
        r.status = "inconclusive"
    return out


def surf_consistency_scope(ctx):
    """a range probe encodes its literal in one key lane; a field whose values use several numeric kinds within a segment
    therefore gets no range filter at all (the caller falls back to every zone) - which only works if the kind check looks
    at the whole segment"""
    b = Builder(ctx, "filter-zone_surf_filter-{impl#0}-build_all_filtered.", "ZoneSurfFilter::build_all_filtered", {})
    E, q = b.E, ctx.q
    r = b.mk("B-9", "ZoneSurfFilter::build_all_filtered: the numeric-kind consistency check that decides whether a field gets a range "
                    "filter is made over all zone plans of the segment (the function's `zone_plans` argument), not over a single zone "
                    "or a part of them - per-zone tries in different key lanes would make a probe skip zones that hold matches")
    out = [b.results["B-9"]]
    if not r:
        return out
    calls = oblig.events(E, r"is_field_numeric_consistent$")
    if not oblig.need_anchor(r, calls, "is_field_numeric_consistent in build_all_filtered"):
        return out
    r.nontrivial = True
    for e in calls:
        res, _ = q.check(e.reach, domain=E.domain)
        r.queries += 1
        if res != z3.sat:
            continue
        a = sym.describe(e.args[0]) if e.args else ""
        src = E.trace(e.args[0], e.env, depth=8) | {a} if e.args else set()
        if a != "arg:zone_plans" and not (any(x == "arg:zone_plans" for x in src) and not re.search(r"from_ref|::get|split|first|last|\[", " ".join(src))):
            r.status = "violated"
            r.witness = {"what": f"the consistency check is made over `{a[:80]}` instead of all zone plans of the segment: a field mixing integers and "
                                 "fractions across zones gets per-zone tries in different key lanes, and a range probe (one lane) rules out zones that hold matching rows",
                         "span": f"{e.span[0]}:{e.span[1]}" if e.span else None, "call": "is_field_numeric_consistent", "path": [], "model": {}}
            return out
    return out


def obligations(ctx):
    q = ctx.q
    out = []
    out += pruner_answers(ctx)
    out += surf_consistency_scope(ctx)
    out += calendar_builder(ctx)
    out += not_zones(ctx)
    out += temporal_minmax(ctx)
    out += xor_builder(ctx)
    out += zone_identity(ctx)
    out += bucket_arithmetic(ctx)
    r = Result("B-1", "calendar bucket ids preserve the order of timestamps (ts1 <= ts2 => bucket_id(ts1) <= "
                      "bucket_id(ts2), hour and day granularity), which the calendar's >= / <= / range lookups rely on")
    r.functions = ["TemporalCalendarIndex::bucket_id", "naive_bucket_of (inlined by substitution)"]
    r.bounds = "loop-free; u64 timestamps over the full range; machine arithmetic as bit-vectors"
    out.append(r)
    sb, _ = summary(ctx, "time-temporal_calendar_index-{impl#0}-bucket_id.", "TemporalCalendarIndex::bucket_id")
    sn, _ = summary(ctx, "datetime-time_bucketing-naive_bucket_of.", "naive_bucket_of")
    if sb is None or sn is None or sb[1] is None or sn[1] is None:
        r.status = "inconclusive"
        r.notes.append("summaries of bucket_id / naive_bucket_of not available")
        return out
    Eb, ret_b = sb
    En, ret_n = sn
    call = [e for e in Eb.events if re.search(r"naive_bucket_of$", e.func)]
    if not call:
        r.status = "inconclusive"
        r.notes.append("anchor not found: naive_bucket_of call in bucket_id")
        return out
    callee_sym = Eb.sym(call[0].site, "u64")
    ts_n = En.sym("arg:ts", "u64")
    g_n = z3.BitVec("disc(arg:gran)", 64)
    ts_b = Eb.sym("arg:ts", "u64")
    # gran is passed by reference to a local copy of the argument: same discriminant symbol
    g_b = z3.BitVec("disc(arg:gran)", 64)

    def bucket(ts, g):
        inner = z3.substitute(ret_n, (ts_n, ts), (g_n, g))
        return z3.substitute(ret_b, (callee_sym, inner), (ts_b, ts), (g_b, g))
    def free_vars(t):
        seen, out, work = set(), set(), [t]
        while work:
            x = work.pop()
            if x.get_id() in seen:
                continue
            seen.add(x.get_id())
            if z3.is_const(x) and x.decl().kind() == z3.Z3_OP_UNINTERPRETED:
                out.add(str(x))
            work.extend(x.children())
        return out
    fb, fn_ = free_vars(ret_b), free_vars(ret_n)
    if not fb <= {str(callee_sym)} or not fn_ <= {str(ts_n), str(g_n)}:
        r.status = "inconclusive"
        r.notes.append(f"summaries are not closed terms of their inputs: bucket_id over {sorted(fb)}, naive_bucket_of over {sorted(fn_)}")
        return out
    t1, t2, g = z3.BitVec("t1", 64), z3.BitVec("t2", 64), z3.BitVec("g", 64)
    r.nontrivial = True
    res, model = q.check(z3.ULE(t1, t2), z3.ULT(g, 2), z3.UGT(bucket(t1, g), bucket(t2, g)))
    r.queries += 1
    if res == z3.unsat:
        return out
    if res != z3.sat:
        r.status = "inconclusive"
        r.notes.append("solver returned unknown")
        return out
    v1, v2, gv = model[t1].as_long(), model[t2].as_long(), model[g].as_long() if model[g] is not None else 0
    r.status = "violated"
    r.witness = {"what": f"bucket ids are truncated to 32 bits: ts1={v1} <= ts2={v2} but bucket_id(ts1) > bucket_id(ts2) "
                         f"({'hour' if gv == 0 else 'day'} granularity), so a zone holding ts2 is not a candidate for `>= ts1`",
                 "span": f"{call[0].span[0]}:{call[0].span[1]}" if call[0].span else None,
                 "call": "TemporalCalendarIndex::bucket_id", "path": [], "model": {"ts1": str(v1), "ts2": str(v2), "gran": str(gv)}}
    # native replay on the real calendar index: zone holding exactly ts2, probe >= ts1
    binary = native_binary(ctx.log)
    if binary is None:
        r.status = "inconclusive"
        r.notes.append("native replay program did not build")
        return out
    # find a day-granularity witness for the replay (the lookups use day buckets)
    res2, m2 = q.check(z3.ULE(t1, t2), g == 1, z3.ULT(t2, z3.BitVecVal(8_000_000_000, 64)), z3.UGT(bucket(t1, g), bucket(t2, g)))
    r.queries += 1
    if res2 == z3.sat:
        v1, v2 = m2[t1].as_long(), m2[t2].as_long()
        r.witness["model_realistic"] = {"ts1": str(v1), "ts2": str(v2), "gran": "day", "note": "ts2 < 8e9 (before year 2224)"}
    rc, line = run_native(binary, ["calendar", str(v2), str(v2), ">=", str(v1)])
    r.witness["native"] = line
    if rc != 3:
        r.status = "inconclusive"
        r.notes.append("counterexample did not reproduce on the real calendar index: " + line)
    return out
