"""C08 (Engine B part) - the calendar's bucket ids. `TemporalCalendarIndex::bucket_id` and
`CalendarDir::bucket_id` are loop-free integer functions; the range lookups
(`zones_for_ge / _le / _range`) compare bucket ids numerically, which is only sound if the id
is monotone in the timestamp. The callee `naive_bucket_of` is inlined by substitution of its
own symbolic summary."""
import re

import z3

from .. import oblig, sym
from ..oblig import Result
from .flushspec import Builder
from .c17 import native_binary, run_native

FILTERS = []


def summary(ctx, needle, label):
    b = Builder(ctx, needle, label, {})
    E = b.E
    if E is None or not E.returns:
        return None, b
    # single return value as an ite over all return sites
    (node, reach, env) = E.returns[0]
    ret = E.to_term(env.get(0), E.fn.types.get(0, ""))
    return (E, ret), b


def obligations(ctx):
    q = ctx.q
    out = []
    r = Result("B-1", "calendar bucket ids preserve the order of timestamps (ts1 <= ts2 => bucket_id(ts1) <= "
                      "bucket_id(ts2), hour and day granularity), which the calendar's >= / <= / range lookups rely on")
    r.functions = ["TemporalCalendarIndex::bucket_id", "naive_bucket_of (inlined by substitution)"]
    r.bounds = "loop-free; u64 timestamps over the full range; machine arithmetic as bit-vectors"
    out.append(r)
    sb, _ = summary(ctx, "time-temporal_calendar_index-{impl#0}-bucket_id.", "TemporalCalendarIndex::bucket_id")
    sn, _ = summary(ctx, "datetime-time_bucketing-naive_bucket_of.", "naive_bucket_of")
    if sb is None or sn is None or sb[1] is None or sn[1] is None:
        r.status = "inconclusive"
        r.notes.append("summaries of bucket_id / naive_bucket_of not available")
        return out
    Eb, ret_b = sb
    En, ret_n = sn
    call = [e for e in Eb.events if re.search(r"naive_bucket_of$", e.func)]
    if not call:
        r.status = "inconclusive"
        r.notes.append("anchor not found: naive_bucket_of call in bucket_id")
        return out
    callee_sym = Eb.sym(call[0].site, "u64")
    ts_n = En.sym("arg:ts", "u64")
    g_n = z3.BitVec("disc(arg:gran)", 64)
    ts_b = Eb.sym("arg:ts", "u64")
    # gran is passed by reference to a local copy of the argument: same discriminant symbol
    g_b = z3.BitVec("disc(arg:gran)", 64)

    def bucket(ts, g):
        inner = z3.substitute(ret_n, (ts_n, ts), (g_n, g))
        return z3.substitute(ret_b, (callee_sym, inner), (ts_b, ts), (g_b, g))
    def free_vars(t):
        seen, out, work = set(), set(), [t]
        while work:
            x = work.pop()
            if x.get_id() in seen:
                continue
            seen.add(x.get_id())
            if z3.is_const(x) and x.decl().kind() == z3.Z3_OP_UNINTERPRETED:
                out.add(str(x))
            work.extend(x.children())
        return out
    fb, fn_ = free_vars(ret_b), free_vars(ret_n)
    if not fb <= {str(callee_sym)} or not fn_ <= {str(ts_n), str(g_n)}:
        r.status = "inconclusive"
        r.notes.append(f"summaries are not closed terms of their inputs: bucket_id over {sorted(fb)}, naive_bucket_of over {sorted(fn_)}")
        return out
    t1, t2, g = z3.BitVec("t1", 64), z3.BitVec("t2", 64), z3.BitVec("g", 64)
    r.nontrivial = True
    res, model = q.check(z3.ULE(t1, t2), z3.ULT(g, 2), z3.UGT(bucket(t1, g), bucket(t2, g)))
    r.queries += 1
    if res == z3.unsat:
        return out
    if res != z3.sat:
        r.status = "inconclusive"
        r.notes.append("solver returned unknown")
        return out
    v1, v2, gv = model[t1].as_long(), model[t2].as_long(), model[g].as_long() if model[g] is not None else 0
    r.status = "violated"
    r.witness = {"what": f"bucket ids are truncated to 32 bits: ts1={v1} <= ts2={v2} but bucket_id(ts1) > bucket_id(ts2) "
                         f"({'hour' if gv == 0 else 'day'} granularity), so a zone holding ts2 is not a candidate for `>= ts1`",
                 "span": f"{call[0].span[0]}:{call[0].span[1]}" if call[0].span else None,
                 "call": "TemporalCalendarIndex::bucket_id", "path": [], "model": {"ts1": str(v1), "ts2": str(v2), "gran": str(gv)}}
    # native replay on the real calendar index: zone holding exactly ts2, probe >= ts1
    binary = native_binary(ctx.log)
    if binary is None:
        r.status = "inconclusive"
        r.notes.append("native replay program did not build")
        return out
    # find a day-granularity witness for the replay (the lookups use day buckets)
    res2, m2 = q.check(z3.ULE(t1, t2), g == 1, z3.ULT(t2, z3.BitVecVal(8_000_000_000, 64)), z3.UGT(bucket(t1, g), bucket(t2, g)))
    r.queries += 1
    if res2 == z3.sat:
        v1, v2 = m2[t1].as_long(), m2[t2].as_long()
        r.witness["model_realistic"] = {"ts1": str(v1), "ts2": str(v2), "gran": "day", "note": "ts2 < 8e9 (before year 2224)"}
    rc, line = run_native(binary, ["calendar", str(v2), str(v2), ">=", str(v1)])
    r.witness["native"] = line
    if rc != 3:
        r.status = "inconclusive"
        r.notes.append("counterexample did not reproduce on the real calendar index: " + line)
    return out
