"""Per-property obligation modules for Engine B."""
import importlib

PROPS = ["C01", "C02", "C03", "C06", "C07", "C08", "C09", "C10", "C12", "C16", "C18", "C05", "C11", "C13", "C17", "C19"]


def load(pid):
    return importlib.import_module(f"vlib.mirsym.specs.{pid.lower()}")


# module-path fragments whose bodies every Engine B property may need (one compiler run serves
# all of them)
COMMON_FILTERS = ["flush_worker", "store::insert", "flush_manager", "segment_index", "segment_index_builder", "handover", "temporal_pruner", "filter_group_builder", "compaction::policy", "streaming::response_writer", "zone_step_runner", "streaming::context", "segment::lifecycle", "segment::inflight", "shard::manager", "dispatch::streaming", "aggregate::ops", "condition_evaluator_builder",
                  "wal_cleaner", "inner_wal_writer", "wal_handle", "segment::lifecycle",
                  "compaction_worker", "auth::", "handlers::", "command::dispatcher",
                  "command::parser", "json_command", "shard::worker", "shard::context",
                  "wal_recovery", "condition_evaluator", "temporal_calendar_index", "time_bucketing", "calendar_dir", "shared::time", "temporal_builder", "wal_archive", "wal_archiver", "schema::registry", "field_selector", "index_selector", "segment_id", "memory::memtable", "zone_group_collector", "read::memtable_query", "operators::memtable_source", "merge::aggregate_stream", "zone_xor_index", "selector::scope", "zone::zone_combiner", "zone::candidate_zone", "read::query_plan", "query::streaming::scan", "auth::user_ops", "flow::ordered_merger", "zone_cursor_loader", "write::column_writer", "schema::normalization", "range_allocator", "passive_buffer_set", "filter::condition", "zone_hydrator", "column::column_values", "parser::tokenizer", "enum_pruner", "enum_zone_pruner", "xor_pruner", "range_pruner", "query::streaming::merger", "query::merge::streaming", "sink::aggregate::group_key", "aggregate::columnar", "column_group_builder", "zone::zone_merger", "filter::zone_surf_filter", "read::segment_query_runner"]


def all_filters():
    out = list(COMMON_FILTERS)
    for p in PROPS:
        try:
            out.extend(load(p).FILTERS)
        except ModuleNotFoundError:
            pass
    return sorted(set(out))
