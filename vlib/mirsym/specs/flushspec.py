"""Obligations over the write / flush / publish path, shared by C01, C03 and C11.

Bodies (MIR before the coroutine transform):
  FT  FlushWorker::run's spawned flush task      flush_worker-{impl#0}-run-{closure#0}-{closure#0}
  IN  insert_and_maybe_flush                     store-insert-insert_and_maybe_flush-{closure#0}
  QF  FlushManager::queue_for_flush              flush_manager-{impl#0}-queue_for_flush-{closure#0}
  IS  SegmentIndex::save                         segment_index-{impl#2}-save-{closure#0}
  IL  SegmentIndex::load                         segment_index-{impl#2}-load-{closure#0}
  WA  InnerWalWriter::append_immediate           inner_wal_writer-{impl#0}-append_immediate
"""
import re

import z3

from .. import oblig, sym
from ..oblig import Result

FT = "flush_worker-{impl#0}-run-{closure#0}-{closure#0}."
IN = "store-insert-insert_and_maybe_flush-{closure#0}."
QF = "flush_manager-{impl#0}-queue_for_flush-{closure#0}."
IS = "segment_index-{impl#2}-save-{closure#0}."
IL = "segment_index-{impl#2}-load-{closure#0}."
WA = "inner_wal_writer-{impl#0}-append_immediate."


def ghost(pattern):
    rx = re.compile(pattern)
    return lambda ev, E: bool(rx.search(ev.func))


class Builder:
    def __init__(self, ctx, needle, fn_label, ghosts, self_type=None):
        self.ctx = ctx
        self.E, self.err = ctx.load(needle, ghosts=ghosts, self_type=self_type)
        self.fn_label = fn_label
        self.results = {}

    def mk(self, oid, desc):
        r = Result(oid, desc)
        r.functions = [self.fn_label]
        r.bounds = (f"loops unrolled {self.ctx.k}x, awaited futures assumed ready, calls opaque "
                    f"(fresh result, &mut arguments havocked), unwind edges not followed")
        self.results[oid] = r
        if self.E is None:
            r.status = "inconclusive"
            r.notes.append(self.err)
            return None
        return r


def flush_task(ctx):
    """publication protocol of one flush"""
    ghosts = {
        "pushed": ghost(r"Vec::<(?:std::string::)?String>::push"),
        "contains": ghost(r"slice::<impl \[(?:std::string::)?String\]>::contains"),
        "cleared": ghost(r"SegmentLifecycleTracker::clear_and_complete"),
        "released": ghost(r"MemTable::flush$"),
        "flushed": ghost(r"Flusher::flush$"),
    }
    b = Builder(ctx, FT, "FlushWorker::run (spawned flush task)", ghosts)
    E, q = b.E, ctx.q

    def ok_terms(ev):
        fr, _ = E.var(ev.env, "flush_result")
        d = E.disc_term(fr) if fr is not None else None
        we = E.var_term(ev.env, "was_empty")
        iq = E.var_term(ev.env, "is_queryable")
        return d, we, iq

    def published(ev):
        """the segment name is in the live list: pushed now, or the `contains` test said so"""
        pushed = ev.env.get("@pushed")
        seen = ev.env.get("@contains")
        cont = None
        for e2 in E.events:
            if re.search(r"\]>::contains", e2.func) and e2.bb != ev.bb:
                cont = E.sym(e2.site, "bool")
        if pushed is None or seen is None or cont is None:
            return None
        return z3.Or(pushed, z3.And(seen, cont))

    pushes = oblig.events(E, r"Vec::<(?:std::string::)?String>::push") if E else []

    r = b.mk("publish-guard", "the segment id is appended to the live segment list only when the flush "
             "returned Ok, the memtable was not empty and verify_with_retry returned true")
    if r and oblig.need_anchor(r, pushes, "Vec<String>::push in the flush task"):
        # the push must be on the guard obtained from segment_ids.write()
        w = oblig.events(E, r"RwLock::<.*>::write$")
        if not any(sym.describe(e.args[0]) == "cap:segment_ids" for e in w if e.args):
            r.status = "inconclusive"
            r.notes.append("anchor not found: segment_ids.write() in the flush task")
        else:
            def phi(ev):
                d, we, iq = ok_terms(ev)
                if d is None or we is None or iq is None:
                    return None
                return z3.And(d == 0, z3.Not(we), iq)
            oblig.guarded(r, E, q, pushes, phi, "live-list push reachable without Ok / non-empty / verified")

    rel = oblig.events(E, r"MemTable::flush$") if E else []
    r = b.mk("release-after-publish", "the passive in-memory copy is emptied (MemTable::flush on the passive "
             "buffer) only after the segment is in the live list, the flush succeeded and the segment was verified")
    if r and oblig.need_anchor(r, rel, "MemTable::flush (passive buffer release)"):
        def phi(ev):
            d, we, iq = ok_terms(ev)
            p = published(ev)
            if d is None or iq is None or p is None:
                return None
            return z3.And(d == 0, iq, p)
        oblig.guarded(r, E, q, rel, phi, "passive buffer released before publication / without verification")

    clr = oblig.events(E, r"SegmentLifecycleTracker::clear_and_complete") if E else []
    r = b.mk("clear-after-publish", "SegmentLifecycleTracker::clear_and_complete (drops the tracker's reference to "
             "the passive buffer) runs only after publication and successful verification")
    if r and oblig.need_anchor(r, clr, "SegmentLifecycleTracker::clear_and_complete"):
        def phi(ev):
            d, we, iq = ok_terms(ev)
            p = published(ev)
            if d is None or iq is None or p is None:
                return None
            return z3.And(d == 0, iq, p)
        oblig.guarded(r, E, q, clr, phi, "lifecycle entry cleared before publication")

    cln = oblig.events(E, r"WalCleaner::cleanup_up_to") if E else []
    r = b.mk("wal-prune-guard", "WAL pruning (WalCleaner::cleanup_up_to) is reached only after the segment was "
             "written (Ok, non-empty), verified and published")
    if r and oblig.need_anchor(r, cln, "WalCleaner::cleanup_up_to in the flush task"):
        def phi(ev):
            d, we, iq = ok_terms(ev)
            p = published(ev)
            if d is None or we is None or iq is None or p is None:
                return None
            return z3.And(d == 0, z3.Not(we), iq, p)
        oblig.guarded(r, E, q, cln, phi, "WAL pruned without a verified, published segment")

    r = b.mk("wal-prune-cutoff", "the WAL cut-off passed to cleanup_up_to is segment_id + 1 of the segment just published")
    if r and oblig.need_anchor(r, cln, "WalCleaner::cleanup_up_to"):
        for ev in cln:
            r.anchors.append(f"{ev.short}@bb{ev.bb}")
            a = E.to_term(ev.args[1], "u64") if len(ev.args) > 1 else None
            s = E.var_term(ev.env, "segment_id")
            if a is None or s is None:
                r.status = "inconclusive"
                r.notes.append("cut-off argument or segment_id not resolved")
                continue
            res, model = q.check(ev.reach, a != s + 1, domain=E.domain)
            r.queries += 1
            r.nontrivial = True
            if res == z3.sat:
                oblig.violated(r, E, q, ev, model, "cut-off is not segment_id + 1")

    r = b.mk("flush-before-publish", "nothing is published, released or pruned before Flusher::flush was awaited")
    if r:
        targets = pushes + rel + clr + cln
        if oblig.need_anchor(r, targets, "publication effects"):
            oblig.precedes(r, E, q, targets, "flushed", "effect reachable before Flusher::flush")
    return b.results


def insert_path(ctx):
    ghosts = {
        "wal_append": ghost(r"WalHandle::append$"),
        "passive_added": ghost(r"PassiveBufferSet::add_from$"),
        "inserted": ghost(r"MemTable::insert$"),
    }
    b = Builder(ctx, IN, "insert_and_maybe_flush", ghosts)
    E, q = b.E, ctx.q
    ins = oblig.events(E, r"MemTable::insert$") if E else []
    r = b.mk("wal-before-memtable", "when the WAL is enabled and the shard has a WAL handle, the event is handed to "
             "WalHandle::append before MemTable::insert (same event value)")
    if r and oblig.need_anchor(r, ins, "MemTable::insert in insert_and_maybe_flush"):
        app = oblig.events(E, r"WalHandle::append$")
        fe = oblig.events(E, r"WalEntry::from_event$")
        if not app or not fe:
            r.status = "inconclusive"
            r.notes.append("anchor not found: WalHandle::append / WalEntry::from_event")
        else:
            # the Option the code tests with `if let Some(wal) = &ctx.wal`
            wal_label = re.sub(r":Some\.0$", "", sym.describe(app[0].args[0])) if app[0].args else ""

            def phi(ev):
                cfg = E.sym("CONFIG.wal.enabled", "bool")
                wal_disc = z3.BitVec(f"disc({wal_label})", 64)
                g = ev.env.get("@wal_append")
                if g is None:
                    return None
                return z3.Implies(z3.And(cfg, wal_disc == 1), g)
            if not re.match(r"^cap:ctx(~\d+)?\.wal$", wal_label):
                r.status = "inconclusive"
                r.notes.append(f"ctx.wal option not recognised in the MIR ({wal_label})")
            if r.status == "holds":
                oblig.guarded(r, E, q, ins, phi, "MemTable::insert reachable before the WAL append")
            # the appended entry is built from the event that is inserted
            src = fe[0].args[0] if fe[0].args else None
            tgt = ins[0].args[1] if len(ins[0].args) > 1 else None
            same_event = False
            if isinstance(src, sym.Ref) and tgt is not None:
                v, _ = E.read_place(fe[0].env, src.place)
                same_event = sym.same(v, tgt)
            if not same_event:
                r.status = "violated" if r.status == "holds" else r.status
                r.witness = {"what": "WAL entry is not built from the inserted event", "span": None,
                             "call": fe[0].func[:120], "path": [], "model": {}}

    rep = oblig.events(E, r"mem::replace") if E else []
    r = b.mk("passive-before-rotate", "the full memtable is copied into the passive buffer set before it is swapped "
             "out (mem::replace), so a read always finds its events in memory")
    if r and oblig.need_anchor(r, rep, "std::mem::replace of the memtable"):
        oblig.precedes(r, E, q, rep, "passive_added", "memtable swapped out before the passive copy exists")

    qf = oblig.events(E, r"FlushManager::queue_for_flush$") if E else []
    r = b.mk("queue-gets-rotated-table", "queue_for_flush receives the swapped-out memtable and the passive copy "
             "made from it, and is reached only when the memtable is full")
    if r and oblig.need_anchor(r, qf, "FlushManager::queue_for_flush"):
        ev = qf[0]
        ok = len(ev.args) >= 5 and sym.describe(ev.args[1]).startswith("mem::replace") and \
            "PassiveBufferSet::add_from" in sym.describe(ev.args[4])
        def phi(e2):
            return E.sym("MemTable::is_full#0", "bool")
        oblig.guarded(r, E, q, qf, phi, "flush queued although the memtable is not full")
        if not ok and r.status == "holds":
            r.status = "violated"
            r.witness = {"what": "queue_for_flush is not given (mem::replace result, passive copy)",
                         "span": f"{ev.span[0]}:{ev.span[1]}" if ev.span else None,
                         "call": [sym.describe(a)[:60] for a in ev.args], "path": [], "model": {}}
    return b.results


def queue_for_flush(ctx):
    ghosts = {"inflight": ghost(r"InflightSegments::insert$")}
    b = Builder(ctx, QF, "FlushManager::queue_for_flush", ghosts)
    E, q = b.E, ctx.q
    snd = oblig.events(E, r"Sender::<.*>::send$") if E else []
    r = b.mk("inflight-before-send", "the segment is marked in-flight (InflightSegments::insert) before the "
             "memtable is handed to the flush worker's channel, so reads merge it into their scan list")
    if r and oblig.need_anchor(r, snd, "mpsc::Sender::send in queue_for_flush"):
        oblig.precedes(r, E, q, snd, "inflight", "flush job sent before the in-flight marker is set")
    return b.results


def index_save(ctx):
    ghosts = {
        "created": ghost(r"File::create"),
        "written": ghost(r"bincode::serialize_into"),
        "flushed": ghost(r"Write>::flush$"),
        "synced": ghost(r"File::sync_all$"),
    }
    b = Builder(ctx, IS, "SegmentIndex::save", ghosts)
    E, q = b.E, ctx.q
    ren = oblig.events(E, r"fs::rename") if E else []
    r = b.mk("temp-fsync-rename", "segments.idx is replaced by rename only after the temporary file was created, "
             "fully written, flushed and fsynced, each step having succeeded")
    if r and oblig.need_anchor(r, ren, "std::fs::rename in SegmentIndex::save"):
        def phi(ev):
            gs = [ev.env.get("@" + g) for g in ("created", "written", "flushed", "synced")]
            if any(g is None for g in gs):
                return None
            tries = {}
            for e2 in E.events:
                if re.search(r"Try>::branch$", e2.func) and e2.args:
                    m = re.match(r"^(File::create|bincode::serialize_into|Write::flush|File::sync_all|BinaryHeader::write_to)#",
                                 sym.describe(e2.args[0]))
                    if m:
                        tries[m.group(1)] = z3.BitVec(f"disc(try({sym.describe(e2.args[0])}))", 64) == 0
            need = ("File::create", "bincode::serialize_into", "Write::flush", "File::sync_all")
            if any(n not in tries for n in need):
                # a step whose Result is not propagated with `?`: its failure does not stop the rename
                return z3.BoolVal(False)
            tries = list(tries.values())
            return z3.And(*gs, *tries)
        oblig.guarded(r, E, q, ren, phi, "rename reachable before create/write/flush/fsync all succeeded")
    r = b.mk("rename-target", "the rename goes from the `.idx.tmp` path to `segments.idx` in the shard directory")
    if r and oblig.need_anchor(r, ren, "std::fs::rename"):
        ev = ren[0]
        r.anchors.append(f"fs::rename@bb{ev.bb}")
        r.nontrivial = True
        src, dst = ev.args[0], ev.args[1]
        ok = False
        if isinstance(src, sym.Ref) and isinstance(dst, sym.Ref):
            dv, _ = E.read_place(ev.env, dst.place)
            joins = [e for e in E.events if re.search(r"Path::join", e.func)]
            ok = any('"segments.idx"' in sym.describe(e.args[1]) for e in joins if len(e.args) > 1) and \
                sym.describe(dv).startswith("Path::join")
            setext = [e for e in E.events if re.search(r"set_extension", e.func)]
            ok = ok and any('"idx.tmp"' in sym.describe(e.args[1]) for e in setext if len(e.args) > 1)
            ok = ok and any(isinstance(e.args[0], sym.Ref) and e.args[0].place.local == src.place.local
                            for e in setext)
        if not ok:
            r.status = "violated"
            r.witness = {"what": "rename source/target are not (<shard>/segments.idx.tmp, <shard>/segments.idx)",
                         "span": f"{ev.span[0]}:{ev.span[1]}" if ev.span else None,
                         "call": [sym.describe(a) for a in ev.args], "path": [], "model": {}}
    return b.results


def index_load(ctx):
    ghosts = {"tmp_removed": ghost(r"fs::remove_file")}
    b = Builder(ctx, IL, "SegmentIndex::load", ghosts)
    E, q = b.E, ctx.q
    tl = (oblig.events(E, r"try_load_index") + oblig.events(E, r"recover_from_disk")) if E else []
    r = b.mk("stale-temp-removed", "a leftover segments.idx.tmp from a crashed save is removed before the index "
             "is read or rebuilt")
    if r and oblig.need_anchor(r, tl, "try_load_index / recover_from_disk in SegmentIndex::load"):
        def phi(ev):
            g = ev.env.get("@tmp_removed")
            ex = None
            for e2 in E.events:
                if re.search(r"Path::exists$", e2.func):
                    ex = E.sym(e2.site, "bool")
                    break
            if g is None or ex is None:
                return None
            return z3.Implies(ex, g)
        oblig.guarded(r, E, q, tl, phi, "index read while a stale temporary file is still present")
    return b.results


def wal_append(ctx):
    ghosts = {"line_written": ghost(r"Write>::write_all$"), "flushed": ghost(r"Write>::flush$")}
    b = Builder(ctx, WA, "InnerWalWriter::append_immediate", ghosts)
    E, q = b.E, ctx.q
    r = b.mk("wal-flush-each-write", "with wal.flush_each_write the entry line is flushed to the file before "
             "append_immediate returns Ok (an acknowledged STORE is in the OS file)")
    if r:
        rets = E.returns
        if not rets:
            r.status = "inconclusive"
            r.notes.append("no return found")
        else:
            r.nontrivial = True
            for (node, reach, env) in rets:
                cfg = E.sym("CONFIG.wal.flush_each_write", "bool")
                ret = env.get(0)
                d = E.disc_term(ret) if ret is not None else None
                g1, g2 = env.get("@line_written"), env.get("@flushed")
                if d is None or g1 is None or g2 is None:
                    # Ok(()) may be built as an aggregate: discriminant known
                    if isinstance(ret, sym.Agg):
                        d = E.discriminant(ret, "")
                    if d is None or not sym.is_term(d):
                        r.status = "inconclusive"
                        r.notes.append("return value not resolved")
                        continue
                res, model = q.check(reach, d == 0, cfg, z3.Not(z3.And(g1, g2)), domain=E.domain)
                r.queries += 1
                if res == z3.sat:
                    r.status = "violated"
                    r.witness = {"what": "Ok returned with flush_each_write set but the line was not written+flushed",
                                 "span": None, "call": "return", "path": E.path_of_model(model),
                                 "model": oblig.model_summary(E, model)}
                    break
    return b.results


def index_builder(ctx):
    """SegmentIndexBuilder::add_segment_entry: the read-modify-write of segments.idx is one
    critical section of the shard's flush lock (the lock compaction's hand-over also takes)"""
    ghosts = {"locked": ghost(r"Mutex::<\(\)>::lock$"), "guard_dropped": ghost(r"^drop\(_guard\)$")}
    b = Builder(ctx, "segment-segment_index_builder-{impl#0}-add_segment_entry-{closure#0}.",
                "SegmentIndexBuilder::add_segment_entry", ghosts)
    E, q = b.E, ctx.q
    r = b.mk("index-rmw-under-lock", "add_segment_entry loads, extends and saves segments.idx entirely while holding the "
             "shard's flush coordination lock (acquired before SegmentIndex::load, guard alive until after save)")
    if r:
        evs = oblig.events(E, r"SegmentIndex::load$") + oblig.events(E, r"SegmentIndex::insert_entry$") + \
            oblig.events(E, r"SegmentIndex::save$")
        locks = oblig.events(E, r"Mutex::<\(\)>::lock$")
        if oblig.need_anchor(r, evs, "SegmentIndex::load / insert_entry / save") and \
                oblig.need_anchor(r, locks, "flush_coordination_lock.lock()"):
            if len({e.short for e in evs}) < 3:
                r.status = "inconclusive"
                r.notes.append("expected load, insert_entry and save in add_segment_entry")
            else:
                def phi(ev):
                    a, d = ev.env.get("@locked"), ev.env.get("@guard_dropped")
                    if a is None or d is None:
                        return None
                    return z3.And(a, z3.Not(d))
                oblig.guarded(r, E, q, evs, phi, "segments.idx read or written outside the flush lock")
    return b.results
