"""Obligations over SchemaRegistry::define / define_async (C01, C06): a schema becomes live in
memory only after its record was appended to the schema store successfully."""
import re

import z3

from .. import oblig, sym
from .flushspec import Builder, ghost


def define_paths(ctx):
    out = {}
    for key, needle, label in (("async", "schema-registry-{impl#0}-define_async-{closure#0}.", "SchemaRegistry::define_async"),
                               ("sync", "schema-registry-{impl#0}-define.", "SchemaRegistry::define")):
        ghosts = {"appended": ghost(r"SchemaStore::append$|spawn_blocking")}
        b = Builder(ctx, needle, label, ghosts)
        E, q = b.E, ctx.q
        r = b.mk(f"persist-before-register-{key}",
                 f"{label}: the schema record is registered in memory (register_record) only after the append to the "
                 f"schema store returned Ok; a failed append (or a failed blocking task) returns the error with the "
                 f"registry unchanged, and an already defined type is rejected before anything is written")
        out[key] = b.results[f"persist-before-register-{key}"]
        if not r:
            continue
        reg = oblig.events(E, r"SchemaRegistry::register_record$")
        app = oblig.events(E, r"SchemaStore::append$") + oblig.events(E, r"spawn_blocking")
        if not oblig.need_anchor(r, reg, "register_record") or not oblig.need_anchor(r, app, "SchemaStore::append / spawn_blocking"):
            continue
        if key == "async":
            # the blocking closure must be the one that appends the record
            cl = [f for f in ctx.find("schema-registry-{impl#0}-define_async-{closure#0}-{closure#")
                  if re.search(r"SchemaStore::append\(", open(f).read())]
            if not cl:
                r.status = "violated"
                r.witness = {"what": "the task awaited before register_record does not append the record to the store",
                             "span": None, "call": app[0].func[:100], "path": [], "model": {}}
                continue

        def phi(ev):
            g = ev.env.get("@appended")
            tries = []
            for e2 in E.events:
                if re.search(r"Try>::branch$", e2.func) and e2.args and e2.node != ev.node:
                    d = sym.describe(e2.args[0])
                    if re.match(r"^(SchemaStore::append#|Result::map_err#|try\(Result::map_err#)", d):
                        tries.append(z3.BitVec(f"disc(try({d}))", 64) == 0)
            need = 2 if key == "async" else 1
            if g is None:
                return None
            if len(tries) < need:
                return z3.BoolVal(False)
            return z3.And(g, *tries)
        oblig.guarded(r, E, q, reg, phi, "schema registered in memory before / without a successful append")
        # AlreadyDefined guard: register_record / append unreachable when the type exists
        if r.status == "holds":
            ck = oblig.events(E, r"HashMap::<.*>::contains_key")
            if ck:
                exists = E.sym(ck[0].site, "bool")
                oblig.never(r, E, q, reg + app, lambda ev: exists, "redefinition of an existing type reaches the store / registry")
            else:
                r.status = "inconclusive"
                r.notes.append("anchor not found: contains_key(event_type)")
    return out
