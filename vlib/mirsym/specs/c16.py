"""C16 (Engine B part) - every reader of a time literal goes through the shared TimeParser
first (so that all spellings of one instant denote the same epoch second on the pruning path
and on the row-condition path)."""
import re

import z3

from .. import oblig, sym
from .flushspec import Builder, ghost

FILTERS = []

SITES = [
    ("B-1", "pruner-temporal_pruner-{impl#0}-apply_temporal_only.", "TemporalPruner::apply_temporal_only",
     "zone pruning of temporal predicates"),
    ("B-2", "filter-condition_evaluator_builder-{impl#0}-add_special_fields.", "ConditionEvaluatorBuilder::add_special_fields",
     "row condition built from SINCE"),
]


def option_parts(E, v):
    """(is_some condition, payload term) of an Option value built from Agg / Phi alternatives"""
    if isinstance(v, sym.Agg):
        if v.tag.endswith("Some"):
            return z3.BoolVal(True), E.to_term(v.fields[0], "i64") if v.fields else None
        if v.tag.endswith("None"):
            return z3.BoolVal(False), z3.BitVecVal(0, 64)
        return None
    if isinstance(v, sym.Phi):
        parts = [(c, option_parts(E, x)) for c, x in v.alts]
        if any(p is None or p[1] is None for _, p in parts):
            return None
        some, val = parts[-1][1]
        for c, (s_, v_) in reversed(parts[:-1]):
            some, val = z3.If(c, s_, some), z3.If(c, v_, val)
        return some, val
    return None


def epoch_heuristic(ctx):
    """the integer-epoch unit heuristic over the whole i128 range, from MIR through the integer encoding"""
    import time as _time
    from .c17 import native_binary, run_native
    r = oblig.Result("B-3", "TimeParser::normalize_integer_epoch over every i128: |n| < 10^11 is taken as seconds unchanged; 12-14 digits "
                            "(milliseconds), 15-16 (microseconds) and 17-19 (nanoseconds) map to the floor of the denoted instant "
                            "in seconds (also before 1970); 20 or more digits are rejected; the result always fits i64")
    r.functions = ["TimeParser::normalize_integer_epoch", "num_digits_u128 (unrolled 40x, inlined by substitution)",
                   "i128::unsigned_abs / div_euclid, i64::try_from(i128), Result::ok (modelled exactly)"]
    r.bounds = ("the whole i128 range; num_digits_u128's loop unrolled 40 times with the unwinding assertion (no 41st iteration) "
                "discharged by the solver; machine arithmetic decided through the mod-2^128 integer encoding")
    out = [r]
    Ed, err = ctx.load("shared-time-num_digits_u128.", ghosts={}, k=40)
    En, err2 = ctx.load("shared-time-{impl#0}-normalize_integer_epoch.", ghosts={}, k=2)
    if Ed is None or En is None or not Ed.returns or not En.returns:
        r.status = "inconclusive"
        r.notes.append(err or err2 or "no return")
        return out
    q = ctx.q
    t0 = _time.time()
    # unwinding assertion of the digit loop
    if not Ed.cut_conditions:
        r.status = "inconclusive"
        r.notes.append("digit loop: no cut edge recorded")
        return out
    try:
        tq = _time.time()
        res, _ = oblig.int_check(q, z3.Or(Ed.cut_conditions))
        if _time.time() - tq > 5:
            r.notes.append(f"unwinding assertion: {res} in {_time.time() - tq:.0f} s")
    except oblig.IntEncodingError as e:
        r.status = "inconclusive"
        r.notes.append(f"digit loop not encodable: {e}")
        return out
    r.queries += 1
    if res != z3.unsat:
        r.status = "inconclusive"
        r.notes.append("unwinding assertion of num_digits_u128 not discharged (a 41st iteration is feasible?)")
        return out
    # callee lemma: num_digits_u128(x) is the number of decimal digits of x, window by window
    rets = [(reach, Ed.to_term(env.get(0), "u32")) for (_n, reach, env) in Ed.returns]
    if any(t is None for _, t in rets):
        r.status = "inconclusive"
        r.notes.append("num_digits_u128 return value not a term")
        return out
    D = rets[-1][1]
    for reach, t in rets[:-1]:
        D = z3.If(reach, t, D)
    try:
        encd = oblig.IntEnc()
        Di = encd.tr(z3.simplify(D))
        X = encd.tr(Ed.sym("arg:x", "u128"))
    except oblig.IntEncodingError as e:
        r.status = "inconclusive"
        r.notes.append(f"digit loop not encodable: {e}")
        return out
    for jdig in range(1, 40):
        s = z3.Solver()
        s.set("timeout", 60000)
        s.add(*encd.ranges)
        s.add(X >= (0 if jdig == 1 else 10 ** (jdig - 1)))
        if jdig < 39:
            s.add(X < 10 ** jdig)
        s.add(Di != jdig)
        res = s.check()
        r.queries += 1
        q.queries += 1
        if res != z3.unsat:
            r.status = "inconclusive" if res != z3.sat else "violated"
            if res == z3.sat:
                xv = s.model().eval(X, model_completion=True)
                r.witness = {"what": f"num_digits_u128({xv}) is not {jdig}", "span": None, "call": "num_digits_u128", "path": [],
                             "model": {"x": str(xv)}}
            else:
                r.notes.append(f"digit lemma for {jdig} digits not decided")
            return out
    call = [e for e in En.events if re.search(r"num_digits_u128$", e.func)]
    if len(call) != 1:
        r.status = "inconclusive"
        r.notes.append("anchor not found: num_digits_u128 call")
        return out
    absn = En.to_term(call[0].args[0], "u128")
    dsym = En.sym(call[0].site, "u32")
    parts = None
    if len(En.returns) == 1:
        parts = option_parts(En, En.returns[0][2].get(0))
    if parts is None or absn is None:
        r.status = "inconclusive"
        r.notes.append("return value of normalize_integer_epoch not resolved to Option parts")
        return out
    n = En.sym("arg:n", "i128")
    try:
        enc = oblig.IntEnc()
        some_i = enc.tr(parts[0])
        val_i = enc.signed(parts[1])
        N = enc.signed(n)
        arg_i = enc.tr(absn)
        d_i = enc.tr(dsym)
    except oblig.IntEncodingError as e:
        r.status = "inconclusive"
        r.notes.append(f"not encodable: {e}")
        return out
    # the callee's result, by the lemma above, is the digit count of its argument: one query per digit count
    A = z3.If(N >= 0, N, -N)
    r.nontrivial = True
    cases = []
    for jdig in range(1, 40):
        if jdig <= 11:
            cases.append((jdig, "seconds", True, N))
        elif jdig <= 14:
            cases.append((jdig, "milliseconds", True, N / z3.IntVal(1000)))
        elif jdig <= 16:
            cases.append((jdig, "microseconds", True, N / z3.IntVal(10 ** 6)))
        elif jdig <= 19:
            cases.append((jdig, "nanoseconds", True, N / z3.IntVal(10 ** 9)))
        else:
            cases.append((jdig, "rejected", False, None))
    for jdig, label, want_some, want_val in cases:
        label = f"{label} ({jdig} digits)"
        window = [d_i == jdig, arg_i >= (10 ** (jdig - 1) if jdig > 1 else 0)] + ([arg_i < 10 ** jdig] if jdig < 39 else [])
        ok = some_i if want_some else z3.Not(some_i)
        if want_some:
            ok = z3.And(ok, val_i == want_val)       # z3's integer division by a positive constant is the floor
        res = None
        for sign in (N >= 0, N < 0):
            s = z3.Solver()
            s.set("timeout", 60000)
            s.add(*enc.ranges)
            s.add(*window)
            s.add(sign, A == arg_i)
            s.add(z3.Not(ok))
            tq = _time.time()
            res = s.check()
            r.queries += 1
            q.queries += 1
            if _time.time() - tq > 5:
                r.notes.append(f"{label}: {res} in {_time.time() - tq:.0f} s")
            if res != z3.unsat:
                break
        if res == z3.unsat:
            # |n| really is the callee's argument (both signs), and the window is inhabited
            s2 = z3.Solver()
            s2.set("timeout", 60000)
            s2.add(*enc.ranges)
            s2.add(A != arg_i)
            s3 = z3.Solver()
            s3.add(*enc.ranges)
            s3.add(*window)
            if jdig == 1 and s2.check() != z3.unsat:
                r.status = "inconclusive"
                r.notes.append("the argument of num_digits_u128 is not |n|")
                return out
            if s3.check() != z3.sat:
                r.status = "inconclusive"
                r.notes.append(f"window {label} is empty (vacuous)")
                return out
            continue
        if res != z3.sat:
            r.status = "inconclusive"
            r.notes.append(f"solver returned unknown for {label}")
            return out
        m = s.model()
        nv = m.eval(N, model_completion=True).as_long()
        r.status = "violated"
        got_some = z3.is_true(m.eval(some_i, model_completion=True))
        got_val = m.eval(val_i, model_completion=True).as_long()
        r.witness = {"what": f"integer epoch {nv} ({label}): the parser returns {'Some(' + str(got_val) + ')' if got_some else 'None'}, "
                             f"expected {'Some(' + str(m.eval(want_val, model_completion=True)) + ')' if want_some else 'None'}",
                     "span": None, "call": "TimeParser::normalize_integer_epoch", "path": [], "model": {"n": str(nv)}}
        binary = native_binary(ctx.log)
        if binary is None:
            r.status = "inconclusive"
            r.notes.append("native replay program did not build")
            return out
        exp = str(m.eval(want_val, model_completion=True)) if want_some else "none"
        rc, line = run_native(binary, ["epoch", str(nv), exp])
        r.witness["native"] = line
        if rc != 3:
            r.status = "inconclusive"
            r.notes.append("counterexample did not reproduce on the real parser: " + line)
        return out
    q.solver_s += _time.time() - t0
    return out


def json_number_paths(ctx):
    """what normalize_json_value writes back for each JSON spelling of a time"""
    b = Builder(ctx, "shared-time-{impl#0}-normalize_json_value.", "TimeParser::normalize_json_value", {})
    E, q = b.E, ctx.q
    r = b.mk("B-4", "TimeParser::normalize_json_value replaces the value by: the unit heuristic's result for JSON integers (i64 and u64, "
                    "error propagated), the floor of a JSON float (so -1.5 and \"1969-12-31T23:59:58.5Z\" are the same second), and the shared "
                    "string parser's result for strings")
    out = [b.results["B-4"]]
    if not r:
        return out
    stores = oblig.events(E, r"^store\(\*value\)$")
    if not oblig.need_anchor(r, stores, "assignment to *value"):
        return out
    r.nontrivial = True
    seen = set()
    for ev in stores:
        src = E.trace(ev.args[0], ev.env, depth=10) | {sym.describe(ev.args[0])}
        txt = " ".join(src)
        span = f"{ev.span[0]}:{ev.span[1]}" if ev.span else None
        if "Number::as_f64" in txt or "f64::" in txt or " as i64)" in txt and "f64" in txt:
            seen.add("float")
            if "f64::floor" not in txt:
                r.status = "violated"
                r.witness = {"what": "a JSON float time is converted to seconds without flooring (`as i64` truncates toward zero): -1.5 becomes -1 "
                                     "while the ISO-8601 and integer spellings of that instant give -2",
                             "span": span, "call": "TimeParser::normalize_json_value", "path": [], "model": {}}
                return out
        elif "Number::as_i64" in txt or "Number::as_u64" in txt:
            seen.add("int")
            if "normalize_integer_epoch" not in txt or not any(x.startswith("try(") for x in src):
                r.status = "violated"
                r.witness = {"what": "a JSON integer time is stored without going through the unit heuristic (or its failure is not propagated)",
                             "span": span, "call": "TimeParser::normalize_json_value", "path": [], "model": {}}
                return out
        elif "parse_str_to_epoch_seconds" in txt:
            seen.add("string")
        else:
            r.status = "violated"
            r.witness = {"what": f"a value is written back that comes from none of the normalisers ({sorted(src)[:4]})",
                         "span": span, "call": "TimeParser::normalize_json_value", "path": [], "model": {}}
            return out
    if seen != {"float", "int", "string"}:
        r.status = "inconclusive"
        r.notes.append(f"paths recognised: {sorted(seen)}")
    return out


def calendar_view(ctx):
    """PER buckets: a bucket start is the first instant of the hour / day / week / month / year of the event *in the
    configured timezone*: every calendar component has to be read from the zoned value (local view) and the start has
    to be localised in the same zone"""
    r = oblig.Result("B-5", "CalendarTimeBucketer::bucket_{hour,day,week,month,year}: the date the bucket start is built from is the "
                            "local date of the zoned instant (DateTime::date_naive / naive_local), never its UTC view (naive_utc), "
                            "and the start is placed with and_local_timezone(dt.timezone()) - UTC and local date differ within the "
                            "UTC offset of every day / month / year boundary")
    r.functions = []
    r.bounds = "every path of the five bodies (loop-free); chrono calls opaque, data flow of the returned value"
    out = [r]
    q = ctx.q
    for unit in ("hour", "day", "week", "month", "year"):
        b = Builder(ctx, "datetime-time_bucketing-{impl#0}-bucket_%s." % unit, f"CalendarTimeBucketer::bucket_{unit}", {})
        E = b.E
        if E is None:
            r.status = "inconclusive"
            r.notes.append(b.err)
            return out
        r.functions.append(f"CalendarTimeBucketer::bucket_{unit}")
        if not E.returns:
            r.status = "inconclusive"
            r.notes.append(f"bucket_{unit}: no return")
            return out
        for (_n, reach, env) in E.returns:
            res, _ = q.check(reach, domain=E.domain)
            r.queries += 1
            if res != z3.sat:
                continue
            src = " ".join(E.trace(env.get(0), env, depth=14) | {sym.describe(env.get(0))})
            utc = re.search(r"naive_utc|with_timezone\(&?Utc", src)
            local = re.search(r"date_naive|naive_local", src)
            placed = re.search(r"and_local_timezone", src) and re.search(r"DateTime(::<.*?>)?::timezone", src)
            if utc or not local or not placed:
                r.status = "violated"
                r.witness = {"what": f"bucket_{unit} builds the bucket start from "
                                     + ("the UTC view of the instant (" + utc.group(0) + ")" if utc else
                                        "something other than the local date" if not local else
                                        "a start that is not localised in the instant's own zone")
                                     + ": near a boundary the bucket belongs to the wrong " + unit,
                             "span": "src/shared/datetime/time_bucketing.rs", "call": f"bucket_{unit}", "path": [], "model": {}}
                return out
    r.nontrivial = True
    return out


def obligations(ctx):
    out = []
    out += calendar_view(ctx)
    out += epoch_heuristic(ctx)
    out += json_number_paths(ctx)
    for oid, needle, label, what in SITES:
        ghosts = {"timeparser": ghost(r"TimeParser::parse_str_to_epoch_seconds$")}
        b = Builder(ctx, needle, label, ghosts)
        E, q = b.E, ctx.q
        r = b.mk(oid, f"{label} ({what}): a string time literal is first given to TimeParser::parse_str_to_epoch_seconds "
                      f"(ISO-8601 and the epoch unit heuristic); a raw integer parse of the text is reached only after "
                      f"the shared parser returned None")
        out.append(b.results[oid])
        if not r:
            continue
        raw = [e for e in E.events if re.search(r"str>::parse::<[ui]64>$|str::<impl str>::parse::<[ui]64>$|impl str>::parse::<[ui]64>$", e.func)]
        tp = oblig.events(E, r"TimeParser::parse_str_to_epoch_seconds$")
        if not oblig.need_anchor(r, tp, "TimeParser::parse_str_to_epoch_seconds"):
            continue
        r.nontrivial = True
        if not raw:
            r.notes.append("no raw integer parse of the literal in this function")
            continue
        for ev in raw:
            r.anchors.append(f"{ev.short}@bb{ev.bb}")
            g = ev.env.get("@timeparser")
            # every shared-parser call that precedes must have returned None on this path
            nones = [z3.Implies(t.reach, z3.BitVec(f"disc({t.site})", 64) == 0) for t in tp]
            res, model = q.check(ev.reach, z3.Not(z3.And(g, *nones)), domain=E.domain)
            r.queries += 1
            if res == z3.sat:
                oblig.violated(r, E, q, ev, model, "a raw integer parse of the time literal is reachable before / "
                                                   "instead of the shared TimeParser")
                break
        # the raw parse and the shared parser read the same text
        if r.status == "holds":
            a = sym.describe(raw[0].args[0]) if raw[0].args else ""
            bt = [sym.describe(t.args[0]) for t in tp if t.args]
            if a and bt and not any(a == x or a in x or x in a for x in bt):
                r.notes.append(f"raw parse reads {a}, TimeParser reads {bt}")
    return out
