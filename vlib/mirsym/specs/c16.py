"""C16 (Engine B part) - every reader of a time literal goes through the shared TimeParser
first (so that all spellings of one instant denote the same epoch second on the pruning path
and on the row-condition path)."""
import re

import z3

from .. import oblig, sym
from .flushspec import Builder, ghost

FILTERS = []

SITES = [
    ("B-1", "pruner-temporal_pruner-{impl#0}-apply_temporal_only.", "TemporalPruner::apply_temporal_only",
     "zone pruning of temporal predicates"),
    ("B-2", "filter-condition_evaluator_builder-{impl#0}-add_special_fields.", "ConditionEvaluatorBuilder::add_special_fields",
     "row condition built from SINCE"),
]


def obligations(ctx):
    out = []
    for oid, needle, label, what in SITES:
        ghosts = {"timeparser": ghost(r"TimeParser::parse_str_to_epoch_seconds$")}
        b = Builder(ctx, needle, label, ghosts)
        E, q = b.E, ctx.q
        r = b.mk(oid, f"{label} ({what}): a string time literal is first given to TimeParser::parse_str_to_epoch_seconds "
                      f"(ISO-8601 and the epoch unit heuristic); a raw integer parse of the text is reached only after "
                      f"the shared parser returned None")
        out.append(b.results[oid])
        if not r:
            continue
        raw = [e for e in E.events if re.search(r"str>::parse::<[ui]64>$|str::<impl str>::parse::<[ui]64>$|impl str>::parse::<[ui]64>$", e.func)]
        tp = oblig.events(E, r"TimeParser::parse_str_to_epoch_seconds$")
        if not oblig.need_anchor(r, tp, "TimeParser::parse_str_to_epoch_seconds"):
            continue
        r.nontrivial = True
        if not raw:
            r.notes.append("no raw integer parse of the literal in this function")
            continue
        for ev in raw:
            r.anchors.append(f"{ev.short}@bb{ev.bb}")
            g = ev.env.get("@timeparser")
            # every shared-parser call that precedes must have returned None on this path
            nones = [z3.Implies(t.reach, z3.BitVec(f"disc({t.site})", 64) == 0) for t in tp]
            res, model = q.check(ev.reach, z3.Not(z3.And(g, *nones)), domain=E.domain)
            r.queries += 1
            if res == z3.sat:
                oblig.violated(r, E, q, ev, model, "a raw integer parse of the time literal is reachable before / "
                                                   "instead of the shared TimeParser")
                break
        # the raw parse and the shared parser read the same text
        if r.status == "holds":
            a = sym.describe(raw[0].args[0]) if raw[0].args else ""
            bt = [sym.describe(t.args[0]) for t in tp if t.args]
            if a and bt and not any(a == x or a in x or x in a for x in bt):
                r.notes.append(f"raw parse reads {a}, TimeParser reads {bt}")
    return out
