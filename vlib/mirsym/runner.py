"""Runs the Engine B obligations of one property and turns the results into evidence."""
import json
import os
import re
import time

from . import dump, mir, oblig, specs, sym

REPO = os.environ.get("VERIF_REPO", "/repo")


class Ctx:
    def __init__(self, dump_dir, tier, log):
        self.dump_dir = dump_dir
        self.tier = tier
        self.log = log
        self.q = oblig.Q()
        self.q.slow_log = log
        if tier == "thorough":
            self.q.cross_check = True
            self.q.tmpdir = os.path.join(dump.CACHE, "smt")
            os.makedirs(self.q.tmpdir, exist_ok=True)
        self.k = 2 if tier == "quick" else 3
        self.structs = sym.StructIndex(os.path.join(REPO, "src"))
        self.functions = []
        self.parse_problems = []
        self.stats = []

    def find(self, needle):
        return dump.find_bodies(self.dump_dir, needle)

    def parse(self, needle, self_type=None):
        files = self.find(needle)
        if self_type and len(files) > 1:
            # several impls define a method of this name: pick the one whose receiver is `self_type`
            keep = []
            for f in files:
                head = open(f, errors="replace").read(4000)
                if re.search(r"\(_1: &(?:mut )?(?:[\w:]+::)?%s[,)<]" % re.escape(self_type), head):
                    keep.append(f)
            files = keep
        if len(files) != 1:
            return None, f"expected exactly one MIR body for '{needle}', found {len(files)}"
        fn = mir.parse_file(files[0])
        probs = mir.self_check(fn)
        if probs:
            return None, f"MIR parse problems in {needle}: {probs[:3]}"
        return fn, None

    def load(self, needle, ghosts=None, k=None, self_type=None, watch=None, counters=None):
        fn, err = self.parse(needle, self_type)
        if fn is None:
            return None, err
        t0 = time.time()
        E = sym.Evaluation(fn, self.structs, k=k if k is not None else self.k, ghosts=ghosts or {}, watch=watch, counters=counters)
        self.functions.append(fn.name)
        self.stats.append({"fn": fn.name[-80:], "blocks": len(fn.blocks), "dag_nodes": len(E.order),
                           "calls": len(E.events), "statements": fn.total_statements,
                           "opaque_statements": fn.raw_statements + E.opaque_statements,
                           "back_edges_cut": E.cut_back_edges, "unroll_k": E.k,
                           "encode_s": round(time.time() - t0, 2)})
        return E, None


def run_property(pid, spec_name, tier, log, open_findings, replay_dir):
    t0 = time.time()
    out = {"obligations": 0, "discharged": 0, "queries": 0, "nontrivial": 0, "solver_s": 0.0,
           "functions": [], "samples": [], "violations": [], "inconclusive": [], "known_lines": [],
           "dump": {}}
    spec = specs.load(pid)
    d, info = dump.dump(specs.all_filters(), log)
    out["dump"] = {k: v for k, v in info.items() if k != "error"}
    if d is None:
        log("[mirsym] MIR dump failed:\n" + info.get("error", ""))
        out["inconclusive"].append("MIR dump failed (build error)")
        return out
    log(f"[mirsym] MIR dump ready ({'cached' if info['cached'] else str(info['secs']) + 's'}): {d}")
    ctx = Ctx(d, tier, log)
    results = spec.obligations(ctx)
    for r in results:
        out["obligations"] += 1
        s = r.to_sample(pid)
        log(f"[mirsym] {r.id:6s} {r.status:12s} queries={r.queries:3d} {r.desc[:90]}")
        for n in r.notes:
            log(f"[mirsym]        note: {n}")
        if r.status == "holds":
            out["discharged"] += 1
            if r.nontrivial:
                out["nontrivial"] += 1
        elif r.status == "violated":
            os.makedirs(replay_dir, exist_ok=True)
            path = os.path.join(replay_dir, f"{r.id}.json")
            with open(path, "w") as fh:
                json.dump({"property": pid, "obligation": r.id, "desc": r.desc, "witness": r.witness,
                           "replay": f"./check {pid} --replay {path}"}, fh, indent=1)
            fid = None
            for f in open_findings.values():
                if f.get("obligation") == f"{pid}/{r.id}" or f"{pid}/{r.id}" in f.get("obligations", []):
                    anchor = f.get("anchor_contains", "")
                    blob = json.dumps(r.witness)
                    if not anchor or anchor in blob:
                        fid = f
                        break
            if fid:
                out["known_lines"].append(
                    f"KNOWN-FINDING: property={pid} {fid['id']} {fid['what']} (obligation {r.id}, replay={path})")
                out["discharged"] += 1
                out["nontrivial"] += 1
                s["known_finding"] = fid["id"]
            else:
                out["violations"].append({"what": f"{r.id}: {r.witness.get('what')} at {r.witness.get('span')}",
                                          "path": path})
        else:
            out["inconclusive"].append(f"{r.id}: " + "; ".join(r.notes))
        out["samples"].append(s)
    if ctx.q.cross_check:
        out["samples"].append({"cvc5_cross_check": {"queries": ctx.q.cross_total, "agree": ctx.q.cross_agree,
                                                      "skipped_z3_only_overflow_predicates": getattr(ctx.q, "cross_skipped", 0),
                                                      "disagreements": ctx.q.cross_disagreements[:10]}})
        log(f"[mirsym] cvc5 cross-check: {ctx.q.cross_agree}/{ctx.q.cross_total} verdicts agree")
        if ctx.q.cross_disagreements:
            out["inconclusive"].append(f"z3 and cvc5 disagree on {len(ctx.q.cross_disagreements)} queries: "
                                       + "; ".join(ctx.q.cross_disagreements[:3]))
    # parser self-check over every dumped body (thorough): the MIR reader must consume all of them
    if tier == "thorough":
        bad = 0
        total = 0
        for f in sorted(os.listdir(d)):
            if f.endswith(".mir"):
                total += 1
                if mir.self_check(mir.parse_file(os.path.join(d, f))):
                    bad += 1
        out["samples"].append({"mir_parser_self_check": {"bodies": total, "with_problems": bad}})
        log(f"[mirsym] parser self-check: {total} bodies, {bad} with problems")
        if bad:
            out["inconclusive"].append(f"MIR parser self-check failed on {bad} of {total} bodies")
    out["queries"] = ctx.q.queries
    out["solver_s"] = round(ctx.q.solver_s, 2)
    out["functions"] = sorted(set(ctx.functions))
    out["samples"].append({"encoding_stats": ctx.stats})
    out["wall_s"] = round(time.time() - t0, 1)
    return out


def replay_path(pid, path, log):
    """Re-validate a stored MIR counterexample against a fresh dump: the obligation is re-run and
    must still be violated (exit 1) - otherwise exit 0."""
    data = json.load(open(path))
    res = run_property(pid, None, "quick", log, {}, os.path.dirname(path) + "/.recheck")
    for v in res["violations"]:
        if v["what"].startswith(data["obligation"] + ":"):
            log(f"still violated: {v['what']}")
            return 1
    log("not reproduced on the current tree")
    return 0
