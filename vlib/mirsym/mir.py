"""Tolerant parser for rustc's textual MIR (`-Zdump-mir`, one function body per file).

Parsed: argument / local declarations with types, `debug name => place` lines, basic blocks,
assignment statements (rvalue kept structured where understood, raw text otherwise) and every
terminator kind that occurs before the coroutine transform. Anything not understood is kept as
`('raw', text)` and evaluated to a fresh opaque value by the symbolic evaluator, which is sound
for the feasibility queries asked of it.
"""
import re

INT_BITS = {"u8": 8, "u16": 16, "u32": 32, "u64": 64, "u128": 128, "usize": 64,
            "i8": 8, "i16": 16, "i32": 32, "i64": 64, "i128": 128, "isize": 64, "char": 32}
SIGNED = {"i8", "i16", "i32", "i64", "i128", "isize"}


_CHAR_LIT = re.compile(r"'(?:\\(?:u\{[0-9a-fA-F]+\}|x[0-9a-fA-F]{2}|.)|[^\\'])'")


def char_lit_end(s, i):
    """if a char literal starts at s[i] return the index just past it, else None (lifetimes
    such as `'a` are not char literals)"""
    if s[i] != "'":
        return None
    m = _CHAR_LIT.match(s, i)
    return m.end() if m else None


class Place:
    __slots__ = ("local", "projs")

    def __init__(self, local, projs=()):
        self.local = local
        self.projs = tuple(projs)

    def __repr__(self):
        return f"_{self.local}" + "".join(str(p) for p in self.projs)


def split_top(s, sep=","):
    """split on `sep` at nesting depth 0 of () [] {} <>; string literals are respected"""
    out, depth, cur, i = [], 0, [], 0
    in_str = False
    while i < len(s):
        c = s[i]
        if in_str:
            cur.append(c)
            if c == "\\" and i + 1 < len(s):
                cur.append(s[i + 1])
                i += 1
            elif c == '"':
                in_str = False
        elif c == '"':
            in_str = True
            cur.append(c)
        elif c == "'" and char_lit_end(s, i):
            e = char_lit_end(s, i)
            cur.append(s[i:e])
            i = e
            continue
        elif c in "([{":
            depth += 1
            cur.append(c)
        elif c in ")]}":
            depth -= 1
            cur.append(c)
        elif c == "<" and (i + 1 < len(s)) and s[i + 1] not in "= <":
            # generic bracket only when it looks like one (not `<`/`<=`/`<<` operators)
            depth += 1
            cur.append(c)
        elif c == ">" and depth > 0 and i > 0 and s[i - 1] not in "-=":
            depth -= 1
            cur.append(c)
        elif c == sep and depth == 0:
            out.append("".join(cur).strip())
            cur = []
        else:
            cur.append(c)
        i += 1
    tail = "".join(cur).strip()
    if tail:
        out.append(tail)
    return out


def match_paren(s, i):
    """index of the parenthesis matching s[i] == '('"""
    depth = 0
    in_str = False
    j = i
    while j < len(s):
        c = s[j]
        if in_str:
            if c == "\\":
                j += 1
            elif c == '"':
                in_str = False
        elif c == '"':
            in_str = True
        elif c == "'" and char_lit_end(s, j):
            j = char_lit_end(s, j)
            continue
        elif c == "(":
            depth += 1
        elif c == ")":
            depth -= 1
            if depth == 0:
                return j
        j += 1
    return -1


def parse_place(s):
    """`_5`, `(*_5)`, `(_5.0: T)`, `((*_5).3: T)`, `(_5 as Some)`, `_5[_6]`, `_5[0 of 3]` ..."""
    s = s.strip()
    m = re.match(r"^_(\d+)$", s)
    if m:
        return Place(int(m.group(1)))
    # trailing index projection
    if s.endswith("]"):
        depth = 0
        for j in range(len(s) - 1, -1, -1):
            if s[j] == "]":
                depth += 1
            elif s[j] == "[":
                depth -= 1
                if depth == 0:
                    base = parse_place(s[:j])
                    if base is None:
                        return None
                    return Place(base.local, base.projs + (("index", s[j + 1:-1].strip()),))
        return None
    if s.startswith("(") and match_paren(s, 0) == len(s) - 1:
        inner = s[1:-1].strip()
        if inner.startswith("*"):
            base = parse_place(inner[1:])
            if base is None:
                return None
            return Place(base.local, base.projs + (("deref",),))
        # base is either `_N` or a parenthesised place
        if inner.startswith("("):
            k = match_paren(inner, 0)
            base_s, rest = inner[:k + 1], inner[k + 1:]
        else:
            m = re.match(r"^(_\d+(?:\[[^\]]*\])?)", inner)
            if not m:
                return None
            base_s, rest = m.group(1), inner[m.end():]
        base = parse_place(base_s)
        if base is None:
            return None
        rest = rest.strip()
        m = re.match(r"^\.(\d+):\s*(.*)$", rest, re.S)
        if m:
            return Place(base.local, base.projs + (("field", int(m.group(1)), m.group(2).strip()),))
        m = re.match(r"^as\s+(.*)$", rest, re.S)
        if m:
            return Place(base.local, base.projs + (("downcast", m.group(1).strip()),))
        if rest == "":
            return base
        return None
    return None


def parse_operand(s):
    s = s.strip()
    if s.startswith("copy "):
        p = parse_place(s[5:])
        return ("copy", p) if p is not None else ("raw", s)
    if s.startswith("move "):
        p = parse_place(s[5:])
        return ("move", p) if p is not None else ("raw", s)
    if s.startswith("const "):
        return ("const", s[6:].strip())
    p = parse_place(s)
    if p is not None:
        return ("copy", p)
    return ("raw", s)


BINOPS = {"Eq", "Ne", "Lt", "Le", "Gt", "Ge", "Add", "Sub", "Mul", "Div", "Rem", "BitAnd", "BitOr",
          "BitXor", "Shl", "Shr", "AddWithOverflow", "SubWithOverflow", "MulWithOverflow",
          "AddUnchecked", "SubUnchecked", "MulUnchecked", "ShlUnchecked", "ShrUnchecked", "Offset",
          "Cmp", "CheckedAdd", "CheckedSub", "CheckedMul"}
UNOPS = {"Not", "Neg", "PtrMetadata"}


def parse_rvalue(s):
    s = s.strip()
    m = re.match(r"^(\w+)\((.*)\)$", s, re.S)
    if m and m.group(1) in BINOPS:
        args = split_top(m.group(2))
        if len(args) == 2:
            return ("binop", m.group(1), parse_operand(args[0]), parse_operand(args[1]))
    if m and m.group(1) in UNOPS:
        return ("unop", m.group(1), parse_operand(m.group(2)))
    if m and m.group(1) == "discriminant":
        p = parse_place(m.group(2))
        if p is not None:
            return ("discriminant", p)
    if m and m.group(1) in ("Len", "CopyForDeref"):
        p = parse_place(m.group(2))
        if p is not None:
            return ("use", ("copy", p)) if m.group(1) == "CopyForDeref" else ("len", p)
    m = re.match(r"^&(raw (?:const|mut) |mut |fake shallow |fake )?(.*)$", s, re.S)
    if m and not s.startswith("&&"):
        p = parse_place(m.group(2))
        if p is not None:
            kind = (m.group(1) or "").strip()
            return ("ref", "mut" in kind, p)
    m = re.match(r"^(.*) as ([^()]+?) \((\w+(?:\([^)]*\))?)\)$", s, re.S)
    if m:
        return ("cast", parse_operand(m.group(1)), m.group(2).strip(), m.group(3))
    if s.startswith(("copy ", "move ", "const ")):
        return ("use", parse_operand(s))
    if s.startswith("(") and match_paren(s, 0) == len(s) - 1:
        inner = s[1:-1]
        p = parse_place(s)
        if p is not None and not s.rstrip().endswith(",)"):
            return ("use", ("copy", p))
        return ("aggregate", "tuple", [parse_operand(a) for a in split_top(inner)])
    if s.startswith("[") and s.endswith("]"):
        inner = s[1:-1]
        if ";" in inner and len(split_top(inner, ";")) == 2:
            return ("raw", s)
        return ("aggregate", "array", [parse_operand(a) for a in split_top(inner)])
    # enum variant / struct constructor:  Path::Variant(ops)  |  Path { f: op, .. }
    if s.endswith(")") and not s.startswith(("const ", "copy ", "move ")):
        for idx in [i for i, c in enumerate(s) if c == "("]:
            if match_paren(s, idx) == len(s) - 1 and re.search(r"::\w+$", s[:idx].strip()):
                return ("aggregate", s[:idx].strip(), [parse_operand(a) for a in split_top(s[idx + 1:-1])])
    mc = re.match(r"^(\{(?:closure|async block|async closure|coroutine)@[^{}]*\})\s*\{(.*)\}$", s, re.S)
    if mc:
        fields = []
        ok = True
        for part in split_top(mc.group(2)):
            mm = re.match(r"^(\w+):\s*(.*)$", part, re.S)
            if not mm:
                ok = False
                break
            fields.append((mm.group(1), parse_operand(mm.group(2))))
        if ok:
            return ("aggregate_named", mc.group(1), fields)
    m = re.match(r"^(.+?)\s*\{(.*)\}$", s, re.S)
    if m and not s.startswith("{"):
        fields = []
        ok = True
        for part in split_top(m.group(2)):
            mm = re.match(r"^(\w+):\s*(.*)$", part, re.S)
            if not mm:
                ok = False
                break
            fields.append((mm.group(1), parse_operand(mm.group(2))))
        if ok:
            return ("aggregate_named", m.group(1).strip(), fields)
    p = parse_place(s)
    if p is not None:
        return ("use", ("copy", p))
    # unit enum variant / unit struct: a bare path such as `Option::<T>::None`
    if re.match(r"^[A-Za-z_][\w:<>,&' \[\]\(\)\{\}@/\.\-#\*;]*::[A-Z]\w*$", s) and not s.startswith(("const ", "copy ", "move ")):
        return ("aggregate", s, [])
    return ("raw", s)


class Block:
    def __init__(self, idx, cleanup):
        self.idx = idx
        self.cleanup = cleanup
        self.stmts = []  # (kind, ...)
        self.term = None  # dict
        self.term_span = None


class Function:
    def __init__(self):
        self.name = ""
        self.header = ""
        self.file = ""
        self.args = []  # local indexes
        self.types = {}  # local -> type string
        self.debug = {}  # source variable name -> [place text]
        self.blocks = {}
        self.raw_statements = 0
        self.total_statements = 0

    def successors(self, b):
        t = self.blocks[b].term
        return [x for (_, x) in t.get("targets", [])]


TARGET_RE = re.compile(r"(\w+|-?\d+(?:_\w+)?|otherwise):\s*bb(\d+)")


def strip_comment(line):
    # comments start with `//` outside string literals
    in_str = False
    i = 0
    while i < len(line) - 1:
        c = line[i]
        if in_str:
            if c == "\\":
                i += 1
            elif c == '"':
                in_str = False
        elif c == '"':
            in_str = True
        elif c == "'" and char_lit_end(line, i):
            i = char_lit_end(line, i)
            continue
        elif c == "/" and line[i + 1] == "/":
            return line[:i].rstrip(), line[i + 2:].strip()
        i += 1
    return line.rstrip(), ""


def parse_terminator(text):
    t = {"kind": "raw", "text": text, "targets": []}
    s = text.strip().rstrip(";")
    if s == "return":
        return {"kind": "return", "targets": [], "text": text}
    if s in ("resume", "unreachable", "coroutine_drop", "abort") or s.startswith("unwind"):
        return {"kind": s.split()[0], "targets": [], "text": text}
    m = re.match(r"^goto -> bb(\d+)$", s)
    if m:
        return {"kind": "goto", "targets": [("goto", int(m.group(1)))], "text": text}
    m = re.match(r"^switchInt\((.*)\) -> \[(.*)\]$", s, re.S)
    if m:
        targets = []
        for part in split_top(m.group(2)):
            mm = re.match(r"^(otherwise|-?\d+(?:_\w+)?):\s*bb(\d+)$", part.strip())
            if mm:
                targets.append((mm.group(1), int(mm.group(2))))
        return {"kind": "switch", "discr": parse_operand(m.group(1)), "targets": targets, "text": text}
    m = re.match(r"^drop\((.*)\) -> \[return: bb(\d+)(?:, unwind[: ]*(.*))?\]$", s, re.S)
    if m:
        return {"kind": "drop", "place": parse_place(m.group(1)), "targets": [("return", int(m.group(2)))],
                "text": text}
    m = re.match(r"^assert\((.*)\) -> \[success: bb(\d+)(?:, unwind[: ]*(.*))?\]$", s, re.S)
    if m:
        args = split_top(m.group(1))
        cond = args[0].strip()
        expected = True
        if cond.startswith("!"):
            expected = False
            cond = cond[1:]
        return {"kind": "assert", "cond": parse_operand(cond), "expected": expected,
                "msg": args[1] if len(args) > 1 else "", "targets": [("success", int(m.group(2)))],
                "text": text}
    m = re.match(r"^(.+?) = yield\((.*)\) -> \[resume: bb(\d+), drop: (?:bb)?(\w+)\]$", s, re.S)
    if m:
        return {"kind": "yield", "dest": parse_place(m.group(1)), "targets": [("resume", int(m.group(3)))],
                "text": text}
    # call:  DEST = FUNC(ARGS) -> [return: bbN, unwind ...]   |   DEST = FUNC(ARGS) -> unwind ...
    m = re.match(r"^(.+?) = (.+)\) -> (.*)$", s, re.S)
    if m:
        dest = parse_place(m.group(1))
        callpart = m.group(2)
        # find the '(' that opens the argument list: the one still open at the end of `callpart`
        # (forward scan; string literals with escapes are skipped)
        open_idx = -1
        stack = []
        in_str = False
        j = 0
        while j < len(callpart):
            c = callpart[j]
            if in_str:
                if c == "\\":
                    j += 1
                elif c == '"':
                    in_str = False
            elif c == '"':
                in_str = True
            elif c == "'" and char_lit_end(callpart, j):
                j = char_lit_end(callpart, j)
                continue
            elif c == "(":
                stack.append(j)
            elif c == ")":
                if stack:
                    stack.pop()
            j += 1
        if stack:
            open_idx = stack[0]
        if dest is not None and open_idx >= 0:
            func = callpart[:open_idx].strip()
            args = [parse_operand(a) for a in split_top(callpart[open_idx + 1:])]
            tail = m.group(3)
            targets = []
            mm = re.search(r"return: bb(\d+)", tail)
            if mm:
                targets.append(("return", int(mm.group(1))))
            return {"kind": "call", "dest": dest, "func": func, "args": args, "targets": targets,
                    "text": text}
    return t


def parse_file(path):
    fn = Function()
    fn.file = path
    lines = open(path, errors="replace").read().splitlines()
    cur = None
    pending = ""
    header_acc = ""
    for raw in lines:
        line, comment = strip_comment(raw)
        if not line.strip():
            continue
        st = line.strip()
        if cur is None:
            if not fn.header and (st.startswith("fn ") or header_acc):
                # the header may span several lines (`yields ()` of coroutines, `{` on its own)
                header_acc = (header_acc + " " + st).strip()
                if not header_acc.endswith("{"):
                    continue
                st = re.sub(r"\s+yields\s+.*?\{$", " {", header_acc)
                st = re.sub(r"\s+\{$", " {", st)
                header_acc = ""
            m = re.match(r"^fn (.*?)\((.*)\) -> (.*) \{$", st)
            if m and not fn.header:
                fn.header = st
                fn.name = m.group(1)
                for a in split_top(m.group(2)):
                    mm = re.match(r"^(?:mut )?_(\d+): (.*)$", a.strip(), re.S)
                    if mm:
                        fn.args.append(int(mm.group(1)))
                        fn.types[int(mm.group(1))] = mm.group(2).strip()
                fn.types[0] = m.group(3).strip()
                continue
            m = re.match(r"^let (?:mut )?_(\d+): (.*);$", st)
            if m:
                fn.types[int(m.group(1))] = m.group(2).strip()
                continue
            m = re.match(r"^debug (\S+) => (.*);$", st)
            if m:
                fn.debug.setdefault(m.group(1), []).append(m.group(2).strip())
                continue
        m = re.match(r"^bb(\d+)(?: \(cleanup\))?: \{$", st)
        if m:
            cur = Block(int(m.group(1)), "(cleanup)" in st)
            fn.blocks[cur.idx] = cur
            pending = ""
            continue
        if cur is None:
            continue
        if st == "}":
            cur = None
            continue
        pending = (pending + " " + st).strip() if pending else st
        if not pending.endswith(";"):
            continue  # statement continues on the next line
        text = pending
        pending = ""
        span = None
        mm = re.search(r"at (\S+?):(\d+):(\d+)", comment)
        if mm:
            span = (mm.group(1), int(mm.group(2)))
        # terminator?
        is_term = bool(re.match(r"^(goto|switchInt|return|resume|unreachable|drop\(|assert\(|coroutine_drop|unwind)", text)
                       or " -> [" in text or re.search(r"\) -> (unwind|bb\d+;)", text) or "= yield(" in text)
        if is_term:
            cur.term = parse_terminator(text)
            cur.term_span = span
            continue
        fn.total_statements += 1
        m = re.match(r"^(StorageLive|StorageDead|FakeRead|PlaceMention|AscribeUserType|Retag|Coverage|ConstEvalCounter|nop|Deinit|BackwardIncompatibleDropHint)\b", text)
        if m:
            continue
        m = re.match(r"^discriminant\((.*)\) = (\d+);$", text)
        if m:
            p = parse_place(m.group(1))
            cur.stmts.append(("setdiscr", p, int(m.group(2)), span))
            continue
        m = re.match(r"^assume\((.*)\);$", text)
        if m:
            cur.stmts.append(("assume", parse_operand(m.group(1)), span))
            continue
        m = re.match(r"^(.+?) = (.*);$", text, re.S)
        if m:
            dest = parse_place(m.group(1))
            if dest is not None:
                rv = parse_rvalue(m.group(2))
                if rv[0] == "raw":
                    fn.raw_statements += 1
                cur.stmts.append(("assign", dest, rv, span))
                continue
        fn.raw_statements += 1
        cur.stmts.append(("raw", text, span))
    return fn


def self_check(fn):
    """round-trip sanity: every block has a terminator, every target exists"""
    problems = []
    for b in fn.blocks.values():
        if b.term is None:
            problems.append(f"bb{b.idx}: no terminator")
            continue
        if b.term["kind"] == "raw":
            problems.append(f"bb{b.idx}: unparsed terminator {b.term['text'][:80]}")
        for _, t in b.term.get("targets", []):
            if t not in fn.blocks:
                problems.append(f"bb{b.idx}: target bb{t} missing")
    return problems
