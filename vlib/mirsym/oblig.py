"""Obligations over a symbolic evaluation: each is decided by z3 on the negated claim.

  guarded(T, phi)     no feasible path reaches call T with (not phi) at that point
  precedes(P, T)      no feasible path reaches T without having executed a call matching P
  arg_is(T, i, e)     argument i of T equals expression e on every feasible path
  never(T)            no feasible path reaches T (optionally under an extra condition)
unsat = holds within the unrolling bound; sat = a concrete MIR path (blocks, source lines, model).
Every anchor must itself be reachable (vacuity guard); an anchor that cannot be found makes the
obligation inconclusive, never a pass and never a violation.
"""
import os
import re
import time

import z3


class Q:
    """query context shared by the obligations of one run"""

    def __init__(self):
        self.queries = 0
        self.solver_s = 0.0
        self.solver = z3.Solver()
        self.solver.set("timeout", 120000)
        self.cross_check = False
        self.cross_total = 0
        self.cross_agree = 0
        self.cross_disagreements = []
        self.tmpdir = None
        self.slow_log = None

    def check(self, *conds, domain=None):
        self.queries += 1
        t0 = time.time()
        # one-shot solver per query: z3's incremental core (push/pop) was up to 1000x slower on the
        # ite-heavy terms of deeper unrollings than the default tactic pipeline
        self.solver = z3.Solver()
        self.solver.set("timeout", 120000)
        for c in conds:
            self.solver.add(c)
        for c in (domain or {}).values():
            self.solver.add(c)
        r = self.solver.check()
        model = self.solver.model() if r == z3.sat else None
        if self.cross_check and r in (z3.sat, z3.unsat):
            self._cross(r)
        dt = time.time() - t0
        self.solver_s += dt
        if dt > 10 and self.slow_log is not None:
            import traceback
            fr = [f for f in traceback.extract_stack()[:-1] if "/specs/" in f.filename or f.filename.endswith("oblig.py")]
            self.slow_log(f"[mirsym] slow query {dt:.0f}s -> {r} at " + " < ".join(f"{os.path.basename(f.filename)}:{f.lineno}" for f in fr[-3:]))
        return r, model

    def _cross(self, r):
        """thorough tier: the same query is decided by cvc5 (independent SMT solver); a
        disagreement or an `(error` line makes the run inconclusive"""
        import subprocess
        import tempfile
        txt = self.solver.to_smt2()
        # z3 prints total division as bvudiv_i / bvurem_i (same function as SMT-LIB's bvudiv / bvurem)
        for a, b in (("bvudiv_i", "bvudiv"), ("bvurem_i", "bvurem"), ("bvsdiv_i", "bvsdiv"), ("bvsrem_i", "bvsrem"), ("bvsmod_i", "bvsmod")):
            txt = txt.replace(a, b)
        if re.search(r"bv[us]mul_no(ovfl|udfl)|bv[us]add_no|bv[us]sub_no", txt):
            self.cross_skipped = getattr(self, "cross_skipped", 0) + 1     # z3-only overflow predicates: not expressible for cvc5 1.0
            return
        with tempfile.NamedTemporaryFile("w", suffix=".smt2", delete=False, dir=self.tmpdir) as fh:
            fh.write("(set-logic ALL)\n" + txt)
            path = fh.name
        try:
            p = subprocess.run(["cvc5", "--lang", "smt2", "--tlimit=60000", path], stdout=subprocess.PIPE,
                               stderr=subprocess.STDOUT, text=True, timeout=90)
            out = p.stdout.strip().splitlines()
            verdict = out[0].strip() if out else ""
        except Exception as e:  # noqa: BLE001
            verdict = f"error: {e}"
        finally:
            try:
                import os
                os.remove(path)
            except OSError:
                pass
        self.cross_total += 1
        if verdict == str(r):
            self.cross_agree += 1
        else:
            self.cross_disagreements.append(f"z3={r} cvc5={verdict[:80]}")


def events(E, pattern, argpat=None):
    rx = re.compile(pattern)
    out = []
    for ev in E.events:
        if rx.search(ev.func):
            out.append(ev)
    return out


class Result:
    def __init__(self, oid, desc):
        self.id = oid
        self.desc = desc
        self.status = "holds"  # holds | violated | inconclusive
        self.notes = []
        self.anchors = []
        self.queries = 0
        self.witness = None
        self.nontrivial = False
        self.functions = []
        self.bounds = ""

    def to_sample(self, pid):
        return {"obligation": f"{pid}/{self.id}", "engine": "mirsym", "desc": self.desc,
                "functions": ", ".join(self.functions), "bounds": self.bounds,
                "outcome": self.status, "anchors": self.anchors, "z3_queries": self.queries,
                "notes": self.notes, "witness": self.witness}


def model_summary(E, model, limit=40):
    vals = {}
    for d in model.decls()[:400]:
        n = d.name()
        if n.startswith(("switch@", "phi@", "uninit")):
            continue
        vals[n] = str(model[d])
        if len(vals) >= limit:
            break
    return vals


def violated(res, E, q, ev, model, what):
    res.status = "violated"
    res.witness = {"what": what, "at": f"bb{ev.bb} layer {ev.layer}", "call": ev.func[:160],
                   "span": f"{ev.span[0]}:{ev.span[1]}" if ev.span else None,
                   "path": E.path_of_model(model), "model": model_summary(E, model)}


def divrem_lemma(conds):
    """Replace every unsigned division / remainder by a constant c > 0 in `conds` by fresh
    quotient / remainder symbols constrained by a = q*c + r, r < c (computed without wrap-around
    in 2x width). q and r are uniquely determined, so the rewritten query is equisatisfiable;
    bit-blasting the product with a constant is far cheaper than the divider circuit."""
    cache, extra = {}, []

    def pair(a, c):
        key = (a.get_id(), c.as_long())
        if key not in cache:
            n = a.size()
            k = len(cache)
            qv, rv = z3.BitVec(f"divq!{k}", n), z3.BitVec(f"divr!{k}", n)
            wide = lambda t: z3.ZeroExt(n, t)
            extra.append(wide(a) == wide(qv) * wide(c) + wide(rv))
            extra.append(z3.ULT(rv, c))
            cache[key] = (qv, rv, a)
        return cache[key][:2]

    memo = {}

    def walk(t):
        tid = t.get_id()
        if tid in memo:
            return memo[tid][1]
        kids = [walk(ch) for ch in t.children()]
        out = t
        if z3.is_app(t) and kids:
            kind = t.decl().kind()
            if kind in (z3.Z3_OP_BUDIV, z3.Z3_OP_BUDIV_I, z3.Z3_OP_BUREM, z3.Z3_OP_BUREM_I) and \
                    z3.is_bv_value(kids[1]) and kids[1].as_long() > 0:
                qv, rv = pair(kids[0], kids[1])
                out = qv if kind in (z3.Z3_OP_BUDIV, z3.Z3_OP_BUDIV_I) else rv
            elif any(k.get_id() != c.get_id() for k, c in zip(kids, t.children())):
                out = t.decl()(*kids)
        memo[tid] = (t, out)
        return out

    new = [walk(c) for c in conds]
    return new + extra


def need_anchor(res, evs, what):
    if not evs:
        res.status = "inconclusive"
        res.notes.append(f"anchor not found: {what}")
        return False
    return True


def reachable_anchor(res, q, ev, E=None):
    r, _ = q.check(ev.reach, domain=E.domain if E else None)
    res.queries += 1
    if r == z3.sat:
        res.nontrivial = True
        return True
    if r == z3.unsat:
        res.notes.append(f"anchor at bb{ev.bb} is unreachable in the encoding")
        return False
    res.status = "inconclusive"
    res.notes.append("solver returned unknown on an anchor reachability query")
    return False


def guarded(res, E, q, evs, phi, what):
    """phi(ev) -> z3 Bool (or None when a needed symbol is missing)"""
    any_reach = False
    for ev in evs:
        res.anchors.append(f"{ev.short}@bb{ev.bb}.{ev.layer}")
        if not reachable_anchor(res, q, ev, E):
            continue
        any_reach = True
        p = phi(ev)
        if p is None:
            res.status = "inconclusive"
            res.notes.append(f"guard symbols not found at bb{ev.bb}")
            continue
        r, model = q.check(ev.reach, z3.Not(p), domain=E.domain)
        res.queries += 1
        if r == z3.sat:
            violated(res, E, q, ev, model, what)
            return
        if r != z3.unsat:
            res.status = "inconclusive"
            res.notes.append("solver returned unknown")
    if not any_reach and res.status == "holds":
        res.status = "inconclusive"
        res.notes.append("no reachable anchor (vacuous)")


def precedes(res, E, q, evs, ghost, what):
    def phi(ev):
        return ev.env.get("@" + ghost)
    guarded(res, E, q, evs, phi, what)


def never(res, E, q, evs, cond, what):
    """no feasible path reaches any of evs while cond(ev) holds"""
    for ev in evs:
        res.anchors.append(f"{ev.short}@bb{ev.bb}.{ev.layer}")
        c = cond(ev) if cond else z3.BoolVal(True)
        if c is None:
            res.status = "inconclusive"
            res.notes.append(f"condition symbols not found at bb{ev.bb}")
            continue
        r, model = q.check(ev.reach, c, domain=E.domain)
        res.queries += 1
        if r == z3.sat:
            violated(res, E, q, ev, model, what)
            return
        if r != z3.unsat:
            res.status = "inconclusive"
    res.nontrivial = res.nontrivial or bool(evs)


class IntEncodingError(Exception):
    pass


class IntEnc:
    """Integer encoding of bit-vector terms that keeps the mod-2^k semantics: every bit-vector
    term becomes a mathematical integer in [0, 2^k) (variables with range constraints, `+ - *const`
    followed by mod 2^k, division / remainder / shifts by constants as div / mod, signed operators
    through the two's-complement value). Multiplication, division and remainder by constants are
    linear, so queries that stall a bit-blaster are decided by arithmetic. Symbolic * symbolic,
    division by a non-constant and bitwise operators other than masks are rejected
    (IntEncodingError), never approximated."""

    def __init__(self):
        self.memo = {}
        self.ranges = []
        self.vars = {}

    @staticmethod
    def signed_of(u, n):
        return z3.If(u >= z3.IntVal(1 << (n - 1)), u - z3.IntVal(1 << n), u)

    def signed(self, t):
        """two's-complement value of a bit-vector term. Signed operators are translated directly on
        signed values (a `mod` appears only where the machine operation can really wrap), which keeps
        queries over i128 arithmetic linear and small; anything else goes through the unsigned value."""
        key = ("s", t.get_id())
        if key in self.memo:
            return self.memo[key][1]
        I = z3.IntVal
        n = t.size()
        M, H = I(1 << n), I(1 << (n - 1))
        wrap = lambda v, bits=n: ((v + I(1 << (bits - 1))) % I(1 << bits)) - I(1 << (bits - 1))
        k = t.decl().kind() if z3.is_app(t) else None
        ch = t.children()
        out = None
        if z3.is_bv_value(t):
            v = t.as_long()
            out = I(v - (1 << n) if v >= (1 << (n - 1)) else v)
        elif z3.is_const(t) and k == z3.Z3_OP_UNINTERPRETED:
            u = self.tr(t)
            out = z3.Int("sint!" + str(t))
            self.ranges.append(z3.And(out >= -H, out < H, u == z3.If(out < 0, out + M, out)))
        elif k == z3.Z3_OP_ITE:
            out = z3.If(self.tr(ch[0]), self.signed(ch[1]), self.signed(ch[2]))
        elif k in (z3.Z3_OP_BSDIV, z3.Z3_OP_BSDIV_I, z3.Z3_OP_BSREM, z3.Z3_OP_BSREM_I) and z3.is_bv_value(ch[1]) \
                and 0 < ch[1].as_long() < (1 << (n - 1)):
            c = I(ch[1].as_long())
            sa = self.signed(ch[0])
            q = z3.If(sa >= 0, sa / c, -((-sa) / c))          # truncation toward zero; no overflow for c > 0
            out = q if k in (z3.Z3_OP_BSDIV, z3.Z3_OP_BSDIV_I) else sa - c * q
        elif k == z3.Z3_OP_BNEG:
            sa = self.signed(ch[0])
            out = z3.If(sa == -H, -H, -sa)
        elif k == z3.Z3_OP_BADD:
            out = wrap(z3.Sum([self.signed(c) for c in ch]))
        elif k == z3.Z3_OP_BSUB:
            out = wrap(self.signed(ch[0]) - self.signed(ch[1]))
        elif k == z3.Z3_OP_SIGN_EXT:
            out = self.signed(ch[0])
        elif k == z3.Z3_OP_ZERO_EXT and t.params()[0] > 0:
            out = self.tr(ch[0])
        elif k == z3.Z3_OP_EXTRACT and t.params()[1] == 0:
            out = wrap(self.signed(ch[0]), n)
        else:
            out = self.signed_of(self.tr(t), n)
        self.memo[key] = (t, out)
        return out

    def tr(self, t):
        tid = t.get_id()
        if tid in self.memo:
            return self.memo[tid][1]
        I = z3.IntVal
        k = t.decl().kind() if z3.is_app(t) else None
        ch = t.children()
        tr = self.tr
        out = None
        if z3.is_bv(t):
            n = t.size()
            M = I(1 << n)

            def sconst(c):
                v = c.as_long()
                return v - (1 << n) if v >= (1 << (n - 1)) else v
            if z3.is_bv_value(t):
                out = I(t.as_long())
            elif z3.is_const(t) and k == z3.Z3_OP_UNINTERPRETED:
                out = z3.Int("int!" + str(t))
                self.vars[str(t)] = (out, n)
                self.ranges.append(z3.And(out >= 0, out < M))
            elif k == z3.Z3_OP_BADD:
                out = z3.Sum([tr(c) for c in ch]) % M
            elif k == z3.Z3_OP_BSUB:
                out = (tr(ch[0]) - tr(ch[1])) % M
            elif k == z3.Z3_OP_BNEG:
                out = (-tr(ch[0])) % M
            elif k == z3.Z3_OP_BNOT:
                out = M - 1 - tr(ch[0])
            elif k == z3.Z3_OP_BMUL:
                consts = [c for c in ch if z3.is_bv_value(c)]
                others = [c for c in ch if not z3.is_bv_value(c)]
                if len(others) > 1:
                    raise IntEncodingError("symbolic * symbolic")
                prod = 1
                for c in consts:
                    prod *= c.as_long()
                out = (I(prod) * tr(others[0])) % M if others else I(prod % (1 << n))
            elif k in (z3.Z3_OP_BUDIV, z3.Z3_OP_BUDIV_I, z3.Z3_OP_BUREM, z3.Z3_OP_BUREM_I):
                if not z3.is_bv_value(ch[1]) or ch[1].as_long() == 0:
                    raise IntEncodingError("division by a non-constant")
                c = I(ch[1].as_long())
                out = tr(ch[0]) / c if k in (z3.Z3_OP_BUDIV, z3.Z3_OP_BUDIV_I) else tr(ch[0]) % c
            elif k in (z3.Z3_OP_BSDIV, z3.Z3_OP_BSDIV_I, z3.Z3_OP_BSREM, z3.Z3_OP_BSREM_I):
                if not z3.is_bv_value(ch[1]) or ch[1].as_long() == 0:
                    raise IntEncodingError("division by a non-constant")
                c = sconst(ch[1])
                if c > 0:
                    out = self.signed(t) % M
                else:
                    sa = self.signed(ch[0])
                    ac = I(abs(c))
                    q = -z3.If(sa >= 0, sa / ac, -((-sa) / ac))
                    out = (q % M) if k in (z3.Z3_OP_BSDIV, z3.Z3_OP_BSDIV_I) else ((sa - I(c) * q) % M)
            elif k == z3.Z3_OP_ZERO_EXT:
                out = tr(ch[0])
            elif k == z3.Z3_OP_SIGN_EXT:
                out = self.signed(ch[0]) % M
            elif k == z3.Z3_OP_CONCAT:
                acc = I(0)
                for c in ch:
                    acc = acc * I(1 << c.size()) + tr(c)
                out = acc
            elif k == z3.Z3_OP_EXTRACT:
                hi, lo = t.params()
                out = (tr(ch[0]) / I(1 << lo)) % I(1 << (hi - lo + 1))
            elif k == z3.Z3_OP_ITE:
                out = z3.If(tr(ch[0]), tr(ch[1]), tr(ch[2]))
            elif k == z3.Z3_OP_BSHL and z3.is_bv_value(ch[1]):
                out = (tr(ch[0]) * I(1 << min(ch[1].as_long(), n))) % M
            elif k == z3.Z3_OP_BLSHR and z3.is_bv_value(ch[1]):
                out = tr(ch[0]) / I(1 << min(ch[1].as_long(), n))
            elif k == z3.Z3_OP_BASHR and z3.is_bv_value(ch[1]):
                out = (self.signed(ch[0]) / I(1 << min(ch[1].as_long(), n))) % M
            elif k == z3.Z3_OP_BAND and len(ch) == 2 and any(z3.is_bv_value(c) and (c.as_long() & (c.as_long() + 1)) == 0 for c in ch):
                mask = [c for c in ch if z3.is_bv_value(c) and (c.as_long() & (c.as_long() + 1)) == 0][0]
                other = ch[1] if mask is ch[0] else ch[0]
                out = tr(other) % I(mask.as_long() + 1)
            else:
                raise IntEncodingError(f"bit-vector operator {t.decl().name()}")
        elif z3.is_bool(t):
            if z3.is_true(t) or z3.is_false(t):
                out = t
            elif z3.is_const(t) and k == z3.Z3_OP_UNINTERPRETED:
                out = t
            elif k in (z3.Z3_OP_AND, z3.Z3_OP_OR, z3.Z3_OP_NOT, z3.Z3_OP_IMPLIES, z3.Z3_OP_XOR):
                out = t.decl()(*[tr(c) for c in ch])
            elif k == z3.Z3_OP_ITE:
                out = z3.If(tr(ch[0]), tr(ch[1]), tr(ch[2]))
            elif k in (z3.Z3_OP_EQ, z3.Z3_OP_DISTINCT):
                a, b = tr(ch[0]), tr(ch[1])
                out = (a == b) if k == z3.Z3_OP_EQ else (a != b)
            elif k in (z3.Z3_OP_ULT, z3.Z3_OP_ULEQ, z3.Z3_OP_UGT, z3.Z3_OP_UGEQ):
                a, b = tr(ch[0]), tr(ch[1])
                out = {z3.Z3_OP_ULT: a < b, z3.Z3_OP_ULEQ: a <= b, z3.Z3_OP_UGT: a > b, z3.Z3_OP_UGEQ: a >= b}[k]
            elif k == z3.Z3_OP_BUMUL_NO_OVFL and any(z3.is_bv_value(c) for c in ch):
                const = [c for c in ch if z3.is_bv_value(c)][0]
                other = ch[1] if const is ch[0] else ch[0]
                out = I(const.as_long()) * tr(other) < I(1 << other.size())
            elif k in (z3.Z3_OP_SLT, z3.Z3_OP_SLEQ, z3.Z3_OP_SGT, z3.Z3_OP_SGEQ):
                a, b = self.signed(ch[0]), self.signed(ch[1])
                out = {z3.Z3_OP_SLT: a < b, z3.Z3_OP_SLEQ: a <= b, z3.Z3_OP_SGT: a > b, z3.Z3_OP_SGEQ: a >= b}[k]
            else:
                raise IntEncodingError(f"boolean operator {t.decl().name()}")
        else:
            raise IntEncodingError(f"sort {t.sort()}")
        self.memo[tid] = (t, out)      # keeps t alive: ids of freed terms are reused
        return out


def bv_to_int(conds):
    enc = IntEnc()
    out = [enc.tr(z3.simplify(c)) for c in conds]
    return out + enc.ranges


def int_check(q, *conds, timeout_ms=120000):
    """decide an unsigned bit-vector query through its integer encoding; the model is mapped
    back to the bit-vector variables (as a dict name -> int)"""
    t0 = time.time()
    enc = bv_to_int(list(conds))
    s = z3.Solver()
    s.set("timeout", timeout_ms)
    s.add(*enc)
    r = s.check()
    q.queries += 1
    q.solver_s += time.time() - t0
    model = None
    if r == z3.sat:
        m = s.model()
        model = {str(d)[4:]: m[d].as_long() for d in m.decls() if str(d).startswith("int!")}
    return r, model


def eval_bv(term, values):
    """value of a bit-vector term under {variable name: int} (missing variables are 0)"""
    seen, subs, work = {}, [], [term]
    while work:
        x = work.pop()
        if x.get_id() in seen:
            continue
        seen[x.get_id()] = x
        if z3.is_const(x) and x.decl().kind() == z3.Z3_OP_UNINTERPRETED and z3.is_bv(x):
            subs.append((x, z3.BitVecVal(values.get(str(x), 0), x.size())))
        work.extend(x.children())
    v = z3.simplify(z3.substitute(term, *subs)) if subs else z3.simplify(term)
    return v.as_long() if z3.is_bv_value(v) else None


def free_symbols(t):
    """names of the uninterpreted constants of a z3 term (DAG walk)"""
    seen, out, work = set(), set(), [t]
    while work:
        x = work.pop()
        if x.get_id() in seen:
            continue
        seen.add(x.get_id())
        if z3.is_const(x) and x.decl().kind() == z3.Z3_OP_UNINTERPRETED:
            out.add(str(x))
        work.extend(x.children())
    return out
