"""Obligations over a symbolic evaluation: each is decided by z3 on the negated claim.

  guarded(T, phi)     no feasible path reaches call T with (not phi) at that point
  precedes(P, T)      no feasible path reaches T without having executed a call matching P
  arg_is(T, i, e)     argument i of T equals expression e on every feasible path
  never(T)            no feasible path reaches T (optionally under an extra condition)
unsat = holds within the unrolling bound; sat = a concrete MIR path (blocks, source lines, model).
Every anchor must itself be reachable (vacuity guard); an anchor that cannot be found makes the
obligation inconclusive, never a pass and never a violation.
"""
import re
import time

import z3


class Q:
    """query context shared by the obligations of one run"""

    def __init__(self):
        self.queries = 0
        self.solver_s = 0.0
        self.solver = z3.Solver()
        self.solver.set("timeout", 120000)
        self.cross_check = False
        self.cross_total = 0
        self.cross_agree = 0
        self.cross_disagreements = []
        self.tmpdir = None

    def check(self, *conds, domain=None):
        self.queries += 1
        t0 = time.time()
        self.solver.push()
        for c in conds:
            self.solver.add(c)
        for c in (domain or {}).values():
            self.solver.add(c)
        r = self.solver.check()
        model = self.solver.model() if r == z3.sat else None
        if self.cross_check and r in (z3.sat, z3.unsat):
            self._cross(r)
        self.solver.pop()
        self.solver_s += time.time() - t0
        return r, model

    def _cross(self, r):
        """thorough tier: the same query is decided by cvc5 (independent SMT solver); a
        disagreement or an `(error` line makes the run inconclusive"""
        import subprocess
        import tempfile
        txt = self.solver.to_smt2()
        with tempfile.NamedTemporaryFile("w", suffix=".smt2", delete=False, dir=self.tmpdir) as fh:
            fh.write("(set-logic ALL)\n" + txt)
            path = fh.name
        try:
            p = subprocess.run(["cvc5", "--lang", "smt2", "--tlimit=60000", path], stdout=subprocess.PIPE,
                               stderr=subprocess.STDOUT, text=True, timeout=90)
            out = p.stdout.strip().splitlines()
            verdict = out[0].strip() if out else ""
        except Exception as e:  # noqa: BLE001
            verdict = f"error: {e}"
        finally:
            try:
                import os
                os.remove(path)
            except OSError:
                pass
        self.cross_total += 1
        if verdict == str(r):
            self.cross_agree += 1
        else:
            self.cross_disagreements.append(f"z3={r} cvc5={verdict[:80]}")


def events(E, pattern, argpat=None):
    rx = re.compile(pattern)
    out = []
    for ev in E.events:
        if rx.search(ev.func):
            out.append(ev)
    return out


class Result:
    def __init__(self, oid, desc):
        self.id = oid
        self.desc = desc
        self.status = "holds"  # holds | violated | inconclusive
        self.notes = []
        self.anchors = []
        self.queries = 0
        self.witness = None
        self.nontrivial = False
        self.functions = []
        self.bounds = ""

    def to_sample(self, pid):
        return {"obligation": f"{pid}/{self.id}", "engine": "mirsym", "desc": self.desc,
                "functions": ", ".join(self.functions), "bounds": self.bounds,
                "outcome": self.status, "anchors": self.anchors, "z3_queries": self.queries,
                "notes": self.notes, "witness": self.witness}


def model_summary(E, model, limit=40):
    vals = {}
    for d in model.decls()[:400]:
        n = d.name()
        if n.startswith(("switch@", "phi@", "uninit")):
            continue
        vals[n] = str(model[d])
        if len(vals) >= limit:
            break
    return vals


def violated(res, E, q, ev, model, what):
    res.status = "violated"
    res.witness = {"what": what, "at": f"bb{ev.bb} layer {ev.layer}", "call": ev.func[:160],
                   "span": f"{ev.span[0]}:{ev.span[1]}" if ev.span else None,
                   "path": E.path_of_model(model), "model": model_summary(E, model)}


def need_anchor(res, evs, what):
    if not evs:
        res.status = "inconclusive"
        res.notes.append(f"anchor not found: {what}")
        return False
    return True


def reachable_anchor(res, q, ev, E=None):
    r, _ = q.check(ev.reach, domain=E.domain if E else None)
    res.queries += 1
    if r == z3.sat:
        res.nontrivial = True
        return True
    if r == z3.unsat:
        res.notes.append(f"anchor at bb{ev.bb} is unreachable in the encoding")
        return False
    res.status = "inconclusive"
    res.notes.append("solver returned unknown on an anchor reachability query")
    return False


def guarded(res, E, q, evs, phi, what):
    """phi(ev) -> z3 Bool (or None when a needed symbol is missing)"""
    any_reach = False
    for ev in evs:
        res.anchors.append(f"{ev.short}@bb{ev.bb}.{ev.layer}")
        if not reachable_anchor(res, q, ev, E):
            continue
        any_reach = True
        p = phi(ev)
        if p is None:
            res.status = "inconclusive"
            res.notes.append(f"guard symbols not found at bb{ev.bb}")
            continue
        r, model = q.check(ev.reach, z3.Not(p), domain=E.domain)
        res.queries += 1
        if r == z3.sat:
            violated(res, E, q, ev, model, what)
            return
        if r != z3.unsat:
            res.status = "inconclusive"
            res.notes.append("solver returned unknown")
    if not any_reach and res.status == "holds":
        res.status = "inconclusive"
        res.notes.append("no reachable anchor (vacuous)")


def precedes(res, E, q, evs, ghost, what):
    def phi(ev):
        return ev.env.get("@" + ghost)
    guarded(res, E, q, evs, phi, what)


def never(res, E, q, evs, cond, what):
    """no feasible path reaches any of evs while cond(ev) holds"""
    for ev in evs:
        res.anchors.append(f"{ev.short}@bb{ev.bb}.{ev.layer}")
        c = cond(ev) if cond else z3.BoolVal(True)
        if c is None:
            res.status = "inconclusive"
            res.notes.append(f"condition symbols not found at bb{ev.bb}")
            continue
        r, model = q.check(ev.reach, c, domain=E.domain)
        res.queries += 1
        if r == z3.sat:
            violated(res, E, q, ev, model, what)
            return
        if r != z3.unsat:
            res.status = "inconclusive"
    res.nontrivial = res.nontrivial or bool(evs)
