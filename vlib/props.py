"""Per-property registry: which engines serve it, the evidence level and the stated limits."""

COMMON_TRUSTED = [
    "rustc / kani-compiler 0.68.0 translation of MIR to goto programs",
    "CBMC 6.11.0 with CaDiCaL (bit-precise bounded model checker)",
    "the patched tracing crate under cfg(kani): span!/event!/enabled! expand to no-ops (logging is not the subject of any property)",
]
COMMON_ASSUMPTIONS = [
    "every verdict is bounded: see coverage.samples[*].bounds and .assumes; unwinding assertions were on, so a too-small loop bound is reported as inconclusive, not as a pass",
    "schedules of concurrent tasks and process crash points are not explored by this technique (see coverage.not_decided)",
]

PROPS = {}

PROPS["C18"] = {
    "kani": "c18",
    "mir": "c18",
    "level": "model_checking",
    "explanation": "Bounded model checking (Kani/CBMC) of the real EventIdGenerator::next from an arbitrary reachable generator state under a symbolic clock: one inductive step covers bursts of any length; plus layout, cross-shard and WAL-entry id preservation harnesses. Engine B B-2: rows materialised from a segment keep their stored id - the flag that switches to synthetic ids is computed from the id column's row count (or an emptiness test that honours typed columns).",
    "trusted_base": ["cfg(kani) hooks in event_id.rs: verif_from_parts/verif_parts (field access) and verif_clock (scripted clock consulted first by current_millis)"],
    "outside": [
        "synthetic ids for rows whose id column is missing or zero (condition_evaluator.rs: SIMD + HashMap, not executable under Kani)",
        "dedup across segments in the response writer (HashSet)",
        "clock readings before 2020-12 or beyond epoch+2^42 ms (reported by covers in A-2)",
        "JSON parsing of WAL lines (serde)",
    ],
}

PROPS["C02"] = {
    "kani": "c02",
    "mir": "c02",
    "level": "model_checking",
    "explanation": "Bounded model checking (Kani/CBMC) of the real row-level predicate code on both storage tiers: NumericCondition / LogicalCondition evaluated over the real typed ColumnValues views (segment tier) and over a real Event (memory tier) are each compared with the mathematical comparison for every 64-bit value, literal and operator, so the two tiers are shown to agree; literal typing in add_where_clause is checked the same way. B-3 (= C08 B-7): the temporal pruner's per-zone range test. B-4 (Engine B): every index-strategy arm of FieldSelector::select_for_segment falls back to all zones when its pruner has no answer (None) - the arms used to return no zones, so != and other operators the index cannot serve lost every flushed row (F-C02-e, fixed). B-5 (Engine B): ZoneHydrator::hydrate also hydrates candidate zones that carry no uid when they are mixed with zones that do (reachability of the event-type load under the mixed guard; F-C02-f, fixed). B-6 (Engine B): the string view a bool predicate's StringCondition gets of a flushed column answers for typed bool cells - ColumnValues::get_str_at reads the bool payload or PreparedAccessor::get_str_at falls back to get_bool_at and returns a value derived from it (F-C02-g, fixed; a Kani harness through the production PreparedAccessor ran out of memory in propositional reduction after 530 s of symbolic execution - HashMap). B-7 (Engine B): the accessor's per-lane (values, validity) buffers answer None only for an absent column or a fully examined row range without a value of the lane (the SIMD filter treats None as 'other lane' and clears the zone). B-4, B-5, B-6 and B-7 counterexamples are replayed end to end: the same predicates answered from the memtable and from flushed segments of the real engine. B-8 (= C08 B-8): an index pruner answers Some(zones) only after consulting the index for the probe.",
    "outside": [
        "zone / segment pruning (C08 covers the pruning structures Kani reaches; zone_collector, zone_combiner, index_planner are HashMap / I-O bound; of field_selector and zone_hydrator only the fall-back / hydration paths B-1, B-4, B-5)",
        "quick tier: the memory-tier twins of the AND / OR / NOT harnesses and of the large-u64 harness run in the thorough tier only (they take 2-3 minutes each and pushed the quick check beyond 15 minutes on a loaded machine); the quick tier keeps both tiers of the three numeric leaf harnesses and the segment tier of the logical ones",
        "B-5 is a reachability claim (some path hydrates uid-less zones in the mixed case), not coverage of every such zone: the zone lists are opaque collections",
        "B-6 is structural (which payload the string view reads), not a value-level equivalence: bool cells that are null, the rendering of the literals",
        "string, enum and temporal literals (chrono / serde_json parsing does not finish under Kani)",
        "the lane arithmetic of the std::simd fast path evaluate_numeric_simd itself (reached only through PreparedAccessor over a HashMap; B-7 covers the buffers it is fed)",
        "layouts reachable by flush / compaction / restart, shard fan-out",
    ],
}

PROPS["C08"] = {
    "kani": "c08",
    "mir": "c08",
    "native_validate": [{"id": "N-1", "args": ["triecheck"],
                         "desc": "the trie arrays the SuRF probe harnesses (A-5*) start from equal SurfTrie::build_from_sorted for every pair of 3-byte keys over the alphabet {0,1,2,127,128,255} (23436 pairs), native dev build"}],
    "level": "model_checking",
    "explanation": "Bounded model checking (Kani/CBMC) of the pruning kernels that are executable symbolically: the order-preserving key encodings shared by the SuRF builder and the range probe (same-kind and cross-kind literals), the per-zone time index (builder invariant + query side from any state satisfying it) and the calendar's bucket arithmetic. Soundness is asserted as: whenever a stored value satisfies the probe, the structure's comparison keeps the zone. Engine B B-2: TemporalCalendarIndex::add_zone_range inserts the zone into every hour and day bucket of its range (per loop iteration: admitted by t <= end implies inserted; key and step checked). B-4: zone identity in CandidateZone::uniq / ZoneCombiner must include the event type (data flow of the keys; known finding F-C08-d, replayed end to end on the real engine). B-5: the per-zone XOR filter is built from every value value_to_string renders, hashed with stable_hash64. B-3: naive_bucket_of over the whole u64 range (integer encoding). B-6: zone candidates of NOT F are never a complement of F's candidates (known finding F-C08-e, replayed end to end). B-7: the temporal pruner's [min, max] test per operator. B-8: the enum / zone-XOR / XOR-presence / SuRF pruners answer Some(zones) only on paths on which the index was consulted for the probe. B-9: ZoneSurfFilter::build_all_filtered checks numeric-kind consistency over all zone plans of the segment before a field gets a range filter.",
    "outside": [
        "quick tier: the exclusive SuRF probes (A-5gt, A-5lt; 9 minutes each) run in the thorough tier only, the inclusive ones (A-5ge, A-5le) in both",
        "the trie builder under the solver (SurfTrie::build_from_sorted uses a HashMap): the probe harnesses start from hand-written trie arrays that a native run compares with the real builder; keys longer than 3 bytes, more than two keys per zone, the 16-lane SIMD child scan (needs >= 16 children)",
        "enum bitmaps, the calendar index's bitmap operations (HashMap<u32,RoaringBitmap>; its bucket-id function is decided by Engine B, B-1), the min_ts >= 0 insertion guard in the async temporal builder, XOR / binary-fuse filters, context index, index catalog, the >90% fallback rule: HashMap / roaring / xorf / I-O bound",
        "strings and booleans as range keys; floats with |x| >= 9e18 (u64 / f64 fall-back lanes)",
        "bucket arithmetic beyond 2^34 epoch seconds under Kani (bit-blasted constant dividers)",
    ],
}

PROPS["C09"] = {
    "kani": "c09",
    "mir": "c09",
    "level": "model_checking",
    "explanation": "Bounded model checking (Kani/CBMC) of the aggregate kernels: partial states of any split of a multiset merge to the state of the whole (AggState::merge for COUNT / TOTAL / AVG / MIN / MAX), the aggregators' update / merge / finalize equal the mathematical metric, the memory-tier update_from_event feeds exactly the stored values, snapshot_aggregator preserves the mergeable state. B-3: the coordinator's finalisation of a merged MIN / MAX state reports the numeric extreme whenever one exists (follows a helper of the same impl if the arm delegates to one). B-4: the row filter built from a plan always carries the scope conditions (event type, FOR, SINCE), also for aggregation plans (known finding F-C09-b, replayed end to end on both tiers). B-5: GroupKey::compute_prehash_from_columns hashes only payloads of Some(..) answers of the typed getters (on paths where the getter answered Some) and a NULL cell as the None marker, so the columnar grouped path never merges the NULL group with a value's group. B-6: AggregateStreamMerger::scalar_to_u64, which restores the PER bucket of a shard's partial row at the coordinator, returns Some(v) for every non-negative Int64 / Timestamp v including 0.",
    "outside": [
        "COUNT UNIQUE (HashSet), group keys and AggPartial::merge (HashMap), the segment-tier update(row, columns) and SIMD update_column paths (HashMap<String, ColumnValues>)",
        "calendar-aware PER bucketing (chrono), equality with the selection path over stored data, FOR / SINCE handling in aggregate mode (build_from_plan needs a QueryPlan)",
        "i64 overflow of sums (|v| < 2^60 assumed)",
        "MIN / MAX over strings and floats (String formatting / parsing)",
    ],
}

PROPS["C10"] = {
    "kani": "c10",
    "mir": "c10",
    "level": "model_checking",
    "explanation": "Bounded model checking (Kani/CBMC) of the comparison every sorter and k-way merger delegates to (ScalarValue::compare) on each numeric / time / bool sort-key type: equals the typed order, antisymmetric and transitive over three arbitrary values; plus the heap ordering (asc / desc, shard tie-break) of the ordered merger through a cfg(kani) hook. Engine B B-3: ghost counters over MergerState::run show the n-th emitted row is the (offset+n)-th popped row and nothing is emitted beyond the limit (<= 3 loop iterations). B-4: MemTableSource's local limit (None for ordered queries, else LIMIT + OFFSET before LIMIT) is the only thing its sorted rows are truncated by. B-5: the shard-level OrderedStreamMerger is started with offset 0 and the shard budget effective_limit, which StreamingContext::new computes as LIMIT + OFFSET. B-6: the comparator the segment runner sorts its rows with returns on every path the unsigned fast path or exactly ScalarValue::compare(a, b), the order of the merge heap.",
    "outside": [
        "the ordered mergers themselves (async, over channels) and top-k zone pre-selection (RLTE, I/O); the window kernel try_accept_row and the OFFSET-without-LIMIT gate are decided by Engine B",
        "string sort keys in general (str::parse of symbolic text does not finish); only the concrete witness of F-C10-a",
        "Int64 vs Float64 keys beyond 2^53 (as_f64 rounding)",
    ],
}

PROPS["C16"] = {
    "kani": "c16",
    "mir": "c16",
    "level": "model_checking",
    "explanation": "Bounded model checking (Kani/CBMC) of the integer-epoch unit heuristic that every numeric spelling of a time goes through: for every i64 in each documented digit window the result is the floor of the denoted instant in seconds (the value an ISO-8601 spelling of the same instant gets), including instants before 1970 and both digit-count boundaries of every unit; 20+ digit integers are rejected for every i128. Engine B B-3: TimeParser::normalize_integer_epoch over the whole i128 range through a mod-2^128 integer encoding of its MIR (signed arithmetic, unsigned_abs / div_euclid / i64::try_from modelled exactly; num_digits_u128 unrolled 40x with the unwinding assertion discharged and replaced by a per-digit-count lemma): seconds unchanged below 10^11, floor(n/10^3), floor(n/10^6), floor(n/10^9) in the ms / us / ns windows, None from 20 digits. B-4: normalize_json_value writes back the unit heuristic's result for JSON integers, the floor of a JSON float and the string parser's result for strings (data flow of the values assigned to the payload slot). B-5: the calendar bucketers (hour / day / week / month / year) build the bucket start from the local date of the zoned instant and localise it in the instant's own zone (data flow of the returned value; the UTC view never enters).",
    "outside": [
        "ISO-8601 / RFC 3339 spellings and UTC offsets (chrono parsing does not finish under Kani), agreement of the four normalisation call sites on strings",
        "the choice of unit at a digit-count boundary is the documented heuristic itself (an 11-digit millisecond value is read as seconds); it is taken as given, not checked against the caller's intent",
        "temporal pruner clamping of negative probes, configured timezone / week start, PER bucket alignment (C08 A-4 covers naive bucket arithmetic)",
        "microsecond / nanosecond windows under Kani (i128 division by 10^6 / 10^9 does not finish in the quick cap; thorough tier, optional)",
    ],
}

MIR_TRUSTED = ['rustc (repository toolchain) -Zdump-mir output is a faithful rendering of the MIR before the coroutine transform', 'mirsym: MIR text parser + bounded DAG unrolling + state-merging encoder (vlib/mirsym), validated by parser self-check and seeded mutations', 'z3 (z3-solver 4.15 / 5.1 python bindings)']

COMPOSED_TRUSTED = ["the transition system that composes the per-function facts (vlib/mirsym/specs/prunespec.py, handovercrash.py) is written here, not extracted: 'holds' is relative to it; its counterexamples are replayed on the real engine", "mod-2^k integer encoding of bit-vector arithmetic (oblig.IntEnc), validated exhaustively on 8 bits against z3's bit-vector semantics"]

PROPS["C19"] = {
    "mir": "c19",
    "level": "other",
    "explanation": "Symbolic path-condition checking over the real MIR of WalCleaner::cleanup_up_to (rustc dump, z3): the negation of each guard / ordering obligation is sent to the solver over all branch outcomes of every opaque call and both values of CONFIG.wal.conservative_mode; unsat = no feasible path deletes a log after a failed archive, before archiving, or at or above the cut-off. B-5: WalArchiver::archive_logs_up_to appends the outcome of every archive_log call (Ok or Err) before moving on or returning, and archives only logs below the cut-off. B-6: WalArchive::from_wal_file walks the file's own line iterator with nothing removed beforehand and adds every line that parses as a WAL entry.",
    "trusted_base": MIR_TRUSTED,
    "outside": [
        "archive encoding fidelity (MessagePack + zstd round trip) and recovery order: data relations inside serde / zstd code",
        "that WalArchiver::archive_log itself returns Err whenever the archive was not written (its own Ok-implies-written summary is B-4)",
        "fault patterns of the real file system (the obligations quantify over every Result outcome instead)",
    ],
}

PROPS["C01"] = {
    "mir": "c01",
    "level": "other",
    "explanation": "Symbolic path-condition checking over the real MIR of the write path (insert_and_maybe_flush, the flush task of FlushWorker::run, WalCleaner::cleanup_up_to, SegmentIndex::save/load, InnerWalWriter::append_immediate): the ordering and guard facts the property's mechanisms rest on - WAL append before memtable insert, WAL pruning only after write+verify+publish, index replaced by temp/fsync/rename, flush-each-write honoured - each decided by z3 over every branch outcome of the opaque calls. On top of these per-function facts, B-3 is a bounded model check of the composed write path of one shard (STORE / FLUSH / graceful restart, then kill; <= 6 steps quick, 8 thorough; capacity 1..3): the cut-off rule, the rotation rules and the cleaner's comparison are read from the MIR by solver queries, z3 searches for a history that leaves an acknowledged event without a surviving copy or with two, and the history it returns is run on the real engine (native replay program, real parser / shard / WAL thread / flush worker, kill = _exit) before anything is reported.",
    "trusted_base": MIR_TRUSTED,
    "outside": [
        "crash points other than: between two commands, and between a segment's publication and the pruning of its WAL logs; configurations beyond capacity 1..3 / one shard; histories longer than the bound",
        "a WAL thread that lags behind the acknowledgements (STORE is acknowledged when the entry is queued, not when it is written), failing flushes, several flushes finishing out of queue order",
        "compaction in the history (L0 ids restart after compaction emptied L0), schema reload, hand-over durability",
    ],
}

PROPS["C03"] = {
    "mir": "c03",
    "level": "other",
    "explanation": "Symbolic path-condition checking over the real MIR of the publication protocol (flush task, queue_for_flush, insert_and_maybe_flush): the passive in-memory copy is released only after the segment is verified and in the live list, nothing is published on a failure branch, the in-flight marker is set before the job is sent, the passive copy exists before the memtable is swapped - each decided by z3 over every branch outcome. B-7: StreamingScan::new plans on the shard's shared live-list handle and does not read the list while the scan is set up. B-8: PassiveBufferSet::non_empty never leaves out a buffer whose lock is busy.",
    "trusted_base": MIR_TRUSTED,
    "outside": [
        "interleavings of reads with these steps (schedules): no engine of this family explores them; only the sequential order of the steps is decided",
        "double visibility between passive buffer and published segment, COUNT vs selection during a flush, FIFO mailbox order, response-writer dedup",
    ],
}

PROPS["C05"] = {
    "mir": "c05",
    "level": "other",
    "explanation": "Symbolic path-condition checking over the real MIR of CompactionHandover::commit_batch: the index is changed only if every output directory exists, only under the shard flush lock, the live list is updated only after a successful index save, inputs are retired before outputs are inserted, and only drained labels are retired from the live list and caches - each decided by z3 within the loop unrolling bound. B-4: SegmentIndex::retire_uid_from_labels / remove_labels compute, for every u32 id, the same (level, offset) key SegmentIndexTree::insert files the entry under (callee summaries inlined by substitution; machine arithmetic decided through a mod-2^32 integer encoding; counterexamples replayed on the real SegmentIndex). B-5: every MergePlan of KWayCountPolicy::plan carries its own fresh RangeAllocator::next_for_level(level_to) result. B-2d: commit_batch returns Ok only after the live list was updated. B-6: a small model of a compaction run cut short at each step boundary, composed from facts read from the MIR of ShardContext::new, SegmentIdLoader::load, QueryPlan::segment_maybe_contains_uid and the compaction worker (what a new process lists as live and decides to read); z3 finds the crash points at which an event is readable from an input and from the output, and the point 'index committed, inputs not yet reclaimed' is replayed on the real engine with a real background compaction (known finding F-C05-a). B-7: ZoneCursorLoader::load_all fails when an input segment's zone metadata cannot be loaded. B-8: ZoneMerger::next_zone pushes every row a cursor hands out onto the output batch (no path drops a row between next_row = Some and the push).",
    "trusted_base": MIR_TRUSTED,
    "outside": [
        "equality of query answers before and after compaction (needs the k-way merge, HashMap-bound)",
        "chunking policy (which segments are merged), multi-level cascades, crash points between output write, index swap and reclaim",
        "BTreeMap operations of the index tree themselves (opaque); only the keys they are called with are decided",
    ],
}

PROPS["C11"] = {
    "mir": "c11",
    "level": "other",
    "explanation": "Symbolic path-condition checking over the real MIR: a flushed segment enters the live list only after flush Ok + verification, segments.idx is replaced by temp/fsync/rename with a stale temp removed on load, compaction swaps index entries only for existing output directories and updates the live list only after the save - each decided by z3. B-4: one step of RangeAllocator::next_for_level from an arbitrary allocator state (stored offset < LEVEL_SPAN-1, any level below saturation): the id lies in the level's range and the next id of the level is strictly larger (saturating arithmetic modelled exactly, integer encoding); B-4r: the range is left at offset LEVEL_SPAN (known finding F-C11-a, replayed on the real allocator); B-5: merge plans get fresh ids. B-6: RangeAllocator::from_existing_ids raises the stored offset of a name's level above the name's own offset (one loop step from an arbitrary map state). B-7: ShardContext::new seeds the restart allocator from an iteration over the complete directory scan (every level keeps its own counter).",
    "trusted_base": MIR_TRUSTED,
    "outside": [
        "byte-immutability of segment files over a lifetime, id reuse after restart / compaction (allocator seeded from directory names), crash points",
    ],
}

PROPS["C13"] = {
    "mir": "c13",
    "level": "other",
    "explanation": "Symbolic checking over the real MIR (z3): (1) path summaries of the loop-free PermissionCache::can_read / can_write against the statement's rule (admin, explicit grant, role unless overridden, REVOKE denies), both directions; (2) in every handler that checks a permission (STORE, QUERY, DEFINE, permission and user management) the data / management effect is unreachable unless auth is off, or a user id is present and it is the bypass id or the permission call returned true; (3) data flow of dispatch_command: which handlers receive the identity at all. B-4k: revoke_key persists and caches an inactive record, the cache only after the store write succeeded. B-5: REVOKE stores the reduced permission set of every named event type before moving on or answering OK. B-6: in a GRANT / REVOKE over several event types the set stored for one type is independent of the permissions held on the other types (decided by renaming the other iterations' symbols and asking for a differing result).",
    "trusted_base": MIR_TRUSTED + ["the promoted constant compared with the user id in the handlers is BYPASS_USER_ID (promoted bodies are not decoded)"],
    "outside": [
        "HMAC verification, session expiry, rate limiting, the per-connection gates of the four front ends, BATCH",
        "that no creatable user id equals the reserved bypass id (validate_user_id: string code, not decided)",
        "'takes effect for the next request' (histories), sequence queries' second event type",
    ],
}

PROPS["C17"] = {
    "mir": "c17",
    "level": "other",
    "explanation": "Symbolic data-flow / reachability checking over the real MIR of every parser body (hand-written and peg-generated, ~320 bodies) and of dispatch_command (z3): no reachable unwrap / expect consumes the result of a conversion of input text, and no feasible path of dispatch_command reaches a panic for any Command variant. Candidates are replayed natively through the public parse_command with boundary inputs derived from the converted types; the inputs of repaired findings stay in the replay set. B-5: the OR / AND / NOT rules of the QUERY and PLOT expression grammars form precedence strata (operand rules, recursion, keyword guards, re-entry into the whole-expression rule only after a matched open parenthesis); a structural deviation is confirmed on the real parser with unparenthesised sample expressions. B-6: no grammar action compares matched keyword text with an alphabetic constant by exact equality; confirmed by re-spelling the keywords of sample commands in mixed case on the real parser. B-7: no narrowing `as` cast of a number parsed from the input text is reachable with a value outside the target type (for each such cast the solver is asked for an out-of-range value under the cast's path condition; replayed on the real parser).",
    "trusted_base": MIR_TRUSTED + ["native replay program /verif/native (plain cargo build of /repo with the repository toolchain)"],
    "outside": [
        "totality over all byte strings (the PEG parser does not run under Kani: 2 symbolic bytes > 25 min); slice-index and arithmetic panics whose operands are not conversions of input text",
        "print/parse round trip (no printer exists for commands), keyword case-insensitivity, precedence in grammars other than the two expression grammars",
        "stack depth on pathologically deep nesting (recursive descent; an abort cannot be caught by the replay program)",
        "super-linear parse time in general: only detected through the fixed nested-parentheses inputs of the native replay set",
    ],
}

PROPS["C07"] = {
    "kani": "c07",
    "mir": "c07",
    "level": "model_checking",
    "explanation": "Bounded model checking (Kani/CBMC) of the value path both tiers share: JSON number / bool / null -> ScalarValue -> JSON is the identity over the full i64 / u64<=i64::MAX / f64 ranges, and the segment tier's cell-to-value mapping (EventBuilder::add_field_i64/u64/f64/bool/null and the string-cell mapping) yields exactly the value the memory tier holds, including strings that look like numbers, booleans or null; plus a MIR data-flow obligation that the segment reader passes string cells to the text-preserving entry point. Engine B B-2: the flush writer's field-type to physical-column-type mapping (ColumnWriter::write_all) equals the readers' field_type_to_physical_type for every declared type and its nullable form; a counterexample is replayed end to end on the real engine (QUERY before and after FLUSH). B-3: ColumnGroupBuilder::finish records for every VarBytes value the byte length of exactly the bytes appended to the payload (the reader cuts the payload by these lengths).",
    "trusted_base": MIR_TRUSTED,
    "outside": [
        "strings longer than 3 bytes / non-ASCII, u64 above i64::MAX (decimal-string representation; serde_json::from_str does not finish under Kani)",
        "LZ4, mmap, column block layout and the writer (ColumnGroupBuilder: HashMap), WAL JSON lines, RETURN projection, compaction / restart tiers",
        "the streaming flow path's typed batches (arrow / ColumnBatch)",
    ],
}

PROPS["C06"] = {
    "mir": "c06",
    "level": "other",
    "explanation": "Symbolic checking over the real MIR (z3): per-field-type summary of type_allows_value (the verdict is exactly the JSON accessor of the declared type, optional = null or inner verdict, enum = declared variant), validate_payload returns Ok only if every present field passed, absent fields are optional-only by construction of the loop, and no extra key is present; store::handle reaches the shard only for a defined type, non-empty type and context id, Ok validation and Ok time normalisation; a failed or repeated DEFINE leaves the registry unchanged. B-5: PayloadTimeNormalizer::normalize hands every present non-null datetime / date value (nullable or not) to TimeParser::normalize_json_value with the matching kind and propagates its error. B-6 (one piece of the 'if' direction): parse_command tokenizes the whole command and rejects it if a token is <INVALID>; no character JSON allows outside a string may become that token (character dispatch of tokenize composed with parse_word; char::is_alphanumeric modelled exactly for ASCII; found '+', F-C06-a).",
    "trusted_base": MIR_TRUSTED + ["serde_json::Value accessors (is_string, as_i64, as_u64, as_f64, is_boolean, is_number, is_null, as_str, as_object) behave as documented"],
    "outside": [
        "the rest of the 'if' direction (every conforming payload is accepted: the peg grammar of STORE, serde_json's own parser) and acceptance of concrete JSON shapes inside serde_json's accessors (e.g. as_f64 accepts integers)",
        "'leaves no trace in any later read' (histories), unparseable times inside chrono, parser-level rejection of non-flat payloads",
    ],
}

PROPS["C08"]["trusted_base"] = MIR_TRUSTED
PROPS["C10"]["trusted_base"] = MIR_TRUSTED
PROPS["C18"]["trusted_base"] = PROPS["C18"]["trusted_base"] + MIR_TRUSTED
PROPS["C09"]["trusted_base"] = MIR_TRUSTED
PROPS["C16"]["trusted_base"] = MIR_TRUSTED
PROPS["C02"]["trusted_base"] = MIR_TRUSTED

PROPS["C12"] = {
    "mir": "c12",
    "level": "other",
    "explanation": "Symbolic data-flow / path checking over the real MIR (z3): ShardManager::get_shard computes `DefaultHasher(context_id).finish() % shards.len()` from the context id alone with a fixed-key hasher; STORE routes by the command's context id and the event carries the same id; the shard context tags its event ids with its own id (C18 A-1 shows the tag equals that id & 0x3FF); the streaming dispatcher sends the query to every element of all_shards() and records each receiver before moving on. B-4b: the dispatcher's collection loop moves on / returns Ok only after Ok(Ok(handle)) of the awaited receiver was kept.",
    "trusted_base": MIR_TRUSTED + ["std::hash::DefaultHasher::new() uses fixed keys, i.e. equal inputs hash equally in every process built from the same toolchain"],
    "outside": [
        "the hash function itself (SipHash over the string bytes) and its stability across toolchain versions",
        "a change of the configured shard count between lifetimes, restarts between STOREs (histories)",
        "the non-streaming / sequence / comparison dispatchers, shard-side handling of the QueryStream message",
    ],
}

# Properties not (or not yet) claimed, each with the reason. Entries are removed from here
# when a check for the property is registered in PROPS.
for _p in ("C01", "C05"):
    if _p in PROPS:
        PROPS[_p]["trusted_base"] = list(PROPS[_p].get("trusted_base", [])) + COMPOSED_TRUSTED
for _p in ("C08", "C11", "C16"):
    if _p in PROPS:
        PROPS[_p]["trusted_base"] = list(PROPS[_p].get("trusted_base", [])) + COMPOSED_TRUSTED[1:]

NOT_APPLICABLE = {
    "C04": "order is decided by schedules of concurrent flows, BinaryHeap tie-breaking over HashMap-materialised rows and a BTreeMap<String,Vec<Event>> memtable; none of these finishes under Kani (3-row merger > 25 min, 3 inserts > 15 min) and no schedule explorer belongs to this technique",
    "C14": "everything the statement quantifies over is history-dependent (late events at the high-water second, frame store, pruning by zone creation time, flush barrier) and lives in async / HashMap code; the high-water-mark comparison kernel alone would be a vacuous claim",
    "C15": "group.rs/matcher.rs operate on HashMap<String, GroupedRowIndices> and HashMap-backed candidate zones; at 3-4 min per hash-map operation under Kani no harness with two events per side finishes, and the two-pointer sweep is a data-dependent loop the MIR path engine cannot summarise",
    "C20": "encoders are arrow array builders, serde_json/sonic writers and String formatting over Vec<ScalarValue> batches; none finishes under Kani (serde_json probe exhausted 30 GB) and the equivalence is a data relation, not a guard/ordering fact the MIR engine can state",
}
