"""Per-property registry: which engines serve it, the evidence level and the stated limits."""

COMMON_TRUSTED = [
    "rustc / kani-compiler 0.68.0 translation of MIR to goto programs",
    "CBMC 6.11.0 with CaDiCaL (bit-precise bounded model checker)",
    "the patched tracing crate under cfg(kani): span!/event!/enabled! expand to no-ops (logging is not the subject of any property)",
]
COMMON_ASSUMPTIONS = [
    "every verdict is bounded: see coverage.samples[*].bounds and .assumes; unwinding assertions were on, so a too-small loop bound is reported as inconclusive, not as a pass",
    "schedules of concurrent tasks and process crash points are not explored by this technique (see coverage.not_decided)",
]

PROPS = {}

PROPS["C18"] = {
    "kani": "c18",
    "level": "model_checking",
    "explanation": "Bounded model checking (Kani/CBMC) of the real EventIdGenerator::next from an arbitrary reachable generator state under a symbolic clock: one inductive step covers bursts of any length; plus layout, cross-shard and WAL-entry id preservation harnesses.",
    "trusted_base": ["cfg(kani) hooks in event_id.rs: verif_from_parts/verif_parts (field access) and verif_clock (scripted clock consulted first by current_millis)"],
    "outside": [
        "synthetic ids for rows whose id column is missing or zero (condition_evaluator.rs: SIMD + HashMap, not executable under Kani)",
        "dedup across segments in the response writer (HashSet)",
        "clock readings before 2020-12 or beyond epoch+2^42 ms (reported by covers in A-2)",
        "that WAL recovery is the only other writer of ids (read in wal_recovery.rs; JSON parsing of WAL lines is out of reach)",
    ],
}

PROPS["C02"] = {
    "kani": "c02",
    "level": "model_checking",
    "explanation": "Bounded model checking (Kani/CBMC) of the real row-level predicate code on both storage tiers: NumericCondition / LogicalCondition evaluated over the real typed ColumnValues views (segment tier) and over a real Event (memory tier) are each compared with the mathematical comparison for every 64-bit value, literal and operator, so the two tiers are shown to agree; literal typing in add_where_clause is checked the same way.",
    "outside": [
        "zone / segment pruning (C08 covers the pruning structures Kani reaches; zone_collector, zone_combiner, index_planner, field_selector are HashMap / I-O bound)",
        "string, enum and temporal literals (chrono / serde_json parsing does not finish under Kani)",
        "multi-row zones and the std::simd fast path evaluate_numeric_simd (reached only through PreparedAccessor over a HashMap)",
        "layouts reachable by flush / compaction / restart, shard fan-out",
    ],
}

# Properties not (or not yet) claimed, each with the reason. Entries are removed from here
# when a check for the property is registered in PROPS.
NOT_APPLICABLE = {
    "C01": "check not built yet (planned: mirsym ordering/guard obligations)",
    "C03": "check not built yet (planned: mirsym publication-order obligations)",
    "C04": "order is decided by schedules of concurrent flows, BinaryHeap tie-breaking over HashMap-materialised rows and a BTreeMap<String,Vec<Event>> memtable; none of these finishes under Kani (3-row merger > 25 min, 3 inserts > 15 min) and no schedule explorer belongs to this technique",
    "C05": "check not built yet",
    "C06": "check not built yet",
    "C07": "check not built yet",
    "C08": "check not built yet",
    "C09": "check not built yet",
    "C10": "check not built yet",
    "C11": "check not built yet",
    "C12": "check not built yet",
    "C13": "check not built yet",
    "C14": "check not built yet",
    "C15": "group.rs/matcher.rs operate on HashMap<String, GroupedRowIndices> and HashMap-backed candidate zones; at 3-4 min per hash-map operation under Kani no harness with two events per side finishes, and the two-pointer sweep is a data-dependent loop the MIR path engine cannot summarise",
    "C16": "check not built yet",
    "C17": "check not built yet",
    "C19": "check not built yet",
    "C20": "encoders are arrow array builders, serde_json/sonic writers and String formatting over Vec<ScalarValue> batches; none finishes under Kani (serde_json probe exhausted 30 GB) and the equivalence is a data relation, not a guard/ordering fact the MIR engine can state",
}
