//! Native replay of solver counterexamples against the real sneldb build (no Kani, no stubs).
//! Usage: replay <case> [args...]   exit 0 = behaves as the property demands,
//! exit 3 = the violation reproduces (details on stdout), exit 2 = usage / setup error.
use std::panic::{catch_unwind, AssertUnwindSafe};

/// like `parse`, but prints the parsed command (Debug) so that a replay can see which values it carries
fn parse_debug_case(input: &str) -> i32 {
    let inp = input.to_string();
    let r = catch_unwind(AssertUnwindSafe(|| {
        snel_db::command::parser::command::parse_command(&inp).map(|c| format!("{c:?}")).map_err(|e| format!("{e:?}"))
    }));
    match r {
        Ok(Ok(c)) => println!("Ok({c})"),
        Ok(Err(e)) => println!("Err({e})"),
        Err(_) => {
            println!("PANICKED");
            return 3;
        }
    }
    0
}

fn parse_case(input: &str) -> i32 {
    let inp = input.to_string();
    let r = catch_unwind(AssertUnwindSafe(|| {
        snel_db::command::parser::command::parse_command(&inp).map(|_| ()).map_err(|e| format!("{e:?}"))
    }));
    match r {
        Ok(Ok(())) => {
            println!("parse_command({input:?}) -> Ok(command)");
            0
        }
        Ok(Err(e)) => {
            println!("parse_command({input:?}) -> Err({e})");
            0
        }
        Err(p) => {
            let msg = p
                .downcast_ref::<String>()
                .cloned()
                .or_else(|| p.downcast_ref::<&str>().map(|s| s.to_string()))
                .unwrap_or_default();
            println!("parse_command({input:?}) PANICKED: {msg}");
            3
        }
    }
}

/// F-C08-a / F-C08-b: the real SuRF builder and probe on the witness values.
fn surf_case(stored: f64, probe: f64, op: &str, probe_is_int: bool) -> i32 {
    use snel_db::engine::core::filter::surf_encoding::encode_value;
    use snel_db::engine::core::filter::surf_trie::SurfTrie;
    use snel_db::engine::core::filter::zone_surf_filter::{ZoneSurfEntry, ZoneSurfFilter};
    use snel_db::engine::types::ScalarValue;
    let key = encode_value(&ScalarValue::Float64(stored)).unwrap();
    let trie = SurfTrie::build_from_sorted(&[key]);
    let filter = ZoneSurfFilter { entries: vec![ZoneSurfEntry { zone_id: 7, trie }] };
    let lit = if probe_is_int { ScalarValue::Int64(probe as i64) } else { ScalarValue::Float64(probe) };
    let pk = encode_value(&lit).unwrap();
    let (zones, matches) = match op {
        ">=" => (filter.zones_overlapping_ge(&pk, true, "seg"), stored >= probe),
        ">" => (filter.zones_overlapping_ge(&pk, false, "seg"), stored > probe),
        "<=" => (filter.zones_overlapping_le(&pk, true, "seg"), stored <= probe),
        "<" => (filter.zones_overlapping_le(&pk, false, "seg"), stored < probe),
        _ => return 2,
    };
    println!(
        "zone holds {stored}; probe x {op} {probe}{}: row matches = {matches}, zone kept by ZoneSurfFilter = {}",
        if probe_is_int { " (integer literal)" } else { "" },
        !zones.is_empty()
    );
    if matches && zones.is_empty() {
        println!("VIOLATION REPRODUCED: a zone holding a matching row is pruned");
        3
    } else {
        0
    }
}

/// F-C07-a: what EventBuilder::add_field (the entry point the segment reader used for string
/// columns) does to a string cell.
fn stringcell(text: &str) -> i32 {
    use snel_db::engine::core::EventBuilder;
    use snel_db::engine::types::ScalarValue;
    let mut b = EventBuilder::new();
    b.add_field("x", text);
    let ev = b.build();
    let v = ev.payload.get("x").cloned();
    println!("string cell {text:?} read through EventBuilder::add_field -> {v:?}; rendered {}", v.as_ref().map(|x| x.to_json().to_string()).unwrap_or_default());
    match v {
        Some(ScalarValue::Utf8(s)) if s == text => 0,
        _ => 3,
    }
}

/// Calendar index: a zone covering [lo, hi] must be a candidate for every probe some value in
/// the range satisfies.
fn calendar_case(lo: u64, hi: u64, op: &str, probe: i64) -> i32 {
    use snel_db::command::types::CompareOp;
    use snel_db::engine::core::time::temporal_calendar_index::TemporalCalendarIndex;
    use snel_db::engine::core::time::temporal_traits::FieldIndex;
    let mut cal = TemporalCalendarIndex::new("created_at");
    cal.add_zone_range(3, lo, hi);
    let (cop, matches) = match op {
        ">=" => (CompareOp::Gte, hi as i128 >= probe as i128),
        ">" => (CompareOp::Gt, hi as i128 > probe as i128),
        "<=" => (CompareOp::Lte, lo as i128 <= probe as i128),
        "<" => (CompareOp::Lt, (lo as i128) < probe as i128),
        "=" => (CompareOp::Eq, lo as i128 <= probe as i128 && probe as i128 <= hi as i128),
        _ => return 2,
    };
    let zones = cal.zones_intersecting(cop, probe);
    let kept = zones.contains(3);
    println!("zone covers [{lo}, {hi}]; probe ts {op} {probe}: some value may match = {matches}, calendar keeps zone = {kept}");
    if matches && !kept { 3 } else { 0 }
}

/// Calendar index with a wide zone [lo, hi] and a narrow zone holding only `probe`: an equality
/// probe for `probe` (which lies in the wide zone) must keep the wide zone. exit 3 = pruned.
fn calendar2_case(lo: u64, hi: u64, probe: u64) -> i32 {
    use snel_db::command::types::CompareOp;
    use snel_db::engine::core::time::temporal_calendar_index::TemporalCalendarIndex;
    use snel_db::engine::core::time::temporal_traits::FieldIndex;
    let mut cal = TemporalCalendarIndex::new("created_at");
    cal.add_zone_range(0, lo, hi);
    cal.add_zone_range(1, probe, probe);
    let zones = cal.zones_intersecting(CompareOp::Eq, probe as i64);
    let kept = zones.contains(0);
    println!("zone 0 covers [{lo}, {hi}], zone 1 covers [{probe}, {probe}]; probe ts = {probe} lies in zone 0: calendar keeps zone 0 = {kept}");
    if lo <= probe && probe <= hi && !kept { 3 } else { 0 }
}

/// F-C09-a: TOTAL / AVG / MIN / MAX of a u64 field on the segment tier vs the memory tier.
fn agg_u64(value: u64) -> i32 {
    use snel_db::engine::core::read::aggregate::ops::AggregatorImpl;
    use snel_db::engine::core::read::aggregate::plan::AggregateOpSpec;
    use snel_db::engine::core::read::cache::DecompressedBlock;
    use snel_db::engine::core::{ColumnValues, EventBuilder};
    use snel_db::engine::types::ScalarValue;
    use std::collections::HashMap;
    use std::sync::Arc;
    let mut rc = 0;
    for spec in [
        AggregateOpSpec::Total { field: "x".into() },
        AggregateOpSpec::Avg { field: "x".into() },
        AggregateOpSpec::Min { field: "x".into() },
        AggregateOpSpec::Max { field: "x".into() },
    ] {
        let block = Arc::new(DecompressedBlock::from_bytes(value.to_le_bytes().to_vec()));
        let mut cols = HashMap::new();
        cols.insert("x".to_string(), ColumnValues::new_typed_u64(block, 0, 1, None));
        let mut seg = AggregatorImpl::from_spec(&spec);
        seg.update(0, &cols);
        let mut b = EventBuilder::new();
        b.payload.insert("x".to_string(), ScalarValue::Int64(value as i64));
        let ev = b.build();
        let mut mem = AggregatorImpl::from_spec(&spec);
        mem.update_from_event(&ev);
        println!("{spec:?} over a u64 field holding {value}: segment tier {:?}, memory tier {:?}", seg.finalize(), mem.finalize());
        if seg.finalize() != mem.finalize() {
            rc = 3;
        }
    }
    rc
}

/// Validates the hand-built trie arrays of the Kani harness (kani/src/c08_trie.rs, included
/// verbatim) against the real builder for every pair of 3-byte keys over a small alphabet.
mod trie_shapes {
    include!(concat!(env!("CARGO_MANIFEST_DIR"), "/../kani/src/c08_trie_shapes.rs"));
}

fn triecheck() -> i32 {
    use snel_db::engine::core::filter::surf_trie::SurfTrie;
    let alpha = [0u8, 1, 2, 127, 128, 255];
    let mut keys = Vec::new();
    for &x in &alpha {
        for &y in &alpha {
            for &z in &alpha {
                keys.push([x, y, z]);
            }
        }
    }
    let mut n = 0u64;
    for a in &keys {
        for b in &keys {
            if a > b {
                continue;
            }
            let mine = trie_shapes::trie_for(*a, *b);
            let mut sorted = vec![a.to_vec(), b.to_vec()];
            sorted.sort();
            sorted.dedup();
            let real = SurfTrie::build_from_sorted(&sorted);
            n += 1;
            if mine.degrees != real.degrees
                || mine.child_offsets != real.child_offsets
                || mine.labels != real.labels
                || mine.edge_to_child != real.edge_to_child
                || mine.is_terminal_bits != real.is_terminal_bits
            {
                println!("trie mismatch for {a:?} {b:?}: harness {mine:?} builder {real:?}");
                return 3;
            }
        }
    }
    println!("triecheck: {n} key pairs, harness trie == SurfTrie::build_from_sorted");
    0
}

/// C05: a segment index holding one entry `id` for uid "u"; retire / remove it by its label and
/// check the index no longer lists it. exit 3 = the entry is still listed (violation reproduced).
fn retirekey(id: u32, how: &str) -> i32 {
    use snel_db::engine::core::segment::segment_id::SegmentId;
    use snel_db::engine::core::segment::segment_index::{SegmentEntry, SegmentIndex};
    let dir = tempfile::tempdir().unwrap();
    let rt = tokio::runtime::Builder::new_current_thread().enable_all().build().unwrap();
    let mut idx = match rt.block_on(SegmentIndex::load(dir.path())) {
        Ok(i) => i,
        Err(e) => {
            println!("SegmentIndex::load failed: {e}");
            return 2;
        }
    };
    idx.insert_entry(SegmentEntry { id, uids: vec!["u".to_string()] });
    let label = SegmentId::new(id).dir_name();
    let removed = if how == "retire" {
        idx.retire_uid_from_labels("u", std::iter::once(label.as_str())).len()
    } else {
        idx.remove_labels(std::iter::once(label.as_str())).len()
    };
    let still = idx.list_for_uid("u").len();
    println!("index with segment {label} for uid u; {how} by label: entries returned = {removed}, still listed for u = {still}");
    if removed == 1 && still == 0 { 0 } else { 3 }
}

/// C11: a RangeAllocator whose stored offset for `level` is `offset` (seeded from an existing
/// directory name, as ShardContext::new and KWayCountPolicy::plan do); allocate twice.
/// exit 3 = an id outside the level's range, or not strictly increasing.
fn allocstep(level: u32, offset: u32) -> i32 {
    use snel_db::engine::core::segment::range_allocator::RangeAllocator;
    use snel_db::engine::core::segment::segment_id::{LEVEL_SPAN, SegmentId};
    let mut a = if offset == 0 {
        RangeAllocator::new()
    } else if offset <= LEVEL_SPAN {
        let seed = SegmentId::new(level * LEVEL_SPAN + (offset - 1)).dir_name();
        RangeAllocator::from_existing_ids(std::iter::once(seed.as_str()))
    } else if offset < 50_000_000 {
        let mut a = RangeAllocator::new();
        for _ in 0..offset {
            a.next_for_level(level);
        }
        a
    } else {
        println!("offset {offset} too large to reach by calls");
        return 2;
    };
    let id1 = a.next_for_level(level);
    let id2 = a.next_for_level(level);
    let (l1, l2) = (SegmentId::new(id1).level(), SegmentId::new(id2).level());
    let other = RangeAllocator::new().next_for_level(l1);
    println!("level {level} after {offset} allocations: next ids {id1} (level {l1}), {id2} (level {l2}); first id of level {l1} is {other}");
    if l1 == level && l2 == level && id2 > id1 { 0 } else { 3 }
}

/// System-level replay: runs a command history through the real parser, dispatcher, shard
/// manager, WAL and flush workers on the directories named by SNELDB_CONFIG (written by the
/// caller). Items are separated by ';': command text, or `!sleep <ms>`, `!wait` (wait for queued
/// flushes), `!shutdown` (graceful), `!kill` (exit at once without any shutdown step: what the
/// disk holds at that instant is what a restart sees). Every response is printed as
/// `RESP <index> <json string of the raw response bytes>`.
fn history(script: &str) -> i32 {
    use snel_db::command::dispatcher::dispatch_command;
    use snel_db::command::parser::command::parse_command;
    use snel_db::engine::schema::SchemaRegistry;
    use snel_db::engine::shard::manager::ShardManager;
    use snel_db::shared::config::CONFIG;
    use snel_db::shared::response::JsonRenderer;
    use std::io::Write;
    use std::sync::Arc;
    let rt = tokio::runtime::Builder::new_multi_thread().worker_threads(4).enable_all().build().unwrap();
    rt.block_on(async move {
        let registry = Arc::new(tokio::sync::RwLock::new(SchemaRegistry::new().expect("schema registry")));
        let base_dir = std::path::PathBuf::from(&CONFIG.engine.data_dir);
        let wal_dir = std::path::PathBuf::from(&CONFIG.wal.dir);
        let sm = ShardManager::new(CONFIG.engine.shard_count, base_dir, wal_dir).await;
        for (i, item) in script.split(';').map(|s| s.trim()).filter(|s| !s.is_empty()).enumerate() {
            if let Some(ms) = item.strip_prefix("!sleep") {
                tokio::time::sleep(std::time::Duration::from_millis(ms.trim().parse().unwrap_or(100))).await;
                continue;
            }
            if item == "!wait" {
                let errs = sm.wait_for_flush_completion().await;
                println!("RESP {i} {}", serde_json::to_string(&format!("wait: {errs:?}")).unwrap());
                continue;
            }
            if item == "!shutdown" {
                let f = sm.flush_all(Arc::clone(&registry)).await;
                let e = sm.shutdown_all().await;
                println!("RESP {i} {}", serde_json::to_string(&format!("shutdown: flush {f:?} stop {e:?}")).unwrap());
                continue;
            }
            if item == "!kill" {
                println!("RESP {i} \"killed\"");
                let _ = std::io::stdout().flush();
                unsafe { libc_exit(9) };
            }
            let cmd = match parse_command(item) {
                Ok(c) => c,
                Err(e) => {
                    println!("RESP {i} {}", serde_json::to_string(&format!("parse error: {e:?}")).unwrap());
                    continue;
                }
            };
            let mut out: Vec<u8> = Vec::new();
            let r = dispatch_command(&cmd, &mut out, &sm, &registry, None, None, &JsonRenderer).await;
            if let Err(e) = r {
                out.extend_from_slice(format!(" <io error {e}>").as_bytes());
            }
            println!("RESP {i} {}", serde_json::to_string(&String::from_utf8_lossy(&out)).unwrap());
        }
        let _ = std::io::stdout().flush();
        // leave like a kill as well: no implicit graceful steps
        unsafe { libc_exit(0) };
    })
}

unsafe extern "C" {
    fn _exit(code: i32) -> !;
}
unsafe fn libc_exit(code: i32) -> ! {
    unsafe { _exit(code) }
}

/// C16: the integer-epoch unit heuristic through the public parser: `epoch <decimal> <expected|none>`.
/// exit 3 = the parser's answer differs from the expected epoch second.
fn epoch_case(text: &str, expected: &str) -> i32 {
    use snel_db::shared::time::{TimeKind, TimeParser};
    let got = TimeParser::parse_str_to_epoch_seconds(text, TimeKind::DateTime);
    let want: Option<i64> = if expected == "none" { None } else { expected.parse().ok() };
    println!("TimeParser::parse_str_to_epoch_seconds({text:?}) = {got:?}, expected {want:?}");
    if got == want { 0 } else { 3 }
}

/// C17: operator precedence of WHERE expressions through the real parser. The three inputs must
/// parse to Or(And(a,b),c), Or(a,And(b,c)) and And(Not(a),b). exit 3 = a different tree.
fn precedence_case() -> i32 {
    use snel_db::command::parser::command::parse_command;
    use snel_db::command::types::{Command, Expr};
    fn shape(e: &Expr) -> String {
        match e {
            Expr::And(a, b) => format!("And({},{})", shape(a), shape(b)),
            Expr::Or(a, b) => format!("Or({},{})", shape(a), shape(b)),
            Expr::Not(a) => format!("Not({})", shape(a)),
            Expr::Compare { field, .. } => field.clone(),
            Expr::In { field, .. } => field.clone(),
        }
    }
    let cases = [
        ("QUERY e WHERE a = 1 AND b = 2 OR c = 3", "Or(And(a,b),c)"),
        ("QUERY e WHERE a = 1 OR b = 2 AND c = 3", "Or(a,And(b,c))"),
        ("QUERY e WHERE NOT a = 1 AND b = 2", "And(Not(a),b)"),
        ("QUERY e WHERE NOT (a = 1 OR b = 2) AND c = 3", "And(Not(Or(a,b)),c)"),
        ("QUERY e WHERE a = 1 AND (b = 2 OR c = 3)", "And(a,Or(b,c))"),
    ];
    let mut rc = 0;
    let mut lines = Vec::new();
    for (text, want) in cases {
        let got = match parse_command(text) {
            Ok(Command::Query { where_clause: Some(w), .. }) => shape(&w),
            other => format!("{other:?}").chars().take(60).collect(),
        };
        if got != want {
            rc = 3;
            lines.push(format!("{text:?} parses as {got}, expected {want}"));
        }
    }
    if rc == 0 {
        println!("all {} precedence samples parse to the expected trees", cases.len());
    } else {
        println!("{}", lines.join("; "));
    }
    rc
}

/// C17: keyword case-insensitivity through the real parser: every sample command must parse to the
/// same command when its (all-uppercase) keywords are re-spelled in mixed case. exit 3 = a difference.
fn kwcase_case() -> i32 {
    use snel_db::command::parser::command::parse_command;
    let samples = [
        "QUERY e WHERE a = 1 AND b = 2 OR NOT c = 3 ORDER BY x DESC LIMIT 5 OFFSET 2",
        "QUERY e WHERE a IN (1, 2) ORDER BY x ASC LIMIT 5",
        "QUERY e COUNT UNIQUE u PER day USING t BY c",
        "QUERY e FOR ctx SINCE \"2024-01-01T00:00:00Z\" USING t RETURN [a, b]",
        "QUERY a FOLLOWED BY b LINKED BY k WHERE a.x = 1",
        "REPLAY e FOR ctx SINCE \"2024-01-01T00:00:00Z\"",
        "FLUSH",
        "PING",
    ];
    fn respell(text: &str, style: usize) -> String {
        text.split(' ')
            .map(|w| {
                if w.len() > 1 && w.chars().all(|c| c.is_ascii_uppercase()) {
                    w.chars()
                        .enumerate()
                        .map(|(i, c)| if (i + style) % 2 == 0 { c.to_ascii_lowercase() } else { c })
                        .collect::<String>()
                } else {
                    w.to_string()
                }
            })
            .collect::<Vec<_>>()
            .join(" ")
    }
    let mut diffs = Vec::new();
    for s in samples {
        let base = format!("{:?}", parse_command(s));
        for style in 0..2 {
            let v = respell(s, style);
            let got = format!("{:?}", parse_command(&v));
            if got != base {
                diffs.push(format!("{v:?} parses differently from {s:?}"));
            }
        }
    }
    if diffs.is_empty() {
        println!("all {} sample commands parse identically under mixed-case keywords", samples.len());
        0
    } else {
        println!("{}", diffs.join("; "));
        3
    }
}

/// C19 native witness: real WalCleaner with the global configuration is not available here,
/// so this case only exercises deletion with the cut-off (non-conservative default path).
fn main() {
    std::panic::set_hook(Box::new(|_| {}));
    let args: Vec<String> = std::env::args().collect();
    let code = match args.get(1).map(|s| s.as_str()) {
        Some("parse") if args.len() >= 3 => parse_case(&args[2]),
        Some("parsedbg") if args.len() >= 3 => parse_debug_case(&args[2]),
        Some("triecheck") => triecheck(),
        Some("aggu64") if args.len() >= 3 => agg_u64(args[2].parse().unwrap()),
        Some("calendar") if args.len() >= 6 => calendar_case(args[2].parse().unwrap(), args[3].parse().unwrap(), &args[4], args[5].parse().unwrap()),
        Some("retirekey") if args.len() >= 4 => retirekey(args[2].parse().unwrap(), &args[3]),
        Some("allocstep") if args.len() >= 4 => allocstep(args[2].parse().unwrap(), args[3].parse().unwrap()),
        Some("history") if args.len() >= 3 => history(&args[2]),
        Some("calendar2") if args.len() >= 5 => calendar2_case(args[2].parse().unwrap(), args[3].parse().unwrap(), args[4].parse().unwrap()),
        Some("epoch") if args.len() >= 4 => epoch_case(&args[2], &args[3]),
        Some("precedence") => precedence_case(),
        Some("kwcase") => kwcase_case(),
        Some("stringcell") if args.len() >= 3 => stringcell(&args[2]),
        Some("surf") if args.len() >= 6 => surf_case(
            args[2].parse().unwrap(),
            args[4].parse().unwrap(),
            &args[3],
            args[5] == "int",
        ),
        _ => {
            eprintln!("usage: replay parse <input> | replay surf <stored> <op> <probe> <int|float>");
            2
        }
    };
    std::process::exit(code);
}
