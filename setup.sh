#!/bin/bash
# Run once after a fresh restore, offline: warms the build caches the checks share.
# Everything is rebuilt from files on disk; nothing is fetched.
set -u
cd "$(dirname "$0")"
export CARGO_NET_OFFLINE=true
mkdir -p .cache kani/src/replay
cp -f /repo/Cargo.lock kani/Cargo.lock
cp -f /repo/Cargo.lock .cache/lock.stamp
# Engine A: compile sneldb + harness crate once (goto programs for the cheapest module)
( cd kani && cargo kani --target-dir ../.cache/kani-target -Z stubbing --features c18 --only-codegen ) > .cache/setup-kani.log 2>&1
echo "kani warm-up exit=$?"
# Engine B: first MIR build of the crate (later dumps are incremental)
if [ -x vlib/mirsym/dump.py ]; then
  python3-vt vlib/mirsym/dump.py --warm > .cache/setup-mir.log 2>&1
  echo "mir warm-up exit=$?"
fi
# native replay program (real parser / engine, used to replay counterexamples)
( cd native && cp -f /repo/Cargo.lock Cargo.lock && cp -f /repo/rust-toolchain.toml rust-toolchain.toml 2>/dev/null; \
  env -u RUSTUP_TOOLCHAIN CARGO_TARGET_DIR="$PWD/../.cache/mirtarget" cargo build --offline ) > .cache/setup-native.log 2>&1
echo "native warm-up exit=$?"
exit 0
