#!/usr/bin/env python3-vt
"""dev helper: show the non-logging call events of a dumped MIR body with symbolic args"""
import sys,os,re; sys.path.insert(0,'/verif')
from vlib.mirsym import dump,mir,sym,specs
d,info=dump.dump(specs.all_filters())
needle=sys.argv[1]
vars_=sys.argv[2].split(',') if len(sys.argv)>2 else []
fs=dump.find_bodies(d,needle)
print(fs)
fn=mir.parse_file(fs[0])
print('problems',mir.self_check(fn)[:5],'blocks',len(fn.blocks),'raw',fn.raw_statements,'/',fn.total_statements)
print({k:v for k,v in fn.debug.items() if k not in('enabled','interest','iter','meta','args')})
E=sym.Evaluation(fn, sym.StructIndex('/repo/src'), k=2)
print('dag',len(E.order),'events',len(E.events),'cut',E.cut_back_edges)
for ev in E.events:
    if not sym.LOGGING_CALLS.search(ev.func) and ev.span and ev.span[0].startswith('src/') and not re.search(r'fmt::|Argument::|get_context|Pin::|into_future',ev.func):
        print(ev.bb, ev.layer, ev.short, [sym.describe(a)[:70] for a in ev.args], 'L%d'%ev.span[1])
        for n in vars_:
            v=E.var(ev.env,n)[0]
            if v is not None: print('      ',n,'=',sym.describe(v)[:100])
