#!/usr/bin/env python3
"""dev helper: run all Kani harnesses of one feature and print non-pass details"""
import sys; sys.path.insert(0,'/verif')
from vlib import kani_engine as k
feat=sys.argv[1]; tier=sys.argv[2] if len(sys.argv)>2 else 'quick'; jobs=int(sys.argv[3]) if len(sys.argv)>3 else 8
only=sys.argv[4] if len(sys.argv)>4 else None
if only:
    orig=k.parse_meta
    k.parse_meta=lambda f:[h for h in orig(f) if only in h['name']]
r=k.run_property(feat,tier,jobs,print)
if not r['build']['ok']: print(r['build']['log_tail'])
for h,res in r['results']:
    if res['outcome']!='pass':
        print('==',h['name'],res['outcome'],[(f['desc'],f['loc']) for f in res['failed']][:4]); print(res.get('log_tail','')[-1200:])
