#!/usr/bin/env python3
"""Runs /repo's pinned test suite (guard off) and compares the pass set with BASELINE.json's
stable_pass list.  Usage: baseline_check.py [repo_dir]   exit 0 iff every stable test passes."""
import json, os, subprocess, sys, xml.etree.ElementTree as ET
repo = sys.argv[1] if len(sys.argv) > 1 else "/repo"
base = json.load(open("/root/.vp/BASELINE.json"))
stable = set(base["stable_pass"])
junit = os.path.join(repo, "target/nextest/pb/junit.xml")
if os.path.exists(junit):
    os.remove(junit)
cmd = ["cargo", "nextest", "run", "--workspace", "--no-fail-fast", "--tool-config-file",
       "pb:/w/lib/nextest.toml", "--profile", "pb", "--test-threads", "8", "--offline"]
p = subprocess.run(cmd, cwd=repo, stdout=subprocess.PIPE, stderr=subprocess.STDOUT, text=True)
if not os.path.exists(junit):
    print(p.stdout[-3000:]); print("no junit produced"); sys.exit(2)
passed, failed = set(), set()
for tc in ET.parse(junit).getroot().iter("testcase"):
    tid = (tc.get("classname") or "") + "::" + (tc.get("name") or "")
    if tc.find("failure") is not None or tc.find("error") is not None:
        failed.add(tid)
    else:
        passed.add(tid)
missing = sorted(stable - passed)
print(f"passed={len(passed)} failed={len(failed)} stable={len(stable)} stable_not_passing={len(missing)}")
for m in missing[:40]:
    print("  NOT PASSING:", m)
sys.exit(0 if not missing else 1)
