#!/bin/bash
# usage: tools/seedmir_wt.sh <seed> <prop>...  mirsym part only, against a scratch worktree (/tmp/seedwt) instead of /repo,
# so that it can run while checks are running against /repo (native replays still use the binary built from /repo)
name=$1; shift
wt=/tmp/seedwt
[ -d $wt ] || git -C /repo worktree add --detach $wt HEAD >/dev/null 2>&1
cd $wt || exit 2
git checkout -q -- . ; git apply /verif/seeded/$name/patch.diff || { echo "patch does not apply"; exit 2; }
(cd /verif && VERIF_REPO=$wt tools/mironly.py "$@" > /tmp/seedmir.$name.log 2>&1; echo "$name $* exit=$?"; grep 'VIOLATION\|INCONCLUSIVE' /tmp/seedmir.$name.log | head -4)
git checkout -q -- .
