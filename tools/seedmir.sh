#!/bin/bash
# usage: tools/seedmir.sh <seed> <prop>...  like seedtest.sh but runs only the mirsym part (dev helper, no evidence written)
name=$1; shift
cd /repo || exit 2
git diff --quiet || { echo "/repo has uncommitted changes"; exit 2; }
git apply /verif/seeded/$name/patch.diff || { echo "patch does not apply"; exit 2; }
(cd /verif && tools/mironly.py "$@" > /tmp/seedmir.$name.log 2>&1; echo "$name $* exit=$?"; grep 'VIOLATION\|INCONCLUSIVE' /tmp/seedmir.$name.log | head -4)
git -C /repo checkout -- .
