#!/bin/bash
# dev helper: every seed that a mirsym obligation catches must still be caught (exit=1 each)
cd /verif
for s in "C10-8 C10" "C09-8 C09" "C19-8 C19" "C02-8 C02" "C08-8 C08" "C18-8 C18" "C01-7 C01" "C05-7 C05" "C12-7 C12" "C03-6 C03" "C07-6 C07" "C17-6 C17" "C09-5 C09" "C10-5 C10" "C06-6 C06" "C11-6 C11" "C16-6 C16" "C02-5 C02" "C08-5 C08" "C13-5 C13" "C19-5 C19" "C01-1 C01" "C02-1 C02" "C03-1 C03" "C05-1 C05" "C06-1 C06" "C09-1 C09" "C11-1 C11" "C13-1 C13" "C16-1 C16" "C17-1 C17" "C19-1 C19" \
         "C01-2 C05" "C02-2 C02" "C03-2 C03" "C05-2 C05" "C06-2 C06" "C07-2 C07" "C08-2 C08" "C10-2 C10" "C11-2 C11" "C12-1 C12" "C13-2 C13" "C17-2 C17" "C19-2 C19" "C01-3 C01" "C03-3 C03" "C05-3 C05" "C06-3 C06" "C08-3 C08" "C09-3 C09" "C10-3 C10" "C11-3 C11" "C13-3 C13" "C16-3 C16" "C19-3 C19" "C01-4 C01" "C02-4 C02" "C03-4 C03" "C05-4 C05"; do
  tools/seedmir_wt.sh $s 2>&1 | grep "exit="
done
