#!/bin/bash
# dev helper: run every registered check (quick or given tier) sequentially on /repo, one log and exit file each under /tmp/allchk
tier=${1:-quick}
mkdir -p /tmp/allchk; rm -f /tmp/allchk/*
cd /verif
for p in $(python3 -c "import json;print(' '.join(c['property_id'] for c in json.load(open('MANIFEST.json'))['checks']))"); do
  ./check $p --tier $tier > /tmp/allchk/$p.log 2>&1; echo "$p exit=$?" >> /tmp/allchk/summary
done
echo finished >> /tmp/allchk/summary
