#!/usr/bin/env python3-vt
"""dev helper: run only the mirsym part of the given properties (no evidence written, replay files
go to /tmp/mironly); prints one summary line per property. usage: tools/mironly.py [--tier t] C01 C05 ..."""
import json, os, sys, time
if os.environ.get("PYTHONHASHSEED") != "0":
    os.environ["PYTHONHASHSEED"] = "0"
    os.execv(sys.executable, [sys.executable] + sys.argv)
sys.path.insert(0, "/verif")
from vlib import props
from vlib.mirsym import runner
tier = "quick"
args = sys.argv[1:]
if args and args[0] == "--tier":
    tier, args = args[1], args[2:]
pids = args or [p for p, v in props.PROPS.items() if v.get("mir")]
findings = json.load(open("/verif/known_findings.json"))
rc = 0
for pid in pids:
    P = props.PROPS[pid]
    if not P.get("mir"):
        continue
    lines = []
    openf = {f["id"]: f for f in findings.get("findings", []) if f["property"] == pid}
    t0 = time.time()
    out = runner.run_property(pid, P["mir"], tier, lines.append, openf, f"/tmp/mironly/{pid}")
    bad = [l for l in lines if "slow query" in l or " violated " in l or " inconclusive " in l or "note:" in l]
    print(f"{pid}: obligations={out['obligations']} discharged={out['discharged']} violations={len(out['violations'])} "
          f"inconclusive={len(out['inconclusive'])} known={len(out['known_lines'])} solver={out['solver_s']:.1f}s wall={time.time()-t0:.0f}s")
    for l in bad:
        print("   ", l[:200])
    for v in out["violations"]:
        print("    VIOLATION", v["what"][:200]); rc = 1
    for v in out["inconclusive"]:
        print("    INCONCLUSIVE", v[:200]); rc = rc or 2
sys.exit(rc)
