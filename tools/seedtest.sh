#!/bin/bash
# usage: tools/seedtest.sh <seed dir name> <prop>...   applies seeded/<name>/patch.diff to /repo, runs the checks, reverts
name=$1; shift
cd /repo || exit 2
git diff --quiet || { echo "/repo has uncommitted changes"; exit 2; }
git apply /verif/seeded/$name/patch.diff || { echo "patch does not apply"; exit 2; }
for p in "$@"; do
  (cd /verif && VERIF_SEEDTEST=1 ./check $p --tier ${TIER:-quick} > /tmp/seedtest.$name.$p.log 2>&1; echo "$name $p exit=$? $(grep -c '^VIOLATION' /tmp/seedtest.$name.$p.log) violation line(s)"; grep '^VIOLATION\|INCONCLUSIVE\|violated' /tmp/seedtest.$name.$p.log | head -5)
done
git -C /repo checkout -- .
